# Shared corpus builder (copied verbatim into every equiv.py so each is self-contained)
import datetime, hashlib, io, os, sys, tempfile, traceback, contextlib

# -- determinism: fixed string hashing (attribute sets) and counted rdflib blank nodes
if os.environ.get("PYTHONHASHSEED") != "0":
    os.environ["PYTHONHASHSEED"] = "0"
    os.execv(sys.executable, [sys.executable] + sys.argv)
import rdflib.term as _rt


class _CountedUUID:
    n = 0

    def __call__(self):
        type(self).n += 1
        return self

    @property
    def hex(self):
        return "%032x" % type(self).n


_rt.uuid4 = _CountedUUID()

from prov.model import ProvDocument, Namespace, Literal, PROV, Identifier, QualifiedName
from prov.tests import examples


def edge_doc(odd_ns=False):
    d = ProvDocument()
    d.set_default_namespace("http://default.example/")
    ex = d.add_namespace("ex", "http://example.org/")
    if odd_ns:
        d.add_namespace("odd", "http://example.org/odd path/#")
    e1 = d.entity("ex:e1", {"prov:label": "café ☃ <&> \"q\" 'a'", "ex:n": 1, "ex:f": 2.5,
                            "ex:b": True, "ex:s": "", "ex:uri": Identifier("http://x.org/a?b=c&d"),
                            "ex:q": ex["qn"], "ex:t": datetime.datetime(2020, 1, 2, 3, 4, 5, 678)})
    # repeated identifier, several values for one attribute
    d.entity("ex:e1", {"ex:n": 2, "prov:type": ex["T"]})
    d.entity("ex:e1", [("ex:tag", "a"), ("ex:tag", "b"), ("ex:tag", Literal("c", langtag="en"))])
    d.entity("noprefix")
    a = d.activity("ex:a1", datetime.datetime(2012, 3, 4, 5, 6, 7), None, {"prov:type": "ex:edit"})
    ag = d.agent("ex:ag", {"prov:type": PROV["Person"], "prov:location": "Paris",
                           "prov:value": Literal("10", datatype=ex["dt"])})
    d.wasGeneratedBy(e1, a, datetime.datetime(2012, 3, 4, 5, 6, 8), identifier="ex:g1",
                     other_attributes={"prov:role": "writer"})
    d.wasGeneratedBy(e1, a)
    d.used(a, e1)
    d.used(a, None, None, {"ex:why": "unknown"})
    d.wasAssociatedWith(a, ag, "ex:plan")
    d.actedOnBehalfOf(ag, "ex:boss", a)
    d.wasDerivedFrom("ex:e2", e1, other_attributes={"prov:type": PROV["Revision"]})
    d.alternateOf("ex:e2", e1)
    d.specializationOf("ex:e2", e1)
    d.hadMember("ex:coll", e1)
    d.hadMember("ex:coll", "ex:e2")
    d.wasStartedBy(a, e1, None, datetime.datetime(2012, 1, 1))
    d.wasEndedBy(a, None, None, None)
    d.wasInvalidatedBy(e1, a, identifier="ex:inv")
    d.wasInformedBy("ex:a2", a)
    d.wasAttributedTo(e1, ag)
    d.wasInfluencedBy(e1, ag, identifier="ex:infl")
    b = d.bundle("ex:bundle1")
    b.add_namespace("bx", "http://bundle.example/ns#")
    b.entity("bx:inner", {"prov:label": Literal("hallo", langtag="de")})
    b.entity("ex:e1")
    b.mentionOf("bx:inner", "ex:e1", "ex:bundle1") if hasattr(b, "mentionOf") else None
    d.bundle("ex:emptybundle")
    return d


def corpus():
    docs = [("empty", ProvDocument())]
    only_ns = ProvDocument()
    only_ns.add_namespace("ex", "http://example.org/")
    docs.append(("only_ns", only_ns))
    for name, fn in examples.tests:
        docs.append((name, fn()))
    docs.append(("edge", edge_doc()))
    docs.append(("edge_oddns", edge_doc(odd_ns=True)))
    return docs


def digest(data):
    if isinstance(data, str):
        data = data.encode("utf-8")
    return hashlib.sha256(data).hexdigest()[:16]


def attempt(label, fn):
    """Run fn, print a deterministic line for its result or its exception."""
    out = io.StringIO()
    try:
        with contextlib.redirect_stdout(out):
            res = fn()
        if isinstance(res, (bytes, str)):
            shown = "%s len=%d sha=%s" % (type(res).__name__, len(res), digest(res))
        else:
            shown = repr(res)
        print("%-60s OK  %s  stdout=%r" % (label, shown, out.getvalue()))
    except BaseException as exc:  # noqa
        ctx = type(exc.__context__).__name__ if exc.__context__ is not None else None
        print("%-60s EXC %s: %s  ctx=%s  stdout=%r" % (label, type(exc).__name__, exc, ctx, out.getvalue()))


# ---- refactoring 3: ProvXMLSerializer.serialize_bundle (xsd type inference) / serialize
import enum
from lxml import etree
from prov.serializers import provxml
from prov.serializers.provxml import ProvXMLSerializer


class MyInt(int):
    pass


class MyStr(str):
    pass


class Colour(enum.IntEnum):
    RED = 1


def typed_doc():
    d = ProvDocument()
    ex = d.add_namespace("ex", "http://example.org/")
    t = datetime.datetime(2001, 2, 3, 4, 5, 6)
    values = [True, False, 0, 1, -7, 2 ** 70, 1.5, float("inf"), float("nan"), "", "plain", "prov:looksLikeProv",
              "PROV:upper", t, Identifier("http://id.example/x"), ex["qn"], PROV["Person"],
              Literal("lit"), Literal("lit", langtag="fr"), Literal("5", datatype=ex["dt"]),
              Literal("x", datatype=PROV["InternationalizedString"]), MyInt(5), MyStr("sub"), Colour.RED,
              Literal(True), Literal(1.25)]
    for i, val in enumerate(values):
        for attr in ("prov:type", "prov:location", "prov:value", "prov:label", "ex:time", "ex:other", "prov:role"):
            try:
                d.entity("ex:e%d_%s" % (i, attr.replace(":", "_")), [(attr, val)])
            except Exception as exc:  # the model may refuse some values; the same on both sides
                print("model refused", i, attr, type(exc).__name__)
    # several values on one record, formal time attributes, relations with refs
    d.entity("ex:multi", [("prov:type", v) for v in values[:12]])
    a = d.activity("ex:a", t, t, {"ex:time": t, "prov:type": True})
    d.wasGeneratedBy("ex:multi", a, t, other_attributes={"prov:role": 3, "ex:flag": False})
    d.used(a, "ex:multi", None, "ex:u1", {"ex:when": t, "prov:location": Identifier("urn:loc")})
    d.wasStartedBy(a, None, None, t)
    b = d.bundle("ex:b")
    b.entity("ex:inner", {"prov:value": 4.0, "prov:type": "prov:Thing", "ex:b": True})
    return d


def xml_of(elem):
    return etree.tostring(elem, pretty_print=True)


docs = corpus() + [("typed", typed_doc())]
for name, doc in docs:
    for ft in (False, True, 0, 1, "yes", None):
        attempt("%s xml text force_types=%r" % (name, ft), lambda: doc.serialize(format="xml", force_types=ft))
    def binary():
        buf = io.BytesIO()
        ProvXMLSerializer(doc).serialize(buf)
        return buf.getvalue()
    attempt("%s xml binary" % name, binary)
    for ft in (False, True):
        def bundles():
            ser = ProvXMLSerializer(doc)
            root = ser.serialize_bundle(doc, force_types=ft)
            parts = [xml_of(root)]
            for b in doc.bundles:
                parts.append(xml_of(ser.serialize_bundle(b, force_types=ft)))
                parts.append(xml_of(ser.serialize_bundle(bundle=b, element=root, force_types=ft)))
            parts.append(xml_of(root))
            return b"\n".join(parts)
        attempt("%s serialize_bundle force_types=%r" % (name, ft), bundles)

# print one full text so that differences would be easy to read
print(typed_doc().serialize(format="xml", force_types=True))
print(typed_doc().serialize(format="xml"))
print("has ALWAYS_CHECK attr on class/module:", hasattr(ProvXMLSerializer, "ALWAYS_CHECK"), hasattr(provxml, "ALWAYS_CHECK"))
