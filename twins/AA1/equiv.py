# Differential script for refactoring 1 (helpers extracted from encode_json_container).
import json
import os
import sys

sys.path.insert(0, os.path.dirname(os.path.abspath(__file__)))
import corpus  # noqa: E402
from prov.serializers import provjson  # noqa: E402
from prov.model import ProvDocument, ProvRecord  # noqa: E402


def show(tag, text):
    print("== %s  sha=%s len=%d" % (tag, corpus.digest(text), len(text)))
    print(text)


for name, make in corpus.DOCS:
    d = make()
    c = provjson.encode_json_container(d)
    print("container type:", type(c).__name__, "keys:", list(c.keys()))
    show("container " + name, json.dumps(c, ensure_ascii=False))
    for b in d.bundles:
        cb = provjson.encode_json_container(b)
        print("bundle keys:", list(cb.keys()))
        show("bundle %s %s" % (name, b.identifier), json.dumps(cb, ensure_ascii=False))
    show("document " + name, json.dumps(provjson.encode_json_document(d), ensure_ascii=False))
    show("serialize " + name, d.serialize(format="json", indent=2))

# anonymous ids: counter is per call, and shared across record kinds
d = ProvDocument()
d.add_namespace("ex", "http://example.org/")
d.used("ex:a", "ex:e")
d.wasGeneratedBy("ex:e", "ex:a")
d.used("ex:a", "ex:e")  # equal to the first one -> same anonymous id -> list
d.hadMember("ex:c", "ex:e")
for _ in range(2):
    show("anon", json.dumps(provjson.encode_json_container(d)))

# a record whose attribute dict holds an empty value set / is empty
d = ProvDocument()
d.add_namespace("ex", "http://example.org/")
e = d.entity("ex:e", {"ex:k": 1})
e._attributes[d.valid_qualified_name("ex:none")] = set()
show("empty value set", json.dumps(provjson.encode_json_container(d)))
e._attributes.clear()
show("no attributes", json.dumps(provjson.encode_json_container(d)))


# unknown record type -> KeyError before anything else
class Odd(ProvRecord):
    def get_type(self):
        return "odd"


d = ProvDocument()
d._records.append(Odd(d, None))
print(corpus.attempt(provjson.encode_json_container, d))

# value that cannot be encoded -> error propagates from the JSON encoder
d = ProvDocument()
d.add_namespace("ex", "http://example.org/")
d.entity("ex:e", {"ex:k": 1 + 2j})
c = provjson.encode_json_container(d)
print(repr(dict(c)))
print(corpus.attempt(d.serialize, format="json"))
