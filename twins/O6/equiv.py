"""Differential script for ProvRecord views/accessors, ProvElement, ProvRelation,
ProvActivity time helpers.  Prints a deterministic digest."""
import os
import sys

if os.environ.get("PYTHONHASHSEED") != "0":
    os.environ["PYTHONHASHSEED"] = "0"
    os.execv(sys.executable, [sys.executable] + sys.argv)

import datetime
import hashlib

import prov.model as pm
from prov.model import (
    ProvDocument,
    ProvRecord,
    ProvElement,
    ProvRelation,
    ProvActivity,
    ProvEntity,
    Literal,
    ProvException,
)
from prov.identifier import Namespace, QualifiedName, Identifier
from prov.constants import *

LINES = []


def out(*parts):
    LINES.append(" | ".join(str(p) for p in parts))


def attempt(label, fn):
    try:
        res = fn()
        out(label, "OK", type(res).__name__, repr(res))
        return res
    except BaseException as e:  # noqa
        out(label, "EXC", type(e).__name__, str(e))
        return None


def keys(rec):
    return [(str(k), sorted(repr(v) for v in vs)) for k, vs in rec._attributes.items()]


def dump(tag, rec):
    out(tag, "type", rec.get_type(), "is_element", rec.is_element(), "is_relation", rec.is_relation())
    out(tag, "keys0", keys(rec))
    attempt(tag + ".identifier", lambda: rec.identifier)
    attempt(tag + ".attributes", lambda: rec.attributes)
    out(tag, "keys1", keys(rec))
    attempt(tag + ".args", lambda: rec.args)
    out(tag, "keys2", keys(rec))
    attempt(tag + ".formal_attributes", lambda: rec.formal_attributes)
    attempt(tag + ".extra_attributes", lambda: rec.extra_attributes)
    out(tag, "keys3", keys(rec))
    attempt(tag + ".get_provn", lambda: rec.get_provn())
    out(tag, "keys4", keys(rec))
    attempt(tag + ".str", lambda: str(rec))
    attempt(tag + ".repr", lambda: repr(rec))
    attempt(tag + ".label", lambda: rec.label)
    out(tag, "keys5", keys(rec))
    attempt(tag + ".value", lambda: rec.value)
    out(tag, "keys6", keys(rec))
    attempt(tag + ".asserted", lambda: rec.get_asserted_types())
    out(tag, "keys7", keys(rec))
    attempt(tag + ".get_attribute(prov:label)", lambda: rec.get_attribute("prov:label"))
    attempt(tag + ".get_attribute(ex:foo)", lambda: rec.get_attribute("ex:foo"))
    attempt(tag + ".get_attribute(PROV_TYPE)", lambda: rec.get_attribute(PROV_TYPE))
    attempt(tag + ".get_attribute(bad)", lambda: rec.get_attribute("nosuchprefix:zzz"))
    attempt(tag + ".get_attribute(None)", lambda: rec.get_attribute(None))
    out(tag, "keys8", keys(rec))
    attempt(tag + ".hash-stable", lambda: hash(rec) == hash(rec))
    c = attempt(tag + ".copy", lambda: rec.copy())
    if c is not None:
        out(tag, "copy is rec", c is rec, "eq", c == rec, "ne", c != rec,
            "hash eq", hash(c) == hash(rec), "type", type(c).__name__,
            "bundle same", c.bundle is rec.bundle, "id same", c.identifier is rec.identifier)
        out(tag, "copy keys", keys(c))
        out(tag, "copy provn", c.get_provn())
    attempt(tag + ".get_provn-after", lambda: rec.get_provn())
    out(tag, "keys9", keys(rec))


EX = Namespace("ex", "http://example.org/")
OTHER = Namespace("o-t.h", "http://other.example/ns#")

doc = ProvDocument()
doc.add_namespace(EX)
doc.add_namespace(OTHER)
doc.set_default_namespace("http://default.example/")

e_plain = doc.entity("ex:e1")
e_rich = doc.entity(
    "ex:e2",
    [
        (PROV_LABEL, "label one"),
        (PROV_LABEL, Literal("etiquette", langtag="fr")),
        (PROV_TYPE, EX["Thing"]),
        (PROV_TYPE, "plain string type"),
        (PROV_VALUE, 42),
        ("ex:foo", 'quote " and \\ backslash'),
        ("ex:foo", "multi\nline"),
        ("ex:foo", 3.5),
        ("ex:foo", True),
        ("ex:bar", datetime.datetime(2020, 1, 2, 3, 4, 5)),
        ("ex:bar", Literal("10", XSD_INT)),
        ("ex:bar", Literal("abc", datatype=EX["custom"])),
        ("ex:uri", Identifier("http://x.example/a b")),
        (OTHER["we-ird.na_me"], "ünïcöde \U0001F600"),
        ("ex:empty", ""),
        ("localdefault", "in default ns"),
    ],
)
e_dup = doc.entity("ex:e1", {"ex:foo": "second e1"})  # repeated identifier
a_none = doc.activity("ex:a0")
a_full = doc.activity("ex:a1", "2011-11-16T16:05:00", datetime.datetime(2011, 11, 16, 16, 6), {PROV_TYPE: "ex:edit", "ex:host": "server"})
a_end = doc.activity("ex:a2", None, "2012-01-01T00:00:00+01:00")
ag = doc.agent("ex:ag", {PROV_TYPE: PROV["Person"], "prov:label": "Agent Smith"})
coll = doc.collection("ex:c1")

rels = [
    doc.wasGeneratedBy(e_rich, a_full, "2011-11-16T16:05:30", identifier="ex:gen1", other_attributes={"ex:port": "p1", PROV_ROLE: "out"}),
    doc.wasGeneratedBy("ex:e1", None, None),
    doc.used(a_full, e_plain, None, None, {"ex:x": 1}),
    doc.wasStartedBy(a_full, e_plain, a_none, "2011-11-16T16:05:00"),
    doc.wasEndedBy(a_full),
    doc.wasInvalidatedBy(e_plain, a_end, identifier="ex:inv"),
    doc.wasInformedBy(a_end, a_full),
    doc.wasDerivedFrom(e_rich, e_plain, a_full, "ex:gen1", None, identifier="ex:der", other_attributes={PROV_TYPE: PROV["Revision"]}),
    doc.wasAttributedTo(e_rich, ag),
    doc.wasAssociatedWith(a_full, ag, "ex:plan"),
    doc.wasAssociatedWith(a_full, None, "ex:plan"),
    doc.actedOnBehalfOf(ag, "ex:boss", a_full),
    doc.wasInfluencedBy(e_rich, ag, identifier="ex:infl"),
    doc.specializationOf(e_rich, e_plain),
    doc.alternateOf(e_rich, e_plain),
    doc.mentionOf(e_rich, e_plain, "ex:bundle1"),
    doc.hadMember(coll, e_plain),
]

b = doc.bundle("ex:bundle1")
b.add_namespace("bx", "http://bundle.example/")
be = b.entity("bx:inner", {"prov:label": "inner", "ex:foo": "same ns as doc"})
ba = b.activity("bx:act")
br = b.wasGeneratedBy(be, ba, datetime.datetime(1999, 12, 31, 23, 59, 59, 123456))

records = [e_plain, e_rich, e_dup, a_none, a_full, a_end, ag, coll] + rels + [be, ba, br]
for i, r in enumerate(records):
    dump("R%02d" % i, r)

# equality / hashing matrix
out("EQ-matrix")
for i, r1 in enumerate(records):
    row = []
    for j, r2 in enumerate(records):
        row.append("1" if r1 == r2 else "0")
    out("eq%02d" % i, "".join(row))
out("eq-nonrecord", e_plain == "ex:e1", e_plain == None, e_plain != 5, e_plain == e_plain.identifier)  # noqa
out("set size", len(set(records)), len({r.copy() for r in records} | set(records)))

# same id, different types / attrs
d2 = ProvDocument()
d2.add_namespace(EX)
x_ent = d2.entity("ex:same")
x_act = d2.activity("ex:same")
x_ent2 = d2.entity("ex:same", {"ex:k": "v"})
x_ent3 = d2.entity("ex:same", {"ex:k": "v"})
out("cross", x_ent == x_act, x_ent == x_ent2, x_ent2 == x_ent3, hash(x_ent2) == hash(x_ent3), x_ent2 is x_ent3)
other_doc_e = ProvDocument()
other_doc_e.add_namespace("ex2", "http://example.org/")
y = other_doc_e.entity("ex2:same")
out("cross-doc", x_ent == y, hash(x_ent) == hash(y), x_ent.get_provn(), y.get_provn())

# add_asserted_type
t = d2.entity("ex:typed")
out("asserted0", sorted(map(repr, t.get_asserted_types())), keys(t))
t.add_asserted_type(EX["T1"])
t.add_asserted_type("ex:T2")
t.add_asserted_type(EX["T1"])
t.add_asserted_type(PROV["Plan"])
attempt("asserted-none", lambda: t.add_asserted_type(None))
attempt("asserted-record", lambda: t.add_asserted_type(x_ent))
attempt("asserted-literal", lambda: t.add_asserted_type(Literal("lit", langtag="en")))
out("asserted1", sorted(map(repr, t.get_asserted_types())), keys(t))
out("asserted provn", t.get_provn())
out("asserted same object", t.get_asserted_types() is t._attributes[PROV_TYPE], t.value is t._attributes[PROV_VALUE])
gs = t.get_attribute("ex:new")
gs.add("mutated through view")
out("get_attribute view", t.attributes, t.get_provn())

# base classes directly
raw = ProvRecord(d2, EX["raw"], {"ex:k": "v"})
attempt("raw.get_type", raw.get_type)
attempt("raw.get_provn", raw.get_provn)
attempt("raw.copy", raw.copy)
attempt("raw.repr-type", lambda: type(repr(raw)).__name__)
out("raw", raw.is_element(), raw.is_relation(), raw.args, raw.formal_attributes, raw.extra_attributes, raw.attributes, raw.label, raw.value)
raw_noid = ProvRecord(d2, None)
out("raw_noid", raw_noid.label, raw_noid.identifier, raw_noid == ProvRecord(d2, None), hash(raw_noid) == hash(ProvRecord(d2, None)), keys(raw_noid))
attempt("raw_noid.get_provn", raw_noid.get_provn)
attempt("element-none-id", lambda: ProvElement(d2, None))
attempt("element-none-id-str", lambda: str(pm.ProvElementIdentifierRequired()))
attempt("entity-none-id", lambda: ProvEntity(d2, None, {"ex:k": "v"}))
attempt("activity-none-id", lambda: d2.activity(None))
attempt("element-empty-id", lambda: ProvElement(d2, "", None))
attempt("element-bad-attr", lambda: ProvEntity(d2, EX["bad"], {"zz:unknown": 1}))
el = ProvElement(d2, EX["el"], [("ex:k", "v"), ("ex:k", None)])
attempt("el.repr", lambda: repr(el))
attempt("el.get_provn", el.get_provn)
attempt("el.copy", el.copy)
out("el", el.is_element(), el.is_relation(), el.attributes, el.label, keys(el))
rel = ProvRelation(d2, None, [("ex:k", "v")])
attempt("rel.repr", lambda: repr(rel))
attempt("rel.get_provn", rel.get_provn)
out("rel", rel.is_element(), rel.is_relation(), rel.args, rel.formal_attributes)
rel_one = pm.ProvGeneration(d2, EX["g"], [(PROV_ATTR_ENTITY, "ex:same")])
attempt("rel_one.repr", lambda: repr(rel_one))
attempt("rel_one.get_provn", rel_one.get_provn)
out("rel_one", rel_one.args, rel_one.formal_attributes, rel_one.extra_attributes, keys(rel_one))


class Sub(ProvEntity):
    pass


s = Sub(d2, EX["sub"], {"prov:label": "sub"})
out("sub", repr(s), s.get_provn(), type(s.copy()).__name__, s == s.copy(), s.copy() == s)

# ProvActivity time helpers
act = d2.activity("ex:timed")
out("t0", act.get_startTime(), act.get_endTime(), keys(act), act.get_provn())
act2 = d2.activity("ex:timed2")
out("t0b", keys(act2))
act2.set_time()
out("t0c", keys(act2))
act2.set_time(None, "2001-02-03")
out("t0d", keys(act2), act2.get_startTime(), act2.get_endTime(), keys(act2), act2.get_provn())
act.set_time("2020-05-06T07:08:09Z")
out("t1", act.get_startTime(), act.get_endTime(), keys(act), act.args)
act.set_time(endTime=datetime.datetime(2021, 1, 1))
out("t2", act.get_startTime(), act.get_endTime(), keys(act), act.formal_attributes)
act.set_time(datetime.datetime(2019, 1, 1, tzinfo=datetime.timezone.utc), "2019-06-01 10:00")
out("t3", act.get_startTime(), act.get_endTime(), keys(act), act.get_provn())
attempt("t-bad-start", lambda: act.set_time("not a date", "2000-01-01"))
out("t4", act.get_startTime(), act.get_endTime(), keys(act))
attempt("t-bad-end", lambda: act.set_time("1990-01-01", "also not a date"))
out("t5", act.get_startTime(), act.get_endTime(), keys(act))
attempt("t-nonstr", lambda: act.set_time(12345, 0))
out("t6", act.get_startTime(), act.get_endTime(), keys(act))
attempt("t6.provn", act.get_provn)
attempt("t-empty-str", lambda: act.set_time("", ""))
out("t7", act.get_startTime(), act.get_endTime(), keys(act))
act3 = d2.activity("ex:timed3")
act3.set_time(endTime="2000-01-01")
act3.set_time(startTime="1999-01-01")
out("t8 order", keys(act3), act3.attributes, act3.get_provn(), act3.copy().get_provn(), act3 == act3.copy())
act4 = d2.activity("ex:falsy")
act4._attributes[PROV_ATTR_STARTTIME] = {0}
act4._attributes[PROV_ATTR_ENDTIME] = {""}
out("t9 falsy", repr(act4.get_startTime()), repr(act4.get_endTime()), act4.args)
attempt("t9.provn", act4.get_provn)
lab = d2.entity("ex:falsylabel")
lab._attributes[PROV_LABEL] = {""}
out("falsy label", repr(lab.label))

# whole-document outputs that route through the record methods
out("doc provn sha", hashlib.sha256(doc.get_provn().encode("utf-8")).hexdigest())
out(doc.get_provn())
out("doc json sha", hashlib.sha256(doc.serialize(format="json").encode("utf-8")).hexdigest())
out("doc xml sha", hashlib.sha256(doc.serialize(format="xml").encode("utf-8")).hexdigest())
out("doc unified", doc.unified().get_provn())
out("doc eq", doc == ProvDocument.deserialize(content=doc.serialize(format="json"), format="json"))
out("d2 provn", d2.get_provn())

text = "\n".join(LINES)
print(text)
print("DIGEST", hashlib.sha256(text.encode("utf-8")).hexdigest())
