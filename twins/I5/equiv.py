"""Differential script: exercises NamespaceManager, ProvBundle namespace-facing
methods and prov.identifier on representative + edge inputs and prints a
deterministic digest (only public behaviour is recorded)."""
import hashlib
import os
import sys

if os.environ.get("PYTHONHASHSEED") != "0":
    # set iteration order (e.g. ProvBundle.namespaces, flattened()) depends on the
    # string hash seed: pin it so that the digest is reproducible across runs
    os.environ["PYTHONHASHSEED"] = "0"
    os.execv(sys.executable, [sys.executable] + sys.argv)

from prov.identifier import Identifier, QualifiedName, Namespace
from prov.model import NamespaceManager, ProvBundle, ProvDocument, Literal

LINES = []


def emit(*parts):
    LINES.append(" | ".join(str(p) for p in parts))


def call(label, fn, *args, **kw):
    try:
        res = fn(*args, **kw)
        emit(label, "OK", type(res).__name__, repr(res))
        return res
    except Exception as e:  # noqa
        emit(label, "EXC", type(e).__name__, str(e))
        return None


def dump_mgr(label, m):
    emit(label, "items", [(k, repr(v)) for k, v in m.items()])
    emit(label, "registered", [repr(n) for n in m.get_registered_namespaces()])
    emit(label, "default", repr(m.get_default_namespace()))
    emit(label, "parent", type(m.parent).__name__)


class StrSub(str):
    def __str__(self):
        return "STRSUB<" + str.__str__(self) + ">"


class Weird(object):
    def __str__(self):
        return "weird:obj"

    def __repr__(self):
        return "<Weird>"


# ---------------------------------------------------------------- identifier
def identifier_part():
    for u in ["http://example.org/a", "", "urn:x:y", "café %s {0} {x}", 42, None, StrSub("sub")]:
        i = call("Identifier(%r)" % (u,), Identifier, u)
        if i is None:
            continue
        emit("id.str", str(i), repr(i), i.uri, i.provn_representation(), type(i.uri).__name__)
        emit("id.eq", i == Identifier(u), i == u, i != Identifier("zz"), i == None, hash(i) == hash(Identifier(u)))  # noqa

    for p, u in [("ex", "http://example.org/"), ("", "http://default/"), ("ex", ""), ("ex", "   "),
                 ("ex", None), (None, "http://x/"), ("a b", "urn:%s:"), (StrSub("pp"), StrSub("http://s/"))]:
        ns = call("Namespace(%r,%r)" % (p, u), Namespace, p, u)
        if ns is None:
            continue
        emit("ns", repr(ns), ns.uri, ns.prefix, hash(ns) == hash(Namespace(p, u)))
        for other in [Namespace(p, u), Namespace("zz", u), Namespace(p, "urn:other"), "str", None, 5, ns]:
            emit("ns.cmp", repr(other), ns == other, ns != other)
        for ident in ["http://example.org/abc", "http://example.org/", "urn:nope", "", None, 7,
                      Identifier("http://example.org/q"), Identifier(""), Identifier("http://default/zz"),
                      StrSub("http://s/abc"), Weird(), b"http://example.org/b", ("t",)]:
            call("ns.contains(%r)" % (ident,), ns.contains, ident)
            q = call("ns.qname(%r)" % (ident,), ns.qname, ident)
            if q is not None:
                emit("ns.qname.detail", str(q), q.uri, q.localpart, q.namespace is ns)
        for lp in ["a", "a", "", "x:y", "café", "%s", "{0}", StrSub("lp"), None, 3, ("t",)]:
            q1 = call("ns[%r]" % (lp,), ns.__getitem__, lp)
            if q1 is not None:
                q2 = ns[lp]
                emit("ns[].detail", q1 is q2, str(q1), repr(q1), q1.uri, q1.localpart, q1.provn_representation(),
                     q1.namespace is ns, hash(q1) == hash(q1.uri), q1 == Identifier(q1.uri), q1 == QualifiedName(ns, lp))
        call("ns[unhashable]", ns.__getitem__, ["l"])

    ns = Namespace("ex", "http://example.org/")
    for lp in ["a", "", "b c", StrSub("s")]:
        q = call("QualifiedName(ns,%r)" % (lp,), QualifiedName, ns, lp)
        if q is not None:
            emit("qn", str(q), repr(q), q.uri, q.provn_representation(), hash(q) == hash(q.uri))
    call("QualifiedName(ns,None)", QualifiedName, ns, None)
    call("QualifiedName(None,'a')", QualifiedName, None, "a")
    dq = QualifiedName(Namespace("", "http://d/"), "loc")
    emit("qn.default", str(dq), repr(dq), dq.provn_representation())


# --------------------------------------------------------- NamespaceManager
def manager_part():
    ex = Namespace("ex", "http://example.org/")
    ex_same = Namespace("ex", "http://example.org/")
    ex_other = Namespace("ex", "http://other.org/")
    ex_third = Namespace("ex", "http://third.org/")
    alias = Namespace("alias", "http://example.org/")
    prov_clash = Namespace("prov", "http://notprov/")

    m = call("NM()", NamespaceManager)
    dump_mgr("m0", m)
    for n in [ex, ex, ex_same, ex_other, ex_other, Namespace("ex", "http://other.org/"), ex_third, alias, alias,
              prov_clash, Namespace("ex_1", "http://fourth/"), Namespace("ex", "http://fifth/"),
              Namespace("", "http://emptyprefix/"), Namespace("", "http://emptyprefix2/")]:
        r = call("add_namespace(%r)" % (n,), m.add_namespace, n)
        emit("same-object", r is n)
    dump_mgr("m1", m)
    for bad in [None, "ex", 5, ("ex", "u")]:
        call("add_namespace(bad %r)" % (bad,), m.add_namespace, bad)
    for u in ["http://example.org/", "http://other.org/", "http://nope/", None, "http://www.w3.org/ns/prov#", ""]:
        call("get_namespace(%r)" % (u,), m.get_namespace, u)
    for p in ["ex", "zz", "prov", "ex_1", "", "xsd"]:
        call("_get_unused_prefix(%r)" % (p,), m._get_unused_prefix, p)
    call("_get_unused_prefix(None)", m._get_unused_prefix, None)
    call("_get_unused_prefix(5)", m._get_unused_prefix, 5)
    call("anon", m.get_anonymous_identifier)
    call("anon", m.get_anonymous_identifier, "b")
    call("anon", m.get_anonymous_identifier, local_prefix="")
    call("anon", m.get_anonymous_identifier, None)
    a = m.get_anonymous_identifier("x y")
    emit("anon.detail", str(a), a.uri, a.provn_representation())

    # add_namespaces variants
    for arg in [None, [], {}, (), {"a": "http://a/", "b": "http://b/", "a2": "http://a/"}, [ex, ex_other],
                (n for n in [Namespace("g", "http://g/")]), {"bad": "", "c": "http://c/"},
                {"c0": "http://c0/", "bad": " "}, "str", 5, [None], {"ex": "http://sixth/"}]:
        mm = NamespaceManager()
        call("add_namespaces(%r)" % (type(arg).__name__ if not isinstance(arg, (dict, list, tuple, str, int)) and arg is not None else arg,),
             mm.add_namespaces, arg)
        dump_mgr("after add_namespaces", mm)
    # constructor variants
    for kw in [dict(), dict(namespaces={"a": "http://a/"}), dict(default="http://def/"),
               dict(default=""), dict(default="  "), dict(namespaces=[ex, alias], default="http://def/"),
               dict(namespaces={"": "http://viaadd/"}), dict(namespaces={"": "http://viaadd/"}, default="http://def/"),
               dict(namespaces={"prov": "http://clash/"}), dict(default=5)]:
        mm = call("NM(%r)" % (sorted(kw),), NamespaceManager, **kw)
        if mm is not None:
            dump_mgr("ctor", mm)
            call("ctor.vqn", mm.valid_qualified_name, "plain")
            call("ctor.vqn", mm.valid_qualified_name, ":plain")

    # valid_qualified_name
    parent = NamespaceManager({"par": "http://parent/"}, default="http://pdef/")
    child = NamespaceManager({"ex": "http://example.org/", "long": "http://example.org/long/"}, parent=parent)
    nodef = NamespaceManager({"ex": "http://example.org/"})
    withdef = NamespaceManager({"ex": "http://example.org/"}, default="http://def/")
    renamed = NamespaceManager()
    renamed.add_namespace(Namespace("ex", "http://example.org/"))
    renamed.add_namespace(Namespace("ex", "http://other.org/"))
    renamed.add_namespace(Namespace("al", "http://example.org/"))
    mgrs = [("child", child), ("nodef", nodef), ("withdef", withdef), ("renamed", renamed), ("parent", parent)]

    def inputs():
        d1 = Namespace("", "http://def/")
        d2 = Namespace("", "http://def2/")
        d3 = Namespace("", "http://def3/")
        return [
            None, "", 0, [], (), Identifier(""),
            ex["a"], ex_same["a"], ex_other["b"], Namespace("ex", "http://other.org/")["b"], alias["c"],
            Namespace("new", "http://new/")["n"], Namespace("par", "http://parent/")["p"],
            Namespace("par", "http://notparent/")["p"], prov_clash["x"], Namespace("prov", "http://www.w3.org/ns/prov#")["Entity"],
            d1["l1"], d1["l1"], d2["l2"], d3["l3"], d2["l2b"], Namespace("", "http://def/")["l4"],
            Namespace("dn", "http://dnclash/")["z"], Namespace("", "http://def4/")[""],
            "ex:a", "ex:", ":a", "ex:a:b", "al:q", "unknown:a", "par:p", "prov:Entity", "xsd:string", "_:b1", "_:", "_x",
            "plain", "pl ain", "café", "http://example.org/abc", "http://example.org/long/abc", "http://parent/x",
            "http://nowhere/x", "http://other.org/zz", "dn:q", "ex_1:r", "long:", "a:b:c",
            Identifier("http://example.org/id"), Identifier("ex:viaid"), Identifier("_:anon"), Identifier("noscheme"),
            Identifier("http://parent/deep"), StrSub("ex:sub"), StrSub("plainsub"),
            5, 5.5, ("ex", "a"), ["ex:a"], b"ex:a", Weird(), Literal("ex:a"), True, ex,
        ]

    for name, mg in mgrs:
        for x in inputs():
            r = call("%s.vqn(%r)" % (name, x), mg.valid_qualified_name, x)
            if isinstance(r, QualifiedName):
                emit("vqn.detail", str(r), r.uri, repr(r.namespace), r.localpart, r is x,
                     r.namespace is mg.get(r.namespace.prefix), r.namespace is mg.get_default_namespace())
        dump_mgr("after-vqn " + name, mg)
    # second pass: state accumulated by first pass matters (renames, defaults)
    for name, mg in mgrs:
        for x in ["ex:a", "new:n", "dn:z", "dn_1:z", "par:p", "par_1:p", "plain", "prov_1:x"]:
            call("%s.vqn2(%r)" % (name, x), mg.valid_qualified_name, x)


# ------------------------------------------------------------------ bundles
def bundle_part():
    d = ProvDocument()
    emit("doc.empty.provn", d.get_provn())
    emit("doc.ns", sorted(repr(n) for n in d.namespaces), repr(d.get_default_namespace()), d.default_ns_uri)
    call("doc.add_namespace", d.add_namespace, "ex", "http://example.org/")
    call("doc.add_namespace", d.add_namespace, Namespace("ex", "http://example.org/"))
    call("doc.add_namespace", d.add_namespace, Namespace("ex", "http://other.org/"))
    call("doc.add_namespace", d.add_namespace, "ex", "http://other.org/")
    call("doc.add_namespace", d.add_namespace, "ex2", uri="http://ex2/")
    call("doc.add_namespace", d.add_namespace, namespace_or_prefix="kw", uri="http://kw/")
    call("doc.add_namespace bad", d.add_namespace, "ex")
    call("doc.add_namespace bad", d.add_namespace, None)
    call("doc.add_namespace bad", d.add_namespace, "ex", "")
    call("doc.add_namespace bad", d.add_namespace, "ex", " ")
    call("doc.add_namespace bad", d.add_namespace, Namespace("q", "http://q/"), "http://ignored/")
    call("doc.add_namespace", d.add_namespace, "", "http://emptyprefix/")
    emit("doc.provn.1", d.get_provn())
    call("doc.set_default", d.set_default_namespace, "http://default/")
    call("doc.set_default bad", d.set_default_namespace, "")
    call("doc.set_default bad", d.set_default_namespace, None)
    call("doc.set_default", d.set_default_namespace, "http://default2/")
    emit("doc.ns", sorted(repr(n) for n in d.namespaces), repr(d.get_default_namespace()), d.default_ns_uri,
         type(d.namespaces).__name__, [repr(n) for n in d.get_registered_namespaces()])
    for x in [None, "", "ex:a", "plain", "unknown:x", "_:b", "http://ex2/zz", Identifier("kw:k"), 5,
              Namespace("", "http://default2/")["same"], Namespace("", "http://yetanother/")["dn"]]:
        call("doc.vqn(%r)" % (x,), d.valid_qualified_name, x)
    d.entity("ex:e1", {"ex:attr": "v", "prov:label": "café \"q\""})
    d.activity("a1")
    d.wasGeneratedBy("ex:e1", "a1")
    b = d.bundle("ex:b1")
    b.add_namespace("bn", "http://bundle-ns/")
    b.add_namespace("ex", "http://example.org/")
    b.entity("bn:e2")
    b.entity("par:unknown") if False else None
    call("b.vqn", b.valid_qualified_name, "ex2:inherited")
    call("b.vqn", b.valid_qualified_name, "plain-in-bundle")
    call("b.vqn", b.valid_qualified_name, "nope:zz")
    b2 = d.bundle("ex:b2")
    b2.set_default_namespace("http://b2default/")
    b2.entity("x")
    b3 = d.bundle("b3")
    emit("b.ns", sorted(repr(n) for n in b.namespaces), repr(b.get_default_namespace()), b.default_ns_uri)
    emit("b2.ns", sorted(repr(n) for n in b2.namespaces), repr(b2.get_default_namespace()), b2.default_ns_uri)
    emit("b.provn", b.get_provn())
    emit("b.provn.2", b.get_provn(2))
    emit("b2.provn", b2.get_provn(_indent_level=1))
    emit("b3.provn", b3.get_provn())
    emit("doc.provn.2", d.get_provn())
    emit("doc.provn.3", d.get_provn(3))
    call("provn bad indent", d.get_provn, None)
    call("provn bad indent", b.get_provn, "x")
    emit("provn neg indent", d.get_provn(-1))

    # stand-alone bundles with unusual identifiers
    for ident in [None, "str-id", ("tup",), ("a", "b"), (), Namespace("ex", "http://example.org/")["qn"], 5, StrSub("s")]:
        sb = call("ProvBundle(identifier=%r)" % (ident,), ProvBundle, identifier=ident)
        if sb is not None:
            call("sb.provn", sb.get_provn)
            call("sb.repr", repr, sb)
    sb = ProvBundle(namespaces={"n1": "http://n1/", "n2": "http://n1/", "prov": "http://myprov/"})
    sb.set_default_namespace("http://sbdef/")
    emit("sb.provn", sb.get_provn())
    emit("sb.ns", sorted(repr(n) for n in sb.namespaces))
    sb2 = ProvBundle(namespaces=[Namespace("", "http://only-default-via-add/")])
    emit("sb2.provn", sb2.get_provn())
    d2 = ProvDocument(namespaces={"café": "http://café/%s/{0}"})
    d2.set_default_namespace("http://d/%s/{x}")
    emit("d2.provn", d2.get_provn())
    # get_provn / add_namespace edge cases
    class Recorder(NamespaceManager):
        log = []

        def get_default_namespace(self):
            Recorder.log.append("get_default")
            return NamespaceManager.get_default_namespace(self)

        def get_registered_namespaces(self):
            Recorder.log.append("get_registered")
            return NamespaceManager.get_registered_namespaces(self)

        def add_namespace(self, namespace):
            Recorder.log.append("add %r" % (namespace,))
            return NamespaceManager.add_namespace(self, namespace)

    class DocFlag(ProvBundle):
        def is_document(self):
            Recorder.log.append("is_document")
            return False

    rb = DocFlag(identifier="rec")
    rb._namespaces = Recorder({"r": "http://r/"}, default="http://rd/")
    Recorder.log.append("--provn")
    emit("rb.provn", rb.get_provn(1))
    call("rb.add", rb.add_namespace, "r2", "http://r2/")
    call("rb.add", rb.add_namespace, Namespace("r2", "http://r2/"))
    call("rb.add", rb.add_namespace, "r3", "")
    call("rb.add", rb.add_namespace, "r3", uri=None)
    call("rb.add", rb.add_namespace, None, None)
    call("rb.add", rb.add_namespace, None, "http://noneprefix/")
    call("rb.add", rb.add_namespace, 7, "http://intprefix/")
    call("rb.add", rb.add_namespace, "r4", 0)
    call("rb.add", rb.add_namespace, "r4", False)
    call("rb.add", rb.add_namespace, "r4", ())
    emit("rb.provn2", rb.get_provn())
    emit("rb.log", Recorder.log)
    odd = ProvBundle(identifier="odd")
    odd._namespaces["manual"] = Namespace("manual", "http://manual/")  # in the dict, but not registered
    emit("odd.provn", odd.get_provn())
    odd._namespaces._namespaces["broken"] = "not-a-namespace"
    call("odd.provn broken", odd.get_provn)
    tb = ProvBundle(identifier=("t", "u"))
    tb.set_default_namespace("http://tb/")
    call("tuple-id provn", tb.get_provn)
    many = ProvDocument()
    for k in range(12):
        many.add_namespace("p%d" % k, "http://many/%d/" % (k % 5))
        many.add_namespace("same", "http://same/%d/" % k)
    emit("many.provn", many.get_provn())
    emit("many.ns", sorted(repr(n) for n in many.namespaces))
    d3 = d.unified()
    emit("d3.provn", d3.get_provn())
    d4 = d.flattened()
    emit("d4.provn", d4.get_provn())
    call("serialize json", lambda: d.serialize(format="json"))
    d5 = ProvDocument()
    d5.add_namespace("ex", "http://example.org/")
    d5.set_default_namespace("http://d5/")
    d5.entity("ex:e", {"ex:k": Identifier("http://example.org/u"), "k2": Namespace("ex", "http://example.org/")["qv"]})
    bb = d5.bundle("ex:bb")
    bb.add_namespace("ex", "http://other.org/")
    bb.entity("ex:inner")
    call("roundtrip json", lambda: ProvDocument.deserialize(content=d5.serialize(format="json"), format="json").get_provn())
    call("roundtrip xml", lambda: ProvDocument.deserialize(content=d5.serialize(format="xml"), format="xml").get_provn())
    call("roundtrip rdf", lambda: ProvDocument.deserialize(content=d5.serialize(format="rdf", rdf_format="trig"), format="rdf", rdf_format="trig").get_provn())
    emit("d5.provn", d5.get_provn())


identifier_part()
manager_part()
bundle_part()
text = "\n".join(LINES)
sys.stdout.write(text + "\n")
sys.stdout.write("LINES=%d SHA256=%s\n" % (len(LINES), hashlib.sha256(text.encode("utf-8")).hexdigest()))
