# Differential script for refactoring 2:
# ProvRDFSerializer.serialize / ProvRDFSerializer.deserialize
import io, os, sys
sys.path.insert(0, os.path.join(os.path.dirname(os.path.abspath(__file__)), ".."))
from harness import *
from prov.serializers.provrdf import ProvRDFSerializer


class RaisingStream:
    def write(self, data):
        raise IOError("no space: %s %d" % (type(data).__name__, len(data)))


class Recorder:
    def __init__(self):
        self.calls = []
    def write(self, data):
        self.calls.append((type(data).__name__, data))


print("== serialize")
for name, fn in all_docs():
    doc = fn()
    ser = ProvRDFSerializer(doc)
    for fmt in ("trig", "turtle", "xml", "nt", "nquads", "n3", "json-ld", "bogus-format"):
        for mk in (io.StringIO, io.BytesIO, Recorder):
            st = mk()
            kind, res = outcome(ser.serialize, st, rdf_format=fmt)
            if kind == "ok":
                if isinstance(st, Recorder):
                    got = [(a, rdig(b, fmt)) for a, b in st.calls]
                else:
                    got = (type(st.getvalue()).__name__, rdig(st.getvalue(), fmt))
                print(name, fmt, mk.__name__, "ok", res, got)
            else:
                print(name, fmt, mk.__name__, kind, res[:150])
    # defaults, no stream, failing stream, extra kwargs
    print(name, "nostream", outcome(ser.serialize))
    print(name, "none", outcome(ser.serialize, None, "turtle"))
    print(name, "raising", outcome(ser.serialize, RaisingStream()))
    kw = {"format": "xml", "encoding": "utf-8"}
    st = io.BytesIO()
    print(name, "kw-format", outcome(ser.serialize, st, rdf_format="nt", **kw), rdig(st.getvalue(), "nt"), sorted(kw.items()))
    st = io.StringIO()
    print(name, "kw-base", outcome(ser.serialize, st, "turtle", base="http://base.example/"), rdig(st.getvalue(), "turtle"))
    st = io.StringIO()
    print(name, "kw-bad", outcome(ser.serialize, st, "turtle", nonsense=1)[0], len(st.getvalue()))
    # through the model API
    for fmt in ("trig", "xml"):
        kind, res = outcome(doc.serialize, format="rdf", rdf_format=fmt)
        print(name, "model", fmt, kind, rdig(res, fmt))

print("== deserialize")
for name, fn in all_docs():
    doc = fn()
    for fmt in ("trig", "turtle", "xml", "nt", "nquads"):
        text = doc.serialize(format="rdf", rdf_format=fmt)
        for mk in (lambda t: io.StringIO(t), lambda t: io.BytesIO(t.encode("utf-8"))):
            ser = ProvRDFSerializer()
            kind, res = outcome(ser.deserialize, mk(text), rdf_format=fmt)
            if kind == "ok":
                print(name, fmt, "ok", res is ser.document, res == doc, dig(provn_sorted(res)))
            else:
                print(name, fmt, kind, res[:150])
        # wrong format / passing format in kwargs / extra kwargs
        ser = ProvRDFSerializer()
        print(name, fmt, "as-nt", outcome(ser.deserialize, io.StringIO(text), rdf_format="nt")[0], ser.document is None)
        ser = ProvRDFSerializer()
        kw = {"format": "nt", "publicID": "http://pub.example/"}
        kind, res = outcome(ser.deserialize, io.StringIO(text), fmt, **kw)
        print(name, fmt, "kw", kind, dig(provn_sorted(res)) if kind == "ok" else res[:100], sorted(kw.items()))
ser = ProvRDFSerializer()
print("default fmt", outcome(lambda: dig(provn_sorted(ser.deserialize(io.StringIO("")))))) 
print("bogus", outcome(ser.deserialize, io.StringIO(""), rdf_format="bogus"))
print("none", outcome(ser.deserialize, None)[0])

print("== test files")
for f in rdf_files(step=5):
    ser = ProvRDFSerializer()
    with open(f, "rb") as fh:
        kind, res = outcome(ser.deserialize, fh, rdf_format="turtle")
    if kind == "ok":
        st = io.StringIO()
        ProvRDFSerializer(res).serialize(st, rdf_format="turtle")
        print(os.path.basename(f), "ok", dig(provn_sorted(res)), rdig(st.getvalue(), "turtle"))
    else:
        print(os.path.basename(f), kind, res[:120])
