import os
import sys

if os.environ.get("PYTHONHASHSEED") != "0":
    # set iteration order must be reproducible between the two runs
    os.environ["PYTHONHASHSEED"] = "0"
    os.execv(sys.executable, [sys.executable] + sys.argv)

import datetime
import hashlib

from prov.constants import (
    XSD_STRING, XSD_DOUBLE, XSD_INT, XSD_BOOLEAN, XSD_DATETIME, XSD_ANYURI, XSD_QNAME,
    PROV, XSD, PROV_TYPE,
)
from prov.identifier import Namespace, Identifier, QualifiedName
from prov.model import Literal, ProvDocument

out = []


def emit(*a):
    out.append(" | ".join(str(x) for x in a))


class MyStr(str):
    pass


class Obj:
    def __repr__(self):
        return "Obj()"


EX = Namespace("ex", "http://example.org/")
EX_OTHER_PREFIX = Namespace("ex2", "http://example.org/")  # same URI, other prefix
OTHER = Namespace("other", "http://other.org/")
CLASH = Namespace("ex", "http://clash.org/")  # same prefix, other URI


def ns_state(bundle):
    return sorted((n.prefix, n.uri) for n in bundle.namespaces)


def conv(label, rec, v):
    try:
        r = rec._auto_literal_conversion(v)
        extra = ""
        if isinstance(r, Literal):
            dt = r.datatype
            extra = "lit(%r, %r, %r) same=%s dt_ns=%s" % (
                r.value, dt, r.langtag, r is v,
                (dt.namespace.prefix, dt.namespace.uri) if isinstance(dt, QualifiedName) else None,
            )
        elif isinstance(r, QualifiedName):
            extra = "qn ns=%s same=%s" % ((r.namespace.prefix, r.namespace.uri), r is v)
        emit(label, repr(v), "->", type(r).__name__, repr(r), extra, ns_state(rec.bundle))
    except Exception as e:
        emit(label, repr(v), "EXC", type(e).__name__, str(e), ns_state(rec.bundle))


def inputs(other_rec):
    return [
        "plain", "", MyStr("sub"), 5, 1.5, True, None, Obj(), b"b",
        datetime.datetime(2020, 1, 1), Identifier("http://x/"),
        EX["q"], EX_OTHER_PREFIX["q2"], OTHER["q3"], CLASH["q4"], XSD_INT,
        other_rec,
        Literal("12", XSD_INT), Literal("nope", XSD_INT), Literal("1.5", XSD_DOUBLE),
        Literal("true", XSD_BOOLEAN), Literal("perhaps", XSD_BOOLEAN),
        Literal("2020-02-02", XSD_DATETIME), Literal("never", XSD_DATETIME),
        Literal("http://u/", XSD_ANYURI), Literal("s", XSD_STRING), Literal("", XSD_STRING),
        Literal("ex:q", XSD_QNAME), Literal("ex:q", PROV["QUALIFIED_NAME"]),
        Literal("nodt"), Literal(""), Literal(5), Literal(None),
        Literal("hello", None, "en"), Literal("hello", PROV["InternationalizedString"], "en"),
        Literal("hello", XSD_STRING, "en"), Literal("emptylang", None, ""),
        Literal("emptylang-dt", XSD_INT, ""), Literal("7", XSD_INT, ""),
        Literal("v", EX["dt"]), Literal("v", EX_OTHER_PREFIX["dt"]), Literal("v", OTHER["dt"]),
        Literal("v", CLASH["dt"]), Literal("v", "string-datatype"),
        Literal("v", Identifier("http://dt/")), Literal("v", OTHER["dt2"], None),
        Literal(Literal("inner", XSD_INT)),
    ]


# 1. record in a document
d = ProvDocument()
d.add_namespace(EX)
e = d.entity("ex:e")
other = d.activity("ex:act")
for v in inputs(other):
    conv("doc", e, v)

# 2. record in a bundle with its own namespaces, document has a default namespace
d2 = ProvDocument()
d2.set_default_namespace("http://default.org/")
d2.add_namespace(OTHER)
b = d2.bundle("other:b")
b.add_namespace(EX)
be = b.entity("ex:e")
for v in inputs(d2.agent("other:ag")):
    conv("bundle", be, v)
emit("doc-ns-after", ns_state(d2), ns_state(b))

# 3. through the public API
d3 = ProvDocument()
d3.add_namespace(EX)
r = d3.entity("ex:r")
for v in inputs(d3.entity("ex:x")):
    if isinstance(v, (Obj, bytes)):
        continue  # not serialisable
    try:
        r.add_attributes([("ex:a", v)])
    except Exception as e:
        emit("add-EXC", repr(v), type(e).__name__, str(e))
# Identifier.__hash__ mixes in hash(cls), which is address based: the iteration order
# of a set holding an Identifier is not reproducible between processes, so sort
import json
import re


def provn_sorted(rec):
    text = rec.get_provn()
    m = re.match(r"^(.*?\[)(.*)(\]\))$", text, re.S)
    return (m.group(1), sorted(m.group(2).split(", ")), m.group(3)) if m else text


emit("provn", provn_sorted(r))
r2 = d3.entity("ex:r2", {"ex:a": Literal("v", OTHER["dt"]), PROV_TYPE: Literal("t", CLASH["T"])})
emit("provn2", r2.get_provn(), ns_state(d3))
for k, v in r2.attributes:
    if isinstance(v, Literal):
        emit("dt-ns", k, v.datatype, v.datatype.namespace.prefix, v.datatype.namespace.uri)
jd = json.loads(d3.serialize(format="json", sort_keys=True))
jd["entity"]["ex:r"]["ex:a"] = sorted(json.dumps(x, sort_keys=True) for x in jd["entity"]["ex:r"]["ex:a"])
emit("json", json.dumps(jd, sort_keys=True))
try:
    emit("rt", ProvDocument.deserialize(content=d3.serialize(format="json"), format="json") == d3)
except Exception as e:
    emit("rt-EXC", type(e).__name__, str(e))

text = "\n".join(out)
print(text)
print("DIGEST", hashlib.sha256(text.encode("utf-8")).hexdigest())
