"""Differential script for change 1 (fewer lookups in Namespace.__getitem__,
Namespace.qname and NamespaceManager.valid_qualified_name)."""
import os
import sys

if os.environ.get("PYTHONHASHSEED") != "0":
    os.environ["PYTHONHASHSEED"] = "0"
    os.execv(sys.executable, [sys.executable] + sys.argv)

import hashlib

from prov.identifier import Identifier, Namespace, QualifiedName
from prov.model import NamespaceManager, ProvDocument

OUT = []


def emit(*parts):
    OUT.append(" | ".join(str(p) for p in parts))


def d_ns(ns):
    if isinstance(ns, Namespace):
        return "NS(%r,%r)@%s" % (ns.prefix, ns.uri, type(ns).__name__)
    return repr(ns)


def d_q(q):
    if isinstance(q, QualifiedName):
        return "QN(%s;%r;%r;%r;%r;%s)" % (
            d_ns(q.namespace),
            q.localpart,
            q.uri,
            str(q),
            repr(q),
            q.provn_representation(),
        )
    if isinstance(q, Identifier):
        return "ID(%r)" % q.uri
    return repr(q)


def d_mgr(m):
    return "keys=%s regs=%s default=%s uri_map=%s rename=%s renamed=%s anon=%d" % (
        [(k, d_ns(v)) for k, v in m.items()],
        [(k, d_ns(v)) for k, v in m._namespaces.items()],
        d_ns(m._default),
        [(k, d_ns(v)) for k, v in m._uri_map.items()],
        [(d_ns(k), d_ns(v)) for k, v in m._rename_map.items()],
        [(k, d_ns(v)) for k, v in m._prefix_renamed_map.items()],
        m._anon_id_count,
    )


def attempt(label, fn):
    try:
        r = fn()
    except BaseException as e:  # noqa
        ctx = e.__context__
        emit(label, "EXC", type(e).__name__, e, "ctx=%s" % (type(ctx).__name__ if ctx else None))
        return None
    emit(label, r if isinstance(r, str) else d_q(r))
    return r


# ---------------------------------------------------------------- Namespace[...]
ex = Namespace("ex", "http://example.org/")
LOCALS = ["a", "a", "", "b/c#d", "été-中文", " sp ace ", "a:b", "0"]
seen = {}
for lp in LOCALS:
    q = attempt("getitem %r" % lp, lambda: ex[lp])
    if lp in seen:
        emit("  same object as first", seen[lp] is q)
    seen.setdefault(lp, q)
emit("cache keys", sorted(ex._cache), "all values own ns", all(v.namespace is ex for v in ex._cache.values()))
# repeated access returns the cached object, a fresh namespace has its own cache
emit("identity", ex["a"] is ex["a"], Namespace("ex", "http://example.org/")["a"] is ex["a"], Namespace("ex", "http://example.org/")["a"] == ex["a"])


class S(str):
    pass


q1 = ex[S("sub")]
emit("str subclass", d_q(q1), ex["sub"] is q1, type(ex["sub"].localpart).__name__)
for bad in ([1], {"a": 1}, 5, None, b"x", ("t",)):
    before = len(ex._cache)
    attempt("getitem bad %r" % (bad,), lambda: ex[bad])
    emit("  cache size unchanged", len(ex._cache) == before)
empty_prefix = Namespace("", "urn:d:")
none_prefix = Namespace(None, "urn:n:")
for ns in (empty_prefix, none_prefix):
    attempt("getitem noprefix", lambda: ns["x"])
    attempt("getitem noprefix empty", lambda: ns[""])

# ---------------------------------------------------------------- Namespace.qname / contains
cases = [
    "http://example.org/",
    "http://example.org/abc",
    "http://example.org",
    "http://example.org/é",
    "",
    None,
    5,
    Identifier("http://example.org/id"),
    Identifier("http://other.org/id"),
    ex["q"],
    Namespace("o", "http://example.org/sub/")["z"],
    Namespace("o", "http://exam")["z"],
]
for c in cases:
    attempt("qname %s" % d_q(c), lambda: ex.qname(c))
    attempt("contains %s" % d_q(c), lambda: repr(ex.contains(c)))
r1 = ex.qname("http://example.org/abc")
r2 = ex.qname("http://example.org/abc")
emit("qname is uncached", r1 is r2, r1 == r2, "abc" in ex._cache)

# ---------------------------------------------------------------- valid_qualified_name
def fresh(**kw):
    return NamespaceManager(**kw)


def run_vqn(label, mgr, values):
    for v in values:
        r = attempt("%s vqn %s" % (label, d_q(v)), lambda: mgr.valid_qualified_name(v))
        if isinstance(v, QualifiedName) and isinstance(r, QualifiedName):
            emit("  returned original", r is v, "ns registered obj", mgr.get(r.namespace.prefix or "") is r.namespace)
    emit(label, "state", d_mgr(mgr))


ex1 = Namespace("ex", "http://example.org/")
ex1_copy = Namespace("ex", "http://example.org/")
ex_other = Namespace("ex", "http://other.org/")
ex_other2 = Namespace("ex", "http://third.org/")
alias = Namespace("alias", "http://example.org/")
d1 = Namespace("", "urn:default:1#")
d1_copy = Namespace("", "urn:default:1#")
d2 = Namespace("", "urn:default:2#")
dn_none = Namespace(None, "urn:default:none#")
nonascii = Namespace("ü", "http://ü.example/é#")

values = [
    None,
    "",
    0,
    3.5,
    ("ex", "a"),
    ex1["a"],
    ex1["a"],
    ex1_copy["a"],
    ex1_copy["b"],
    ex_other["a"],
    ex_other["b"],
    ex_other2["a"],
    alias["a"],
    d1["x"],
    d1_copy["x"],
    d2["x"],
    d2["y"],
    dn_none["z"],
    nonascii["été"],
    "ex:a",
    "ex_1:a",
    "alias:zz",
    "prov:Entity",
    "xsd:string",
    "xsi:type",
    "unknown:thing",
    "_:blank",
    "plain",
    "",
    "http://example.org/compact/me",
    "http://other.org/",
    "http://www.w3.org/ns/prov#Entity",
    "http://www.w3.org/2001/XMLSchema-instance",
    "urn:default:1#abc",
    "urn:nothing:here",
    "ü:é",
    "http://ü.example/é#löcal",
    Identifier("http://example.org/from-id"),
    Identifier("ex:colon-id"),
    Identifier("nocolon"),
    Identifier("_:b1"),
    Identifier("urn:nothing:else"),
    ":leadingcolon",
    "a:b:c",
]

run_vqn("empty-mgr", fresh(), values)
run_vqn("mgr-with-default", fresh(default="urn:default:2#"), values)
run_vqn("mgr-with-ns", fresh(namespaces=[ex_other, alias], default="urn:default:1#"), values)
run_vqn("mgr-with-dict", fresh(namespaces={"ex": "http://example.org/", "ü": "http://ü.example/é#"}), list(reversed(values)))

# the same Namespace object registered: the original qualified name comes back
m = fresh()
reg = m.add_namespace(ex1)
emit("registered is given", reg is ex1)
q = ex1["same"]
emit("orig returned", m.valid_qualified_name(q) is q)
q2 = ex1_copy["same"]
r = m.valid_qualified_name(q2)
emit("equal ns reused", r is q, r is q2, r.namespace is ex1)
# a foreign (non-Namespace) value stored in the manager under the prefix
m2 = fresh()
dict.__setitem__(m2, "ex", None)
attempt("None stored qn", lambda: m2.valid_qualified_name(ex1["a"]))
attempt("None stored str", lambda: m2.valid_qualified_name("ex:a"))
emit("None stored state", sorted((k, d_ns(v)) for k, v in m2.items()))

# child manager (bundle) delegating to the parent (document)
parent = fresh(namespaces=[ex1], default="urn:default:1#")
child = NamespaceManager(parent=parent)
run_vqn("child", child, values)
emit("parent state", d_mgr(parent))
child2 = NamespaceManager(namespaces=[ex_other], parent=parent)
run_vqn("child2", child2, ["ex:a", "plain", "urn:default:1#q", "http://example.org/x", "http://other.org/y", "zz:q"])

# whole documents with bundles
doc = ProvDocument()
doc.set_default_namespace("urn:default:1#")
doc.add_namespace("ex", "http://example.org/")
doc.add_namespace(nonascii)
e1 = doc.entity("ex:e1")
doc.entity("plain-entity", {"ex:attr": ex_other["val"], "ü:k": "välue"})
doc.entity(ex_other["e1"])
doc.entity(d2["e9"])
b = doc.bundle("ex:bundle1")
b.add_namespace("ex", "http://bundle.example/")
b.set_default_namespace("urn:bundle:default#")
b.entity("ex:e1")
b.entity("e-local")
b.entity(ex1["e1"])
b.entity("http://example.org/uri-form")
b.activity(d1["act"])
b.wasGeneratedBy("ex:e1", d1["act"])
b2 = doc.bundle(ex_other["bundle2"])
b2.entity("ex:e1")
b2.entity("ex:e1")  # repeated identifier
b2.entity("prov:thing")
emit(doc.get_provn())
emit(doc.serialize(format="json", indent=1))
emit("doc state", d_mgr(doc._namespaces))
emit("b state", d_mgr(b._namespaces))
emit("b2 state", d_mgr(b2._namespaces))
for bundle in (doc, b, b2):
    emit(sorted(d_ns(n) for n in bundle.namespaces), d_ns(bundle.get_default_namespace()))
    for rec in bundle.get_records():
        emit("  rec", d_q(rec.identifier), [(d_q(k), d_q(v)) for k, v in rec.attributes])

text = "\n".join(OUT)
print(text)
print("DIGEST", hashlib.sha256(text.encode("utf-8")).hexdigest())
