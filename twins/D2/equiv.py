"""Differential script for refactoring 2 (if/elif chains -> early returns):
parse_xsd_types, _ensure_multiline_string_triple_quoted, encoding_provn_value,
Literal.__eq__, Literal.provn_representation."""
import os
import sys

if os.environ.get("PYTHONHASHSEED") != "0":
    env = dict(os.environ, PYTHONHASHSEED="0")
    os.execve(sys.executable, [sys.executable] + sys.argv, env)

import datetime
import hashlib
import itertools

from prov import model
from prov.model import (
    Literal,
    Identifier,
    QualifiedName,
    Namespace,
    ProvDocument,
    PROV,
    parse_xsd_types,
    encoding_provn_value,
    _ensure_multiline_string_triple_quoted,
)
from prov.constants import (
    XSD_STRING,
    XSD_DOUBLE,
    XSD_LONG,
    XSD_INT,
    XSD_BOOLEAN,
    XSD_DATETIME,
    XSD_ANYURI,
    XSD_QNAME,
    XSD,
)

out = []


def emit(tag, value):
    out.append("%s: %r" % (tag, value))


def attempt(tag, fn, *args):
    try:
        res = fn(*args)
        emit(tag, (type(res).__name__, res))
    except Exception as exc:  # noqa
        emit(tag + " !exc", (type(exc).__name__, str(exc)))


class MyStr(str):
    pass


class MyFloat(float):
    pass


class Weird(object):
    def __str__(self):
        return 'weird "obj"\nnewline'


# --- parse_xsd_types
datatypes = [
    XSD_STRING,
    XSD_DOUBLE,
    XSD_LONG,
    XSD_INT,
    XSD_BOOLEAN,
    XSD_DATETIME,
    XSD_ANYURI,
    XSD_QNAME,
    XSD["decimal"],
    PROV["InternationalizedString"],
    None,
    "xsd:int",
    Namespace("xsd", "http://www.w3.org/2001/XMLSchema#")["int"],
    Identifier("http://www.w3.org/2001/XMLSchema#int"),
]
values = ["", "0", "1", "true", "FALSE", "maybe", "1.5e3", "nan", " 42 ", "abc",
          "2012-12-12T12:12:12", "2012-13-45", "http://x/y", "é", 7, 2.5, None, True]
for dt in datatypes:
    for v in values:
        attempt("parse_xsd_types(%r, %s)" % (v, dt), parse_xsd_types, v, dt)
attempt("parse_xsd_types unhashable", parse_xsd_types, "1", ["list"])

# --- _ensure_multiline_string_triple_quoted / encoding_provn_value
strings = [
    "",
    "plain",
    "with \"quotes\"",
    "back\\slash",
    "\\\"",
    "line1\nline2",
    "\n",
    "\r",
    "carriage\r\nreturn",
    "tab\there",
    "\\n literal",
    '"""',
    "unicode é ☃ \U0001f600",
    "%s %% %d",
    MyStr("sub\nclass"),
]
others = [
    0,
    1,
    -5,
    10 ** 30,
    1.0,
    -0.0,
    1e300,
    float("inf"),
    float("nan"),
    MyFloat(2.25),
    True,
    False,
    None,
    datetime.datetime(2012, 1, 2, 3, 4, 5),
    datetime.datetime(2012, 1, 2, 3, 4, 5, 678, tzinfo=datetime.timezone.utc),
    datetime.date(2012, 1, 2),
    datetime.time(1, 2),
    Identifier("http://example.org/a b"),
    PROV["Entity"],
    Literal("x", XSD_INT),
    Weird(),
    b"bytes\n",
    (1, "two"),
    [1, "a\nb"],
    {"k": "v"},
    3 + 4j,
]
for v in strings + others:
    attempt("triple(%r)" % (v,) if not isinstance(v, Weird) else "triple(Weird)",
            _ensure_multiline_string_triple_quoted, v)
    attempt("encode(%r)" % (v,) if not isinstance(v, Weird) else "encode(Weird)",
            encoding_provn_value, v)

# --- Literal
lits = [
    Literal("a"),
    Literal("a", None, None),
    Literal("a", XSD_STRING),
    Literal("a", XSD["string"]),
    Literal("a", "xsd:string"),
    Literal("a", langtag="en"),
    Literal("a", langtag="EN"),
    Literal("a", PROV["InternationalizedString"], "en"),
    Literal("a", XSD_STRING, "en"),
    Literal("a", langtag=""),
    Literal("a", XSD_INT, ""),
    Literal("", XSD_INT),
    Literal(1, XSD_INT),
    Literal("1", XSD_INT),
    Literal(1.0, XSD_DOUBLE),
    Literal("multi\nline \"q\" \\", XSD_STRING),
    Literal("multi\nline", langtag="fr-CA"),
    Literal(None),
    Literal("é☃", Identifier("http://example.org/dt")),
    Literal("a", langtag=0),
    Literal("a", langtag=5),
]


class SubLiteral(Literal):
    pass


class Duck(object):
    value = "a"
    datatype = None
    langtag = None


lits.append(SubLiteral("a"))
for i, l in enumerate(lits):
    emit("lit %d" % i, (l.value, str(l.datatype), type(l.datatype).__name__, l.langtag, l.has_no_langtag()))
    emit("lit %d provn" % i, l.provn_representation())
    emit("lit %d str/repr" % i, (str(l), repr(l)))
for (i, a), (j, b) in itertools.product(enumerate(lits), repeat=2):
    emit("eq %d %d" % (i, j), (a == b, a != b, hash(a) == hash(b)))
for i, l in enumerate(lits[:4]):
    for other in ["a", None, 1, Duck(), ("a", None, None), PROV["a"], Identifier("a")]:
        emit("eq-other %d %s" % (i, type(other).__name__),
             (l == other, l != other, other == l, other != l))
emit("set size", len(set(lits)))
emit("in list", (Literal("a") in lits, Literal("zzz") in lits, lits.index(Literal("a", XSD_STRING))))

# through a document
d = ProvDocument()
d.add_namespace("ex", "http://example.org/")
e = d.entity("ex:e")
for n, v in enumerate(strings + others[:16] + lits):
    try:
        e.add_attributes([("ex:v%d" % n, v)])
    except Exception as exc:  # noqa
        emit("add %d !exc" % n, (type(exc).__name__, str(exc)))
emit("entity attrs", [(str(k), type(v).__name__, repr(v)) for k, v in e.attributes])
emit("entity provn", e.get_provn())
emit("doc provn", d.get_provn())

text = "\n".join(out)
print(text)
print("DIGEST", hashlib.sha256(text.encode("utf-8")).hexdigest())
