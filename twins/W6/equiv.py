import os
import sys

if os.environ.get("PYTHONHASHSEED") != "0":
    # set iteration order must be reproducible between the two runs
    os.environ["PYTHONHASHSEED"] = "0"
    os.execv(sys.executable, [sys.executable] + sys.argv)

import collections
import datetime
import hashlib
import io
import json
import logging

from prov.constants import (
    XSD_INT, XSD_STRING, XSD_ANYURI, XSD_DOUBLE, XSD_BOOLEAN, PROV, PROV_QUALIFIEDNAME, PROV_TYPE,
)
from prov.identifier import Namespace, Identifier, QualifiedName
from prov.model import Literal, ProvDocument
from prov.serializers.provjson import (
    encode_json_representation, decode_json_representation, literal_json_representation,
)

out = []


def emit(*a):
    out.append(" | ".join(str(x) for x in a))


log_stream = io.StringIO()
h = logging.StreamHandler(log_stream)
h.setLevel(logging.DEBUG)
for name in ("prov.model", "prov.serializers.provjson"):
    lg = logging.getLogger(name)
    lg.addHandler(h)
    lg.setLevel(logging.DEBUG)


class MyInt(int):
    pass


class MyFloat(float):
    pass


class Obj:
    def __repr__(self):
        return "Obj()"


EX = Namespace("ex", "http://example.org/")
OTHER = Namespace("other", "http://other.org/")


def show(r):
    if isinstance(r, dict):
        return "dict" + repr([(k, type(v).__name__, repr(v)) for k, v in r.items()])
    if isinstance(r, Literal):
        return "Literal(%r, %r, %r)" % (r.value, r.datatype, r.langtag)
    return "%s:%r" % (type(r).__name__, r)


enc_inputs = [
    "s", "", "中\n", 0, 1, -7, 10**40, MyInt(3), 1.5, float("inf"), MyFloat(2.0), True, False, None,
    datetime.datetime(2020, 1, 2, 3, 4, 5),
    datetime.datetime(2020, 1, 2, 3, 4, 5, 6, tzinfo=datetime.timezone.utc),
    datetime.date(2020, 1, 2), EX["qn"], OTHER["ü"], PROV_QUALIFIEDNAME, XSD_INT,
    Identifier("http://id/"), Identifier(""), Namespace("n", "http://n/"),
    Literal("v", XSD_INT), Literal("v"), Literal("v", None, "en"), Literal("v", XSD_STRING, "en"),
    Literal("v", EX["dt"]), Literal("v", "strtype"), Literal("", None, ""), Literal(5, XSD_DOUBLE, None),
    [1, 2], (1.5,), {"$": 1}, Obj(), b"bytes", 2 + 1j,
]
for v in enc_inputs:
    try:
        r = encode_json_representation(v)
        emit("encode", show(v), "->", show(r), "same" if r is v else "new")
    except Exception as e:
        emit("encode", show(v), "EXC", type(e).__name__, str(e))

for v in [x for x in enc_inputs if isinstance(x, Literal)]:
    r = literal_json_representation(v)
    emit("literal_json", show(v), "->", show(r), json.dumps(r))


class Duck:
    value, datatype, langtag = "dv", None, 0


emit("literal_json-duck", show(literal_json_representation(Duck())))
try:
    literal_json_representation("not a literal")
except Exception as e:
    emit("literal_json-str", type(e).__name__, str(e))


def fresh_bundle(in_bundle):
    d = ProvDocument()
    d.add_namespace(EX)
    if in_bundle:
        b = d.bundle("ex:b")
        b.set_default_namespace("http://bdefault/")
        return b
    return d


dec_inputs = [
    "plain", "", 5, 1.5, True, None, [1, 2], ["a", {"$": "x"}],
    {"$": "10", "type": "xsd:int"}, {"$": 10, "type": "xsd:int"}, {"$": "x", "type": "xsd:string"},
    {"$": "http://u/", "type": "xsd:anyURI"}, {"$": "", "type": "xsd:anyURI"},
    {"$": "ex:q", "type": "prov:QUALIFIED_NAME"}, {"$": "zz:q", "type": "prov:QUALIFIED_NAME"},
    {"$": "localname", "type": "prov:QUALIFIED_NAME"}, {"$": "ex:q", "type": "xsd:QName"},
    {"$": "hello", "lang": "en"}, {"$": "hello", "lang": ""}, {"$": "hello", "lang": None},
    {"$": "hello", "lang": "en", "type": "xsd:string"},
    {"$": "hello", "lang": "en", "type": "prov:InternationalizedString"},
    {"$": "http://u/", "type": "xsd:anyURI", "lang": "en"},
    {"$": "v", "type": "ex:dt"}, {"$": "v", "type": "undeclared:dt"}, {"$": "v", "type": "nocolon"},
    {"$": "v", "type": None}, {"$": "v", "type": ""}, {"$": "v", "type": 5},
    {"$": "v"}, {"$": None}, {"$": 1.5, "type": "xsd:double"}, {"$": ["l"], "type": "ex:dt"},
    {"type": "xsd:int"}, {}, {"lang": "en"}, {"$": "v", "extra": 1},
    collections.OrderedDict([("$", "od"), ("type", "xsd:string")]),
    {"$": "http://q/", "type": QualifiedName(Namespace("xsd", "http://www.w3.org/2001/XMLSchema#"), "anyURI")},
]
for in_bundle in (False, True):
    for v in dec_inputs:
        bundle = fresh_bundle(in_bundle)
        try:
            r = decode_json_representation(v, bundle)
            extra = ""
            if isinstance(r, QualifiedName):
                extra = "ns=%s,%s" % (r.namespace.prefix, r.namespace.uri)
            emit("decode", in_bundle, repr(v), "->", show(r), extra, "same" if r is v else "new",
                 sorted((n.prefix, n.uri) for n in bundle.namespaces))
        except Exception as e:
            emit("decode", in_bundle, repr(v), "EXC", type(e).__name__, str(e))

# whole documents
d = ProvDocument()
d.add_namespace(EX)
d.set_default_namespace("http://default/")
e = d.entity("ex:e")
for k, v in enumerate(enc_inputs):
    if isinstance(v, (Obj, bytes, complex, list, tuple, dict, Namespace, datetime.date)) and not isinstance(v, datetime.datetime):
        continue
    if v is None:
        continue
    try:
        e.add_attributes([("ex:k%02d" % k, v)])
    except Exception as ex:
        emit("add-EXC", show(v), type(ex).__name__, str(ex))
e.add_attributes([("ex:multi", 1), ("ex:multi", "two"), ("ex:multi", 3.0), (PROV_TYPE, EX["T"])])
b = d.bundle("ex:bundle")
b.entity("ex:e", {"ex:a": Literal("x", OTHER["dt"]), "ex:b": OTHER["q"]})
b.entity("ex:e", {"ex:a": "again"})
js = d.serialize(format="json", sort_keys=True, indent=1)
emit("json", js)
d2 = ProvDocument.deserialize(content=js, format="json")
emit("rt-equal", d2 == d)
emit("rt-provn-lines", sorted(d2.get_provn().split(", ")) == sorted(d.get_provn().split(", ")))
emit("rt-json-same", d2.serialize(format="json", sort_keys=True, indent=1) == js)

handmade = json.dumps({
    "prefix": {"ex": "http://example.org/", "default": "http://d/"},
    "entity": {
        "ex:e1": {"ex:a": [{"$": "1", "type": "xsd:int"}, "s", 2, {"$": "h", "lang": "fr"},
                           {"$": "ex:x", "type": "prov:QUALIFIED_NAME"}],
                  # alone in its set: Identifier.__hash__ mixes in hash(cls) (address based)
                  "ex:u": {"$": "http://u/", "type": "xsd:anyURI"},
                  "prov:type": {"$": "ex:T", "type": "prov:QUALIFIED_NAME"},
                  "prov:label": [{"$": "l", "lang": "en"}, "plain"]},
        "e2": [{"ex:b": True}, {"ex:b": {"$": "v", "type": "ex:dt"}}],
    },
    "bundle": {"ex:bb": {"prefix": {"o": "http://o/"}, "entity": {"o:e": {"o:a": {"$": "v", "type": "o:dt"}}}}},
})
d3 = ProvDocument.deserialize(content=handmade, format="json")
emit("handmade", d3.serialize(format="json", sort_keys=True))
emit("handmade-attrs", sorted((str(r.identifier), sorted((str(k), show(v)) for k, v in r.attributes))
                              for r in d3.get_records()))
for bad in ['{"entity": {"ex:e": {"ex:a": {"type": "xsd:int"}}}, "prefix": {"ex": "http://e/"}}',
            '{"entity": {"ex:e": {"ex:a": {"$": "v", "type": "zz:undeclared"}}}, "prefix": {"ex": "http://e/"}}']:
    try:
        r = ProvDocument.deserialize(content=bad, format="json")
        emit("bad", "ok", r.serialize(format="json", sort_keys=True))
    except Exception as ex:
        emit("bad", "EXC", type(ex).__name__, str(ex))

emit("log", log_stream.getvalue())
text = "\n".join(out)
print(text)
print("DIGEST", hashlib.sha256(text.encode("utf-8")).hexdigest())
