"""Differential script: PROV-JSON / PROV-O serializer entry points.

Prints a deterministic digest of everything observable: output text, written
stream types, decoded documents (as PROV-N and re-encoded JSON), exceptions
(type and message), mutation of the JSON structures handed to the decoders and
log records.
"""
import os
import sys

if os.environ.get("PYTHONHASHSEED") != "0":
    os.environ["PYTHONHASHSEED"] = "0"
    os.execv(sys.executable, [sys.executable] + sys.argv)

import copy
import datetime
import hashlib
import io
import json
import logging
import re
from collections import OrderedDict, defaultdict

import prov.model as pm
from prov.model import ProvDocument, Literal, Identifier, Namespace
from prov.constants import *  # noqa
from prov.serializers import provjson as pj
from prov.serializers import provrdf as pr
from prov.tests import examples

LINES = []


def out(*parts):
    LINES.append(" | ".join(str(p) for p in parts))


def sha(text):
    if isinstance(text, str):
        text = text.encode("utf-8")
    return hashlib.sha256(text).hexdigest()[:16]


class LogCapture(logging.Handler):
    def __init__(self):
        super().__init__()
        self.records = []

    def emit(self, record):
        self.records.append((record.name, record.levelname, record.getMessage()))


CAPTURE = LogCapture()
logging.getLogger().addHandler(CAPTURE)
logging.getLogger().setLevel(logging.DEBUG)


def attempt(label, fn):
    """Run fn, print result or exception + log records produced."""
    del CAPTURE.records[:]
    try:
        res = fn()
        out(label, "OK", res)
    except RecursionError as e:
        out(label, "EXC", "RecursionError")
    except BaseException as e:  # noqa
        out(label, "EXC", type(e).__module__ + "." + type(e).__name__, str(e)[:300])
    for r in CAPTURE.records:
        if r[0].startswith("prov"):
            out(label, "LOG", r)


def provn(doc):
    return doc.get_provn()


# --------------------------------------------------------------------------
# documents
# --------------------------------------------------------------------------
def doc_empty():
    return ProvDocument()


def doc_default_ns():
    d = ProvDocument()
    d.set_default_namespace("http://example.org/default#")
    d.add_namespace("ex", "http://example.org/")
    d.entity("e1", {"prov:label": "défaut ☃", "ex:v": 1})
    d.entity("ex:e2", {"prov:type": pm.PROV["Plan"]})
    d.wasDerivedFrom("ex:e2", "e1")
    return d


def doc_repeated_ids():
    d = ProvDocument()
    d.add_namespace("ex", "http://example.org/")
    d.entity("ex:e", {"ex:a": 1})
    d.entity("ex:e", {"ex:a": 2, "ex:b": "two"})
    d.entity("ex:e")
    d.activity("ex:a", datetime.datetime(2020, 1, 2, 3, 4, 5), None, {"ex:x": 1.5})
    d.activity("ex:a", None, datetime.datetime(2021, 1, 2, 3, 4, 5, 678))
    d.used("ex:a", "ex:e", identifier="ex:u")
    d.used("ex:a", "ex:e", identifier="ex:u", time=datetime.datetime(2000, 1, 1))
    d.used("ex:a", "ex:e")
    d.used("ex:a", "ex:e")
    return d


def doc_values():
    d = ProvDocument()
    ex = d.add_namespace("ex", "http://example.org/")
    d.add_namespace("ü", "http://example.org/uml#")
    tz = datetime.timezone(datetime.timedelta(hours=5, minutes=30))
    d.entity(
        "ex:vals",
        [
            ("ex:str", "plain"),
            ("ex:empty", ""),
            ("ex:uni", "naïve — 日本語   \U0001F600"),
            ("ex:int", 7),
            ("ex:big", 2 ** 70),
            ("ex:neg", -3),
            ("ex:float", 1.25),
            ("ex:bool", True),
            ("ex:bool", False),
            ("ex:dt", datetime.datetime(2012, 12, 12, 12, 12, 12, 120000)),
            ("ex:dttz", datetime.datetime(2012, 12, 12, 12, 12, 12, tzinfo=tz)),
            ("ex:uri", Identifier("http://example.org/some?x=1&y=é")),
            ("ex:qn", ex["other"]),
            ("ex:qn2", pm.PROV["Person"]),
            ("ex:lang", Literal("bonjour", langtag="fr")),
            ("ex:lang2", Literal("héllo", None, "en-GB")),
            ("ex:typed", Literal("abc", ex["mytype"])),
            ("ex:typed2", Literal("10", XSD_UNSIGNEDINT)),
            ("ex:typed3", Literal("", XSD_STRING)),
            ("ex:b64", Literal("AAEC", XSD["base64Binary"])),
            ("ex:multi", 1),
            ("ex:multi", 2),
            ("ex:multi", "three"),
            ("prov:label", "one"),
            ("prov:label", Literal("eins", langtag="de")),
            ("prov:type", "ex:stringtype"),
            ("prov:type", ex["T"]),
            ("prov:location", "here"),
            ("prov:value", 4.0),
            ("ü:attr", "ü"),
        ],
    )
    return d


def doc_bundles():
    d = ProvDocument()
    d.add_namespace("ex", "http://example.org/")
    d.set_default_namespace("http://example.org/doc#")
    d.entity("ex:top")
    b1 = d.bundle("ex:b1")
    b1.add_namespace("in", "http://example.org/inner#")
    b1.set_default_namespace("http://example.org/b1default#")
    b1.entity("in:e", {"in:a": b1.valid_qualified_name("in:q")})
    b1.entity("localname")
    b1.agent("ex:ag", {"prov:type": pm.PROV["Person"]})
    b1.wasAttributedTo("in:e", "ex:ag")
    b2 = d.bundle("ex:b2")
    b2.entity("ex:top", {"ex:x": "same id as in document"})
    d.bundle("emptybundle")
    d.entity("ex:b1", {"prov:type": pm.PROV["Bundle"]})
    return d


def doc_relations():
    d = ProvDocument()
    d.add_namespace("ex", "http://example.org/")
    t = datetime.datetime(2014, 6, 23, 12, 28, 53, 843000)
    d.entity("ex:e1")
    d.entity("ex:e2")
    d.activity("ex:a1", t, t)
    d.activity("ex:a2")
    d.agent("ex:ag1")
    d.agent("ex:ag2")
    d.wasGeneratedBy("ex:e1", "ex:a1", t, "ex:g1", {"prov:role": "r", "ex:o": 1})
    d.wasGeneratedBy("ex:e1")
    d.used("ex:a1", "ex:e2", t, None, {"prov:location": "loc"})
    d.wasInformedBy("ex:a2", "ex:a1", "ex:inf")
    d.wasStartedBy("ex:a1", "ex:e1", "ex:a2", t, "ex:s1")
    d.wasEndedBy("ex:a1", None, None, t)
    d.wasInvalidatedBy("ex:e1", "ex:a1", t)
    d.wasDerivedFrom("ex:e2", "ex:e1", "ex:a1", "ex:g1", None, "ex:d1")
    d.wasAttributedTo("ex:e1", "ex:ag1")
    d.wasAssociatedWith("ex:a1", "ex:ag1", "ex:e2", "ex:assoc", {"prov:role": "x"})
    d.wasAssociatedWith("ex:a1", None, "ex:e2")
    d.actedOnBehalfOf("ex:ag2", "ex:ag1", "ex:a1")
    d.wasInfluencedBy("ex:e2", "ex:ag1")
    d.specializationOf("ex:e2", "ex:e1")
    d.alternateOf("ex:e2", "ex:e1")
    d.mentionOf("ex:e2", "ex:e1", "ex:bundle")
    d.collection("ex:c")
    d.hadMember("ex:c", "ex:e1")
    d.hadMember("ex:c", "ex:e2")
    return d


DOCS = OrderedDict()
for name, fn in [
    ("empty", doc_empty),
    ("default_ns", doc_default_ns),
    ("repeated_ids", doc_repeated_ids),
    ("values", doc_values),
    ("bundles", doc_bundles),
    ("relations", doc_relations),
]:
    DOCS[name] = fn
for name, fn in examples.tests:
    DOCS["ex_" + name] = fn


# --------------------------------------------------------------------------
# stream doubles
# --------------------------------------------------------------------------
class RecText(io.TextIOBase):
    def __init__(self):
        self.calls = []

    def write(self, s):
        self.calls.append((type(s).__name__, s))
        return len(s)


class RecRaw(object):
    """not an io class at all: gets bytes"""

    def __init__(self):
        self.calls = []

    def write(self, s):
        self.calls.append((type(s).__name__, s))


class OneShotBytes(object):
    def __init__(self, data):
        self.data = data
        self.reads = 0

    def read(self, *args):
        self.reads += 1
        out("   read-call", args)
        return self.data


class FailingWriter(io.TextIOBase):
    def write(self, s):
        raise IOError("disk full")


# --------------------------------------------------------------------------
# 1. PROV-JSON serialize
# --------------------------------------------------------------------------
JSON_TEXTS = OrderedDict()

for name, fn in DOCS.items():
    doc = fn()
    ser = pj.ProvJSONSerializer(doc)
    s = io.StringIO()
    r = ser.serialize(s)
    text = s.getvalue()
    JSON_TEXTS[name] = text
    out("json.ser", name, "ret=%r" % (r,), len(text), sha(text), "closed=%s" % s.closed)
    b = io.BytesIO()
    r = ser.serialize(b)
    out("json.ser.bytes", name, "ret=%r" % (r,), sha(b.getvalue()), b.getvalue() == text.encode("utf-8"), b.tell())
    for kw in (
        {"indent": 2},
        {"sort_keys": True},
        {"ensure_ascii": False},
        {"indent": "\t", "separators": (",", ":"), "sort_keys": True, "ensure_ascii": False},
    ):
        s = io.StringIO()
        ser.serialize(s, **kw)
        b = io.BytesIO()
        ser.serialize(b, **kw)
        out("json.ser.kw", name, sorted(kw), sha(s.getvalue()), sha(b.getvalue()), b.getvalue() == s.getvalue().encode("utf-8"))
    rt = RecText()
    ser.serialize(rt)
    out("json.ser.rectext", name, len(rt.calls), [(c[0], sha(c[1])) for c in rt.calls])
    rr = RecRaw()
    ser.serialize(rr)
    out("json.ser.recraw", name, len(rr.calls), [(c[0], sha(c[1])) for c in rr.calls])
    # through the document API
    out("json.doc.serialize", name, sha(doc.serialize()), sha(doc.serialize(format="json", indent=1)))

out("---- values doc json text ----")
out(JSON_TEXTS["values"])
out(JSON_TEXTS["bundles"])
out(JSON_TEXTS["repeated_ids"])

# position of a pre-filled stream, append semantics
s = io.StringIO("XXXX")
s.seek(2)
pj.ProvJSONSerializer(doc_default_ns()).serialize(s)
out("json.ser.prefilled", s.getvalue()[:12], s.tell())

d = doc_default_ns()
attempt("json.ser.badkw", lambda: pj.ProvJSONSerializer(d).serialize(io.StringIO(), bogus=1))
attempt("json.ser.clskw", lambda: pj.ProvJSONSerializer(d).serialize(io.StringIO(), cls=json.JSONEncoder))
attempt("json.ser.nodoc", lambda: (lambda s: (pj.ProvJSONSerializer().serialize(s), s.getvalue()))(io.StringIO()))
attempt("json.ser.nonestream", lambda: pj.ProvJSONSerializer(d).serialize(None))
attempt("json.ser.failingwriter", lambda: pj.ProvJSONSerializer(d).serialize(FailingWriter()))
attempt("json.ser.closedstream", lambda: (lambda s: (s.close(), pj.ProvJSONSerializer(d).serialize(s)))(io.StringIO()))
attempt("json.ser.allow_nan", lambda: (lambda dd, s: (dd.entity("ex:n", {"ex:f": float("nan")}), pj.ProvJSONSerializer(dd).serialize(s, allow_nan=False)))(doc_default_ns(), io.StringIO()))


def unserialisable():
    dd = doc_default_ns()
    dd.entity("ex:n", {"ex:f": Literal(object.__new__(object), XSD_STRING)})
    s = io.StringIO()
    pj.ProvJSONSerializer(dd).serialize(s)
    return len(s.getvalue())


attempt("json.ser.unserialisable", unserialisable)
attempt("json.ser.skipkeys", lambda: (lambda s: (pj.ProvJSONSerializer(d).serialize(s, skipkeys=True, check_circular=False), sha(s.getvalue())))(io.StringIO()))
attempt("json.ser.default_kw", lambda: (lambda s: (pj.ProvJSONSerializer(d).serialize(s, default=str), sha(s.getvalue())))(io.StringIO()))

# --------------------------------------------------------------------------
# 2. encoder / decoder classes directly
# --------------------------------------------------------------------------
enc = pj.ProvJSONEncoder()
attempt("enc.default.doc", lambda: sha(json.dumps(enc.default(doc_bundles()), sort_keys=True)))
attempt("enc.default.type", lambda: type(enc.default(doc_bundles())).__name__)
attempt("enc.default.str", lambda: enc.default("abc"))
attempt("enc.default.int", lambda: enc.default(3))
attempt("enc.default.list", lambda: enc.default([1, "a", None]))
attempt("enc.default.dict", lambda: enc.default({"a": 1}))
attempt("enc.default.none", lambda: enc.default(None))
attempt("enc.default.set", lambda: enc.default({1}))
attempt("enc.default.bundle", lambda: enc.default(doc_bundles().bundle("ex:zz")))
attempt("enc.encode.doc", lambda: sha(enc.encode(doc_values())))
attempt("enc.dumps", lambda: sha(json.dumps(doc_values(), cls=pj.ProvJSONEncoder)))
attempt("enc.dumps.nested", lambda: sha(json.dumps({"k": [doc_values(), 1]}, cls=pj.ProvJSONEncoder, indent=1)))
attempt("enc.unbound.wrongself", lambda: pj.ProvJSONEncoder.default(object(), 1))


class SubEnc(pj.ProvJSONEncoder):
    def encode(self, o):
        return "SUB:" + super().encode(o)


attempt("enc.sub.default", lambda: SubEnc().default("x"))
attempt("enc.sub.doc", lambda: sha(SubEnc().encode(doc_default_ns())))


class SubDec(pj.ProvJSONDecoder):
    def decode(self, s, *a, **k):
        d = super().decode(s, *a, **k)
        d.add_namespace("added", "http://added/")
        return d


dec = pj.ProvJSONDecoder()
attempt("dec.decode", lambda: provn(dec.decode(JSON_TEXTS["bundles"])))
attempt("dec.decode.sub", lambda: provn(SubDec().decode(JSON_TEXTS["default_ns"])))
attempt("dec.decode.ws", lambda: provn(dec.decode("  " + JSON_TEXTS["default_ns"] + "\n ")))
attempt("dec.decode.extra", lambda: provn(dec.decode(JSON_TEXTS["default_ns"] + " x")))
attempt("dec.decode.bytes", lambda: provn(dec.decode(JSON_TEXTS["default_ns"].encode())))
attempt("dec.decode.emptyobj", lambda: provn(dec.decode("{}")))
attempt("dec.decode.emptylist", lambda: provn(dec.decode("[]")))
attempt("dec.decode.str", lambda: provn(dec.decode('"bundle"')))
attempt("dec.decode.str2", lambda: provn(dec.decode('"x"')))
attempt("dec.decode.num", lambda: provn(dec.decode("3")))
attempt("dec.decode.null", lambda: provn(dec.decode("null")))
attempt("dec.decode.empty", lambda: provn(dec.decode("")))
attempt("dec.decode.unbound.wrongself", lambda: pj.ProvJSONDecoder.decode(object(), "{}"))
attempt("dec.hook", lambda: provn(pj.ProvJSONDecoder(object_pairs_hook=OrderedDict).decode(JSON_TEXTS["bundles"])))
attempt("dec.parse_float", lambda: provn(pj.ProvJSONDecoder(parse_float=str).decode(JSON_TEXTS["values"])))
attempt("dec.loads", lambda: provn(json.loads(JSON_TEXTS["repeated_ids"], cls=pj.ProvJSONDecoder)))

# --------------------------------------------------------------------------
# 3. PROV-JSON deserialize
# --------------------------------------------------------------------------
for name, text in JSON_TEXTS.items():
    ser = pj.ProvJSONSerializer()
    d1 = ser.deserialize(io.StringIO(text))
    d2 = ser.deserialize(io.BytesIO(text.encode("utf-8")))
    n1 = provn(d1)
    out("json.deser", name, sha(n1), d1 == d2, d1 == DOCS[name](), ser.document is None)
    s = io.StringIO()
    pj.ProvJSONSerializer(d1).serialize(s)
    out("json.deser.reser", name, sha(s.getvalue()), s.getvalue() == text)
    d3 = ProvDocument.deserialize(content=text, format="json")
    out("json.doc.deser", name, d3 == d1)
    osb = OneShotBytes(text.encode("utf-8"))
    d4 = ser.deserialize(osb)
    out("json.deser.oneshot", name, d4 == d1, osb.reads)
    st = io.StringIO("   " + text)
    st.seek(3)
    d5 = ser.deserialize(st)
    out("json.deser.seeked", name, d5 == d1, st.tell() == len(text) + 3, st.closed)
    bt = io.BytesIO(text.encode("utf-8"))
    ser.deserialize(bt)
    out("json.deser.bytes.state", name, bt.tell() == len(text.encode("utf-8")), bt.closed)

out("---- provn of decoded values/bundles/repeated ----")
out(provn(pj.ProvJSONSerializer().deserialize(io.StringIO(JSON_TEXTS["values"]))))
out(provn(pj.ProvJSONSerializer().deserialize(io.StringIO(JSON_TEXTS["bundles"]))))
out(provn(pj.ProvJSONSerializer().deserialize(io.StringIO(JSON_TEXTS["repeated_ids"]))))

ser = pj.ProvJSONSerializer()
uni = '{"prefix": {"ex": "http://example.org/"}, "entity": {"ex:é": {"ex:l": "日本"}}}'
attempt("json.deser.uni.text", lambda: provn(ser.deserialize(io.StringIO(uni))))
attempt("json.deser.uni.bytes", lambda: provn(ser.deserialize(io.BytesIO(uni.encode("utf-8")))))
attempt("json.deser.latin1.bytes", lambda: provn(ser.deserialize(io.BytesIO(uni.encode("latin-1", "replace")))))
attempt("json.deser.utf16.bytes", lambda: provn(ser.deserialize(io.BytesIO(uni.encode("utf-16")))))
attempt("json.deser.bom.bytes", lambda: provn(ser.deserialize(io.BytesIO(b"\xef\xbb\xbf" + uni.encode("utf-8")))))
attempt("json.deser.bom.text", lambda: provn(ser.deserialize(io.StringIO("﻿" + uni))))
attempt("json.deser.empty.text", lambda: provn(ser.deserialize(io.StringIO(""))))
attempt("json.deser.empty.bytes", lambda: provn(ser.deserialize(io.BytesIO(b""))))
attempt("json.deser.malformed", lambda: provn(ser.deserialize(io.StringIO('{"entity": '))))
attempt("json.deser.none", lambda: ser.deserialize(None))
attempt("json.deser.strarg", lambda: ser.deserialize(uni))
attempt("json.deser.bytesarg", lambda: ser.deserialize(uni.encode()))
attempt("json.deser.textreturningbytes", lambda: ser.deserialize(OneShotBytes(uni)))
attempt("json.deser.kw.hook", lambda: provn(ser.deserialize(io.StringIO(uni), object_pairs_hook=OrderedDict)))
attempt("json.deser.kw.parse_int", lambda: provn(ser.deserialize(io.BytesIO(b'{"entity": {"e": {"x:y": 3}}}'), parse_int=float)))
attempt("json.deser.kw.bogus", lambda: ser.deserialize(io.StringIO(uni), bogus=1))
attempt("json.deser.kw.cls", lambda: ser.deserialize(io.StringIO(uni), cls=json.JSONDecoder))
attempt("json.deser.closed", lambda: (lambda s: (s.close(), ser.deserialize(s)))(io.StringIO(uni)))

# --------------------------------------------------------------------------
# 4. decode_json_document / decode_json_container on hand-made structures
# --------------------------------------------------------------------------
def run_container(label, jc, doc_level=True, bundle=None):
    jc = copy.deepcopy(jc)

    def go():
        d = ProvDocument()
        if doc_level:
            r = pj.decode_json_document(jc, d)
        else:
            r = pj.decode_json_container(jc, d if bundle is None else bundle(d))
        return "ret=%r" % (r,), provn(d)

    attempt(label, go)
    try:
        out(label, "after", json.dumps(jc, sort_keys=True, default=repr)[:400])
    except Exception as e:  # noqa
        out(label, "after-unprintable", type(e).__name__)


PFX = {"ex": "http://example.org/", "default": "http://example.org/d#"}
CASES = OrderedDict()
CASES["empty"] = {}
CASES["only_prefix"] = {"prefix": dict(PFX)}
CASES["empty_prefix"] = {"prefix": {}}
CASES["only_default"] = {"prefix": {"default": "http://d/"}, "entity": {"e": {}}}
CASES["empty_bundle_map"] = {"bundle": {}}
CASES["bundle_first"] = OrderedDict([("bundle", {"ex:b": {"entity": {"ex:e": {}}}}), ("prefix", dict(PFX))])
CASES["bundle_own_prefix"] = {
    "prefix": dict(PFX),
    "bundle": {
        "ex:b": {"prefix": {"in": "http://in/", "default": "http://bd/"}, "entity": {"in:e": {"in:a": {"$": "in:q", "type": "prov:QUALIFIED_NAME"}}, "loc": {}}},
        "b2": {},
        "ex:b3": {"prefix": {"ex": "http://other/"}, "entity": {"ex:e": {}}},
    },
}
CASES["bundle_undeclared_prefix"] = {"bundle": {"zz:b": {}}}
CASES["bundle_dup_with_entity"] = {"prefix": dict(PFX), "entity": {"ex:b": {}}, "bundle": {"ex:b": {"entity": {"ex:b": {}}}}}
CASES["bundle_not_dict"] = {"bundle": [1, 2]}
CASES["bundle_none"] = {"bundle": None}
CASES["bundle_content_list"] = {"prefix": dict(PFX), "bundle": {"ex:b": []}}
CASES["nested_bundle"] = {"prefix": dict(PFX), "bundle": {"ex:b": {"bundle": {"ex:c": {}}}}}
CASES["prefix_list"] = {"prefix": [["ex", "http://x/"]]}
CASES["prefix_none"] = {"prefix": None}
CASES["prefix_nonstr_uri"] = {"prefix": {"ex": 3}}
CASES["prefix_prov_redefined"] = {"prefix": {"prov": "http://other/prov#", "xsd": "http://other/xsd#"}, "entity": {"prov:e": {"xsd:a": 1}}}
CASES["prefix_dup_uri"] = {"prefix": {"a": "http://same/", "b": "http://same/"}, "entity": {"a:e": {"b:x": 1}}}
CASES["prefix_empty_name"] = {"prefix": {"": "http://empty/"}, "entity": {":e": {}}}
CASES["prefix_unicode"] = {"prefix": {"ü": "http://example.org/ü#"}, "entity": {"ü:é": {"ü:ï": "ö"}}}
CASES["unknown_rectype"] = {"prefix": dict(PFX), "thing": {"ex:e": {}}}
CASES["rectype_before_prefix_fail"] = OrderedDict([("entity", {"ex:e": {}}), ("prefix", dict(PFX))])
CASES["rectype_value_list"] = {"entity": ["e"]}
CASES["rectype_value_empty_list"] = {"entity": []}
CASES["rectype_value_none"] = {"entity": None}
CASES["record_list"] = {"prefix": dict(PFX), "entity": {"ex:e": [{"ex:a": 1}, {"ex:a": 2}, {}]}}
CASES["record_empty_list"] = {"prefix": dict(PFX), "entity": {"ex:e": []}, "agent": {"ex:ag": {}}}
CASES["record_none"] = {"prefix": dict(PFX), "entity": {"ex:e": None}}
CASES["record_str"] = {"prefix": dict(PFX), "entity": {"ex:e": "text"}}
CASES["record_empty_str"] = {"prefix": dict(PFX), "entity": {"ex:e": ""}, "agent": {"ex:ag": {}}}
CASES["record_list_of_nondict"] = {"prefix": dict(PFX), "entity": {"ex:e": [1]}}
CASES["record_list_of_lists"] = {"prefix": dict(PFX), "entity": {"ex:e": [[{"ex:a": 1}]]}}
CASES["record_ordereddict"] = {"prefix": dict(PFX), "entity": {"ex:e": OrderedDict([("ex:b", 2), ("ex:a", 1)])}}
CASES["record_tuple"] = {"prefix": dict(PFX), "entity": {"ex:e": ({"ex:a": 1}, {"ex:a": 2})}}
CASES["anon_ids"] = {"prefix": dict(PFX), "used": {"_:u1": {"prov:activity": "ex:a", "prov:entity": "ex:e"}, "_:u2": {"prov:activity": "ex:a"}}}
CASES["id_undeclared_prefix"] = {"entity": {"zz:e": {}}}
CASES["id_default_ns"] = {"prefix": {"default": "http://d/"}, "entity": {"e": {"attr": "v", "prov:type": {"$": "T", "type": "prov:QUALIFIED_NAME"}}}}
CASES["id_no_default_ns"] = {"entity": {"e": {}}}
CASES["attr_undeclared_prefix"] = {"prefix": dict(PFX), "entity": {"ex:e": {"zz:a": 1}}}
CASES["attr_empty_name"] = {"prefix": dict(PFX), "entity": {"ex:e": {"": 1}}}
CASES["attr_uri_name"] = {"prefix": dict(PFX), "entity": {"ex:e": {"http://example.org/attr": 1, "http://nowhere/x#y": 2}}}
CASES["prov_attr_single"] = {"prefix": dict(PFX), "used": {"ex:u": {"prov:activity": "ex:a", "prov:entity": "ex:e", "prov:time": "2012-01-02T03:04:05", "prov:role": "r"}}}
CASES["prov_attr_list1"] = {"prefix": dict(PFX), "used": {"ex:u": {"prov:activity": ["ex:a"], "prov:entity": ["ex:e"], "prov:time": ["2012-01-02T03:04:05.5+01:00"]}}}
CASES["prov_attr_list0"] = {"prefix": dict(PFX), "used": {"ex:u": {"prov:activity": []}}}
CASES["prov_attr_list2"] = {"prefix": dict(PFX), "used": {"ex:u": {"prov:activity": ["ex:a", "ex:b"]}}}
CASES["prov_attr_list2_entity_nonmember"] = {"prefix": dict(PFX), "used": {"ex:u": {"prov:activity": "ex:a", "prov:entity": ["ex:a", "ex:b"]}}}
CASES["prov_attr_time_list2"] = {"prefix": dict(PFX), "activity": {"ex:a": {"prov:startTime": ["2012-01-02T03:04:05", "2013-01-02T03:04:05"]}}}
CASES["prov_attr_tuple"] = {"prefix": dict(PFX), "used": {"ex:u": {"prov:activity": ("ex:a", "ex:b")}}}
CASES["prov_attr_none"] = {"prefix": dict(PFX), "used": {"ex:u": {"prov:activity": None, "prov:entity": "ex:e"}}}
CASES["prov_attr_list_none"] = {"prefix": dict(PFX), "used": {"ex:u": {"prov:activity": [None], "prov:entity": "ex:e"}}}
CASES["prov_attr_int"] = {"prefix": dict(PFX), "used": {"ex:u": {"prov:activity": 3}}}
CASES["prov_attr_dict"] = {"prefix": dict(PFX), "used": {"ex:u": {"prov:activity": {"$": "ex:a", "type": "prov:QUALIFIED_NAME"}}}}
CASES["prov_attr_undeclared"] = {"prefix": dict(PFX), "used": {"ex:u": {"prov:activity": "zz:a"}}}
CASES["prov_time_bad"] = {"prefix": dict(PFX), "activity": {"ex:a": {"prov:startTime": "not a time"}}}
CASES["prov_time_none"] = {"prefix": dict(PFX), "activity": {"ex:a": {"prov:startTime": None, "prov:endTime": "2012-01-02T03:04:05Z"}}}
CASES["prov_time_int"] = {"prefix": dict(PFX), "activity": {"ex:a": {"prov:startTime": 2012}}}
CASES["prov_time_empty"] = {"prefix": dict(PFX), "activity": {"ex:a": {"prov:startTime": ""}}}
CASES["prov_time_dict"] = {"prefix": dict(PFX), "activity": {"ex:a": {"prov:startTime": {"$": "2012-01-02T03:04:05", "type": "xsd:dateTime"}}}}
CASES["prov_attr_wrong_record"] = {"prefix": dict(PFX), "entity": {"ex:e": {"prov:activity": "ex:a", "prov:time": "2012-01-02T03:04:05"}}}
CASES["membership_single"] = {"prefix": dict(PFX), "hadMember": {"_:m1": {"prov:collection": "ex:c", "prov:entity": "ex:e1"}}}
CASES["membership_list1"] = {"prefix": dict(PFX), "hadMember": {"_:m1": {"prov:collection": "ex:c", "prov:entity": ["ex:e1"]}}}
CASES["membership_list0"] = {"prefix": dict(PFX), "hadMember": {"_:m1": {"prov:collection": "ex:c", "prov:entity": []}}}
CASES["membership_multi"] = {"prefix": dict(PFX), "hadMember": {"_:m1": {"prov:collection": "ex:c", "prov:entity": ["ex:e1", "ex:e2", "ex:e3", "ex:e1"]}}}
CASES["membership_multi_entity_first"] = {"prefix": dict(PFX), "hadMember": {"ex:m": OrderedDict([("prov:entity", ["ex:e1", "ex:e2"]), ("ex:extra", [1, 2]), ("prov:collection", "ex:c")])}}
CASES["membership_multi_no_collection"] = {"prefix": dict(PFX), "hadMember": {"ex:m": {"prov:entity": ["ex:e1", "ex:e2"]}}}
CASES["membership_multi_collection_list2"] = {"prefix": dict(PFX), "hadMember": {"ex:m": {"prov:entity": ["ex:e1", "ex:e2"], "prov:collection": ["ex:c", "ex:d"]}}}
CASES["membership_multi_then_single_elements"] = {"prefix": dict(PFX), "hadMember": {"ex:m": [{"prov:collection": "ex:c", "prov:entity": ["ex:e1", "ex:e2"]}, {"prov:collection": "ex:c2", "prov:entity": "ex:e9"}]}}
CASES["membership_multi_bad_member"] = {"prefix": dict(PFX), "hadMember": {"ex:m": {"prov:collection": "ex:c", "prov:entity": ["ex:e1", "zz:e2", "ex:e3"]}}}
CASES["membership_multi_none_member"] = {"prefix": dict(PFX), "hadMember": {"ex:m": {"prov:collection": "ex:c", "prov:entity": ["ex:e1", None]}}}
CASES["membership_multi_attrs"] = {"prefix": dict(PFX), "hadMember": {"ex:m": {"prov:collection": "ex:c", "prov:entity": ["ex:e1", "ex:e2"], "prov:label": "lbl", "ex:x": [1, 2]}}}
CASES["other_values"] = {
    "prefix": dict(PFX),
    "entity": {
        "ex:e": {
            "ex:s": "s",
            "ex:empty": "",
            "ex:i": 1,
            "ex:f": 1.5,
            "ex:t": True,
            "ex:n": None,
            "ex:list": [1, "a", {"$": "x", "lang": "en"}, {"$": "2", "type": "xsd:int"}, None, True],
            "ex:emptylist": [],
            "ex:uri": {"$": "http://x/é", "type": "xsd:anyURI"},
            "ex:qn": {"$": "ex:q", "type": "prov:QUALIFIED_NAME"},
            "ex:qn_default": {"$": "q", "type": "prov:QUALIFIED_NAME"},
            "ex:dt": {"$": "2012-01-02T03:04:05", "type": "xsd:dateTime"},
            "ex:dbl": {"$": "1.5", "type": "xsd:double"},
            "ex:dblnum": {"$": 1.5, "type": "xsd:double"},
            "ex:bool": {"$": "true", "type": "xsd:boolean"},
            "ex:lang": {"$": "héllo", "lang": "fr"},
            "ex:langtype": {"$": "x", "lang": "fr", "type": "xsd:string"},
            "ex:emptylang": {"$": "x", "lang": ""},
            "ex:custom": {"$": "x", "type": "ex:custom"},
            "ex:notype": {"$": "x"},
            "ex:typenone": {"$": "x", "type": None},
            "ex:valnone": {"$": None, "type": "xsd:string"},
            "ex:valint": {"$": 5, "type": "xsd:string"},
            "ex:extra": {"$": "x", "type": "xsd:string", "other": 1},
            "prov:label": [{"$": "a", "lang": "en"}, "b"],
            "prov:type": [{"$": "ex:T", "type": "prov:QUALIFIED_NAME"}, "str", {"$": "prov:Plan", "type": "xsd:QName"}],
            "prov:value": {"$": "10", "type": "xsd:int"},
        }
    },
}
CASES["other_nested_list"] = {"prefix": dict(PFX), "entity": {"ex:e": {"ex:nested": [[1, 2]]}}}
CASES["lit_missing_dollar"] = {"prefix": dict(PFX), "entity": {"ex:e": {"ex:a": {"type": "xsd:string"}}}}
CASES["lit_empty_dict"] = {"prefix": dict(PFX), "entity": {"ex:e": {"ex:a": {}}}}
CASES["lit_bad_type"] = {"prefix": dict(PFX), "entity": {"ex:e": {"ex:a": {"$": "x", "type": "zz:t"}}}}
CASES["lit_type_int"] = {"prefix": dict(PFX), "entity": {"ex:e": {"ex:a": {"$": "x", "type": 5}}}}
CASES["lit_qn_undeclared"] = {"prefix": dict(PFX), "entity": {"ex:e": {"ex:a": {"$": "zz:q", "type": "prov:QUALIFIED_NAME"}}}}
CASES["lit_qn_none"] = {"prefix": dict(PFX), "entity": {"ex:e": {"ex:a": {"$": None, "type": "prov:QUALIFIED_NAME"}}}}
CASES["lit_uri_none"] = {"prefix": dict(PFX), "entity": {"ex:e": {"ex:a": {"$": None, "type": "xsd:anyURI"}}}}
CASES["lit_uri_full_type"] = {"prefix": dict(PFX), "entity": {"ex:e": {"ex:a": {"$": "http://x/", "type": "http://www.w3.org/2001/XMLSchema#anyURI"}}}}
CASES["lit_in_list_missing_dollar"] = {"prefix": dict(PFX), "entity": {"ex:e": {"ex:ok": 1, "ex:a": [1, {"type": "xsd:string"}]}, "ex:later": {}}}
CASES["error_midway"] = {"prefix": dict(PFX), "entity": {"ex:ok": {"ex:a": 1}, "ex:bad": {"zz:a": 1}, "ex:never": {}}}
CASES["all_rectypes"] = {
    "prefix": dict(PFX),
    "entity": {"ex:e1": {}, "ex:e2": {}},
    "activity": {"ex:a1": {"prov:startTime": "2011-11-16T16:05:00", "prov:endTime": "2011-11-16T16:06:00"}},
    "agent": {"ex:ag": {}},
    "wasGeneratedBy": {"_:g": {"prov:entity": "ex:e1", "prov:activity": "ex:a1", "prov:time": "2011-11-16T16:05:00"}},
    "used": {"_:u": {"prov:activity": "ex:a1", "prov:entity": "ex:e2"}},
    "wasInformedBy": {"_:i": {"prov:informed": "ex:a1", "prov:informant": "ex:a1"}},
    "wasStartedBy": {"_:s": {"prov:activity": "ex:a1", "prov:trigger": "ex:e1", "prov:starter": "ex:a1"}},
    "wasEndedBy": {"_:e": {"prov:activity": "ex:a1", "prov:trigger": "ex:e1", "prov:ender": "ex:a1"}},
    "wasInvalidatedBy": {"_:inv": {"prov:entity": "ex:e1", "prov:activity": "ex:a1"}},
    "wasDerivedFrom": {"_:d": {"prov:generatedEntity": "ex:e2", "prov:usedEntity": "ex:e1", "prov:activity": "ex:a1", "prov:generation": "_:g", "prov:usage": "_:u"}},
    "wasAttributedTo": {"_:at": {"prov:entity": "ex:e1", "prov:agent": "ex:ag"}},
    "wasAssociatedWith": {"_:as": {"prov:activity": "ex:a1", "prov:agent": "ex:ag", "prov:plan": "ex:e2"}},
    "actedOnBehalfOf": {"_:del": {"prov:delegate": "ex:ag", "prov:responsible": "ex:ag", "prov:activity": "ex:a1"}},
    "wasInfluencedBy": {"_:inf": {"prov:influencee": "ex:e1", "prov:influencer": "ex:ag"}},
    "specializationOf": {"_:sp": {"prov:specificEntity": "ex:e2", "prov:generalEntity": "ex:e1"}},
    "alternateOf": {"_:al": {"prov:alternate1": "ex:e2", "prov:alternate2": "ex:e1"}},
    "mentionOf": {"_:mo": {"prov:specificEntity": "ex:e2", "prov:generalEntity": "ex:e1", "prov:bundle": "ex:b"}},
    "hadMember": {"_:hm": {"prov:collection": "ex:e1", "prov:entity": ["ex:e2", "ex:ag"]}},
}

for label, jc in CASES.items():
    run_container("doc." + label, jc, True)
for label in ("empty", "only_prefix", "bundle_own_prefix", "nested_bundle", "membership_multi", "other_values", "record_list", "prov_attr_list2", "id_default_ns", "all_rectypes"):
    run_container("cont." + label, CASES[label], False)
    run_container("contb." + label, CASES[label], False, bundle=lambda d: (d.add_namespace("tb", "http://example.org/tb#"), d.bundle("tb:thebundle"))[1])

# non-dict contents given directly
for label, content in [("list_empty", []), ("list_nonempty", ["entity"]), ("tuple_empty", ()), ("str_empty", ""), ("str_bundle", "a bundle"), ("str_prefix", "prefix"), ("str_other", "zzz"), ("none", None), ("int", 3), ("set_empty", set()), ("defaultdict", defaultdict(dict)), ("defaultdict_entity", defaultdict(dict, {"entity": {"e": {}}}))]:
    attempt("doc.direct." + label, lambda c=content: (lambda d: (pj.decode_json_document(c, d), provn(d)))(ProvDocument()))
    attempt("cont.direct." + label, lambda c=content: (lambda d: (pj.decode_json_container(c, d), provn(d)))(ProvDocument()))

# same structure object shared between bundle and document content (mutation visible)
shared = {"prefix": dict(PFX), "entity": {"ex:e": {}}}
content = {"prefix": shared["prefix"], "bundle": {"ex:b": shared}}
attempt("doc.shared", lambda: (lambda d: (pj.decode_json_document(content, d), provn(d)))(ProvDocument()))
out("doc.shared.after", sorted(content), sorted(shared))

# existing content in the target document / bundle
def into_existing():
    d = doc_bundles()
    pj.decode_json_document(copy.deepcopy(CASES["bundle_own_prefix"]), d)
    return provn(d)


attempt("doc.into_existing", into_existing)


def into_existing2():
    d = doc_default_ns()
    pj.decode_json_document({"prefix": {"ex": "http://different/", "default": "http://other-default/"}, "entity": {"ex:e2": {}, "e1": {}}}, d)
    return provn(d)


attempt("doc.into_existing2", into_existing2)

# --------------------------------------------------------------------------
# 5. encode / decode representation helpers directly
# --------------------------------------------------------------------------
class MyInt(int):
    pass


class MyStr(str):
    pass


class MyFloat(float):
    pass


class MyDT(datetime.datetime):
    pass


class MyLit(Literal):
    pass


class MyIdent(Identifier):
    pass


exns = Namespace("ex", "http://example.org/")
VALUES = [
    "s", "", "ü", MyStr("sub"), 1, 0, -1, 2 ** 80, MyInt(4), True, False, 1.5, float("inf"), float("nan"), -0.0, MyFloat(2.5), None,
    b"bytes", [1, 2], (1, 2), {"a": 1}, {"$": 1}, 1 + 2j,
    datetime.datetime(2012, 1, 2, 3, 4, 5), MyDT(2012, 1, 2, 3, 4, 5, 6), datetime.date(2012, 1, 2), datetime.time(1, 2),
    datetime.datetime(2012, 1, 2, tzinfo=datetime.timezone.utc),
    exns["q"], pm.PROV["Entity"], Identifier("http://x/"), Identifier(""), MyIdent("http://y/"), Literal("ex:wrapped", XSD_QNAME),
    Literal("v"), Literal("v", XSD_STRING), Literal("v", langtag="en"), Literal("v", XSD_STRING, "en"), Literal("", langtag="en"),
    Literal("v", None, ""), Literal(5, XSD_INT), Literal(5), Literal(1.5), Literal(True), Literal("x", exns["t"]), MyLit("m", XSD["token"]),
    Literal("é", langtag="fr"), Literal(None), Literal("v", Identifier("http://dt/")), Literal("v", "notaqname"),
]
for i, v in enumerate(VALUES):
    attempt("encrep.%02d.%s" % (i, type(v).__name__), lambda v=v: (lambda r: (type(r).__name__, repr(r), r is v))(pj.encode_json_representation(v)))
for i, v in enumerate(VALUES):
    if isinstance(v, Literal):
        attempt("litrep.%02d" % i, lambda v=v: repr(pj.literal_json_representation(v)))
attempt("litrep.nonliteral", lambda: pj.literal_json_representation("x"))
attempt("litrep.qn", lambda: pj.literal_json_representation(exns["q"]))


class Duck(object):
    value = "dv"
    datatype = "ddt"
    langtag = None


class Duck2(object):
    value = "dv"
    datatype = "ddt"
    langtag = "dl"


class Duck3(object):
    value = "dv"


attempt("litrep.duck", lambda: repr(pj.literal_json_representation(Duck())))
attempt("litrep.duck2", lambda: repr(pj.literal_json_representation(Duck2())))
attempt("litrep.duck3", lambda: repr(pj.literal_json_representation(Duck3())))

# the module-level map is consulted at call time
old = dict(pj.LITERAL_XSDTYPE_MAP)
pj.LITERAL_XSDTYPE_MAP[bool] = "xsd:boolean"
pj.LITERAL_XSDTYPE_MAP[str] = None
attempt("encrep.map.bool", lambda: repr(pj.encode_json_representation(True)))
attempt("encrep.map.str", lambda: repr(pj.encode_json_representation("s")))
del pj.LITERAL_XSDTYPE_MAP[int]
attempt("encrep.map.noint", lambda: repr(pj.encode_json_representation(3)))
pj.LITERAL_XSDTYPE_MAP.clear()
pj.LITERAL_XSDTYPE_MAP.update(old)
attempt("encrep.map.restored", lambda: repr(pj.encode_json_representation(3)))


def decrep_targets():
    d = ProvDocument()
    d.add_namespace("ex", "http://example.org/")
    d2 = ProvDocument()
    d2.set_default_namespace("http://dflt/")
    b = d2.bundle("http://dflt/b")
    b.add_namespace("ex", "http://bundle-ex/")
    return [("doc", d), ("docdefault", d2), ("bundle", b)]


class UpperDict(dict):
    """dict subclass with its own item access"""

    def __getitem__(self, k):
        v = dict.__getitem__(self, k)
        return v.upper() if isinstance(v, str) and k == "$" else v

    def get(self, k, default=None):
        return "GET"


LITS = [
    "plain", "", 1, 1.5, True, None, [1, 2], [], ("t",),
    {"$": "x"}, {"$": "x", "type": "xsd:string"}, {"$": "x", "type": None}, {"$": "x", "lang": "en"}, {"$": "x", "lang": None}, {"$": "x", "lang": "", "type": "xsd:string"},
    {"$": "x", "type": "xsd:string", "lang": "en"}, {"$": "http://x/", "type": "xsd:anyURI"}, {"$": "http://x/", "type": "xsd:anyURI", "lang": "en"},
    {"$": "ex:q", "type": "prov:QUALIFIED_NAME"}, {"$": "q", "type": "prov:QUALIFIED_NAME"}, {"$": "zz:q", "type": "prov:QUALIFIED_NAME"}, {"$": None, "type": "prov:QUALIFIED_NAME"},
    {"$": "http://example.org/full", "type": "prov:QUALIFIED_NAME"}, {"$": "ex:q", "type": "xsd:QName"}, {"$": "ex:q", "type": "http://www.w3.org/ns/prov#QUALIFIED_NAME"},
    {"$": "5", "type": "xsd:int"}, {"$": 5, "type": "xsd:int"}, {"$": "x", "type": "zz:unknown"}, {"$": "x", "type": "nodefault"}, {"$": "x", "type": 5}, {"$": "x", "type": ""},
    {"type": "xsd:string"}, {"lang": "en"}, {}, {"$": {"$": "inner"}}, {"$": [1]}, OrderedDict([("type", "xsd:anyURI"), ("$", "u")]), defaultdict(lambda: "dflt", {"$": "x"}),
    UpperDict({"$": "x", "type": "xsd:string"}), UpperDict({"$": "x", "lang": "en"}), {"$": "日本", "lang": "ja"}, {"$": 0, "type": "xsd:anyURI"},
]
for tname, target in decrep_targets():
    for i, lit in enumerate(LITS):
        before = repr(lit)

        def go(lit=lit, target=target):
            r = pj.decode_json_representation(lit, target)
            extra = ""
            if isinstance(r, Literal):
                extra = "lit(%r,%r,%r)" % (r.value, r.datatype, r.langtag)
            elif isinstance(r, Identifier):
                extra = "uri=%r" % (r.uri,)
            return type(r).__name__, repr(r), extra, r is lit

        attempt("decrep.%s.%02d" % (tname, i), go)
        if repr(lit) != before:
            out("decrep.%s.%02d" % (tname, i), "MUTATED", repr(lit))
attempt("decrep.nobundle.simple", lambda: pj.decode_json_representation("x", None))
attempt("decrep.nobundle.dict", lambda: pj.decode_json_representation({"$": "x", "type": "xsd:string"}, None))
attempt("decrep.nobundle.notype", lambda: repr(pj.decode_json_representation({"$": "x"}, None)))

# --------------------------------------------------------------------------
# 6. PROV-O serialize / deserialize
# --------------------------------------------------------------------------
BN = re.compile(r"_:[A-Za-z0-9]+|\bN[0-9a-f]{32}\b|nodeID=\"[^\"]+\"")


def norm_rdf(text):
    if isinstance(text, bytes):
        text = text.decode("utf-8")
    lines = [BN.sub("_:b", l.rstrip()) for l in text.splitlines()]
    return "\n".join(sorted(lines))


def norm_provn(doc):
    return "\n".join(sorted(BN.sub("_:b", l.strip()) for l in provn(doc).splitlines()))


RDF_DOCS = ["empty", "default_ns", "repeated_ids", "values", "bundles", "relations", "ex_primer_example", "ex_bundles1", "ex_bundles2", "ex_collections", "ex_datatypes", "ex_long_literals"]
RDF_TEXT = {}
for name in RDF_DOCS:
    if name not in DOCS:
        out("rdf.missingdoc", name)
        continue
    for fmt in ("trig", "turtle", "nt", "xml", "json-ld", "nquads"):
        def go(name=name, fmt=fmt):
            doc = DOCS[name]()
            ser = pr.ProvRDFSerializer(doc)
            s = io.StringIO()
            r1 = ser.serialize(s, rdf_format=fmt)
            b = io.BytesIO()
            r2 = ser.serialize(b, rdf_format=fmt)
            rr = RecRaw()
            ser.serialize(rr, rdf_format=fmt)
            rt = RecText()
            ser.serialize(rt, rdf_format=fmt)
            RDF_TEXT[(name, fmt)] = s.getvalue()
            return (
                r1, r2, sha(norm_rdf(s.getvalue())), norm_rdf(b.getvalue()) == norm_rdf(s.getvalue()),
                [(c[0], sha(norm_rdf(c[1]))) for c in rr.calls], [(c[0], sha(norm_rdf(c[1]))) for c in rt.calls], s.closed, b.closed, b.tell() == len(b.getvalue()),
            )

        attempt("rdf.ser.%s.%s" % (name, fmt), go)

attempt("rdf.ser.default_format", lambda: (lambda s: (pr.ProvRDFSerializer(doc_bundles()).serialize(s), sha(norm_rdf(s.getvalue()))))(io.StringIO()))
attempt("rdf.ser.doc_api", lambda: sha(norm_rdf(doc_bundles().serialize(format="rdf"))))
attempt("rdf.ser.doc_api.ttl", lambda: sha(norm_rdf(doc_values().serialize(format="rdf", rdf_format="turtle"))))
attempt("rdf.ser.positional", lambda: (lambda s: (pr.ProvRDFSerializer(doc_values()).serialize(s, "turtle"), sha(norm_rdf(s.getvalue()))))(io.StringIO()))
attempt("rdf.ser.nostream", lambda: pr.ProvRDFSerializer(doc_values()).serialize())
attempt("rdf.ser.nostream.kw", lambda: pr.ProvRDFSerializer(doc_values()).serialize(rdf_format="nt"))
attempt("rdf.ser.badformat", lambda: pr.ProvRDFSerializer(doc_values()).serialize(io.StringIO(), rdf_format="nope"))
attempt("rdf.ser.formatkw", lambda: pr.ProvRDFSerializer(doc_values()).serialize(io.StringIO(), format="nt"))
attempt("rdf.ser.formatkw2", lambda: pr.ProvRDFSerializer(doc_values()).serialize(io.StringIO(), rdf_format="turtle", format="nt"))
attempt("rdf.ser.encodingkw", lambda: (lambda s: (pr.ProvRDFSerializer(doc_values()).serialize(s, rdf_format="nt", encoding="utf-8"), sha(norm_rdf(s.getvalue()))))(io.BytesIO()))
attempt("rdf.ser.basekw", lambda: (lambda s: (pr.ProvRDFSerializer(doc_values()).serialize(s, rdf_format="turtle", base="http://example.org/"), sha(norm_rdf(s.getvalue()))))(io.StringIO()))
attempt("rdf.ser.boguskw", lambda: (lambda s: (pr.ProvRDFSerializer(doc_values()).serialize(s, rdf_format="turtle", bogus=1), sha(norm_rdf(s.getvalue()))))(io.StringIO()))
attempt("rdf.ser.nodoc", lambda: pr.ProvRDFSerializer().serialize(io.StringIO()))
attempt("rdf.ser.failingwriter", lambda: pr.ProvRDFSerializer(doc_values()).serialize(FailingWriter(), rdf_format="nt"))
kwd = {"base": "http://example.org/"}
attempt("rdf.ser.kwargs_untouched", lambda: (pr.ProvRDFSerializer(doc_values()).serialize(io.StringIO(), rdf_format="turtle", **kwd), sorted(kwd.items()))[1])
custom_map = dict(PROV_N_MAP)
attempt("rdf.ser.custom_map", lambda: (lambda s: (pr.ProvRDFSerializer(doc_relations()).serialize(s, "nt", custom_map), sha(norm_rdf(s.getvalue()))))(io.StringIO()))
attempt("rdf.ser.custom_map.kw", lambda: (lambda s: (pr.ProvRDFSerializer(doc_relations()).serialize(s, PROV_N_MAP=custom_map, rdf_format="nt"), sha(norm_rdf(s.getvalue()))))(io.StringIO()))
attempt("rdf.ser.empty_map", lambda: pr.ProvRDFSerializer(doc_relations()).serialize(io.StringIO(), "nt", {}))

for (name, fmt), text in sorted(RDF_TEXT.items()):
    if fmt in ("json-ld",):
        continue

    def go(name=name, fmt=fmt, text=text):
        ser = pr.ProvRDFSerializer()
        d1 = ser.deserialize(io.StringIO(text), rdf_format=fmt)
        same_obj = ser.document is d1
        ser2 = pr.ProvRDFSerializer(doc_default_ns())
        d2 = ser2.deserialize(io.BytesIO(text.encode("utf-8")), rdf_format=fmt)
        return sha(norm_provn(d1)), norm_provn(d1) == norm_provn(d2), same_obj, ser2.document is d2, len(d1.get_records()), len(list(d1.bundles))

    attempt("rdf.deser.%s.%s" % (name, fmt), go)

out("---- rdf decoded docs (normalised provn) ----")
for key in [("values", "trig"), ("bundles", "trig"), ("relations", "turtle"), ("repeated_ids", "nt")]:
    if key in RDF_TEXT:
        attempt("rdf.deser.provn.%s.%s" % key, lambda key=key: "\n" + norm_provn(pr.ProvRDFSerializer().deserialize(io.StringIO(RDF_TEXT[key]), rdf_format=key[1])))

trig = RDF_TEXT.get(("bundles", "trig"), "")
ttl = RDF_TEXT.get(("values", "turtle"), "")
attempt("rdf.deser.default_format", lambda: sha(norm_provn(pr.ProvRDFSerializer().deserialize(io.StringIO(trig)))))
attempt("rdf.deser.positional", lambda: sha(norm_provn(pr.ProvRDFSerializer().deserialize(io.StringIO(ttl), "turtle"))))
attempt("rdf.deser.doc_api", lambda: sha(norm_provn(ProvDocument.deserialize(content=trig, format="rdf"))))
attempt("rdf.deser.doc_api.ttl", lambda: sha(norm_provn(ProvDocument.deserialize(content=ttl, format="rdf", rdf_format="turtle"))))
attempt("rdf.deser.wrongformat", lambda: sha(norm_provn(pr.ProvRDFSerializer().deserialize(io.StringIO(trig), rdf_format="xml"))))
attempt("rdf.deser.badformat", lambda: pr.ProvRDFSerializer().deserialize(io.StringIO(trig), rdf_format="nope"))
attempt("rdf.deser.formatkw", lambda: pr.ProvRDFSerializer().deserialize(io.StringIO(ttl), format="turtle"))
attempt("rdf.deser.formatkw2", lambda: pr.ProvRDFSerializer().deserialize(io.StringIO(ttl), rdf_format="turtle", format="xml"))
attempt("rdf.deser.publicID", lambda: sha(norm_provn(pr.ProvRDFSerializer().deserialize(io.StringIO(ttl), rdf_format="turtle", publicID="http://pub/"))))
attempt("rdf.deser.boguskw", lambda: sha(norm_provn(pr.ProvRDFSerializer().deserialize(io.StringIO(ttl), rdf_format="turtle", bogus=1))))
attempt("rdf.deser.empty", lambda: provn(pr.ProvRDFSerializer().deserialize(io.StringIO(""), rdf_format="turtle")))
attempt("rdf.deser.empty.bytes", lambda: provn(pr.ProvRDFSerializer().deserialize(io.BytesIO(b""))))
attempt("rdf.deser.none", lambda: pr.ProvRDFSerializer().deserialize(None))
attempt("rdf.deser.malformed", lambda: pr.ProvRDFSerializer().deserialize(io.StringIO("@prefix ex: <http://x/> . ex:a ex:b"), rdf_format="turtle"))
kwd2 = {"publicID": "http://pub/"}
attempt("rdf.deser.kwargs_untouched", lambda: (pr.ProvRDFSerializer().deserialize(io.StringIO(ttl), rdf_format="turtle", **kwd2), sorted(kwd2.items()))[1])
attempt("rdf.deser.mappers.kw", lambda: sha(norm_provn(pr.ProvRDFSerializer().deserialize(io.StringIO(ttl), rdf_format="turtle", relation_mapper=dict(pr.relation_mapper), predicate_mapper=dict(pr.predicate_mapper)))))
attempt("rdf.deser.mappers.pos", lambda: sha(norm_provn(pr.ProvRDFSerializer().deserialize(io.StringIO(RDF_TEXT[("relations", "turtle")]), "turtle", {}, {}))))
unittl = '@prefix ex: <http://example.org/> . @prefix prov: <http://www.w3.org/ns/prov#> . ex:é a prov:Entity ; ex:l "日本"@ja, "ü" .'
attempt("rdf.deser.uni.text", lambda: norm_provn(pr.ProvRDFSerializer().deserialize(io.StringIO(unittl), rdf_format="turtle")))
attempt("rdf.deser.uni.bytes", lambda: norm_provn(pr.ProvRDFSerializer().deserialize(io.BytesIO(unittl.encode("utf-8")), rdf_format="turtle")))

# --------------------------------------------------------------------------
# 7. signatures / class layout that callers can observe
# --------------------------------------------------------------------------
import inspect

for obj in (
    pj.ProvJSONSerializer.serialize, pj.ProvJSONSerializer.deserialize, pj.ProvJSONEncoder.default, pj.ProvJSONDecoder.decode,
    pj.decode_json_document, pj.decode_json_container, pj.encode_json_representation, pj.decode_json_representation, pj.literal_json_representation,
    pr.ProvRDFSerializer.serialize, pr.ProvRDFSerializer.deserialize,
):
    sig = inspect.signature(obj)
    out("sig", obj.__qualname__, [(p.name, str(p.kind), p.default is inspect.Parameter.empty) for p in sig.parameters.values()])
out("mro", [c.__name__ for c in pj.ProvJSONEncoder.__mro__], [c.__name__ for c in pj.ProvJSONDecoder.__mro__])
out("public names json", sorted(n for n in vars(pj) if not n.startswith("_") and getattr(vars(pj)[n], "__module__", None) == pj.__name__))
out("public names rdf", sorted(n for n in vars(pr) if not n.startswith("_") and getattr(vars(pr)[n], "__module__", None) == pr.__name__))

body = "\n".join(LINES)
print(body)
print("LINES", len(LINES))
print("DIGEST", hashlib.sha256(body.encode("utf-8")).hexdigest())
