# differential script for refactoring 2: ProvRecord._auto_literal_conversion
import datetime, hashlib
from prov.model import ProvDocument, Literal, PROV, Namespace, ProvBundle
from prov.identifier import Identifier, QualifiedName
from prov.constants import (XSD_INT, XSD_STRING, XSD_BOOLEAN, XSD_DATETIME, XSD_DOUBLE,
                            XSD_ANYURI, XSD_LONG, XSD, PROV_TYPE)

def show(v):
    if isinstance(v, Literal):
        dt = v.datatype
        return ("Literal", v.value, show(dt), v.langtag)
    if isinstance(v, QualifiedName):
        return ("QName", type(v).__name__, str(v), v.uri, v.namespace.prefix, v.namespace.uri)
    if isinstance(v, Identifier):
        return ("Identifier", v.uri)
    return (type(v).__name__, repr(v))

EX = Namespace("ex", "http://example.org/")
EX_OTHER = Namespace("ex", "http://other.example.org/")   # same prefix, other URI
UNDECL = Namespace("und", "http://undeclared.example.org/")
d = ProvDocument()
d.add_namespace(EX)
b = d.bundle("ex:bundle")
rec_d = d.entity("ex:e")
rec_b = b.entity("ex:e")
rel = d.wasGeneratedBy(rec_d, None)          # relation without identifier

class S(str):
    pass

class Odd(object):
    def __repr__(self):
        return "<Odd>"

inputs = [
    "plain", "", S("sub"), "unié\n", 5, 1.5, True, None, Odd(),
    datetime.datetime(2020, 1, 1), Identifier("http://a/b"),
    EX["q"], EX_OTHER["q"], UNDECL["q"], PROV["Person"],
    rec_d, rec_b, rel,
    Literal("x"), Literal(""), Literal(5), Literal("x", XSD_STRING), Literal("", XSD_STRING),
    Literal("5", XSD_INT), Literal("5", XSD_LONG), Literal("1.5", XSD_DOUBLE),
    Literal("true", XSD_BOOLEAN), Literal("0", XSD_BOOLEAN), Literal("maybe", XSD_BOOLEAN),
    Literal("2012-01-02T03:04:05", XSD_DATETIME), Literal("not a date", XSD_DATETIME),
    Literal("http://u/", XSD_ANYURI),
    Literal("five", XSD_INT), Literal("x.y", XSD_DOUBLE),
    Literal("v", EX["T"]), Literal("v", EX_OTHER["T"]), Literal("v", UNDECL["T"]),
    Literal("v", XSD["unsignedInt"]), Literal("v", "just-a-string-type"),
    Literal("v", Identifier("http://dt/")),
    Literal("hola", None, "es"), Literal("hola", PROV["InternationalizedString"], "es"),
    Literal("hola", XSD_INT, "es"), Literal("hola", UNDECL["T"], "es"),
    Literal("x", None, ""), Literal("5", XSD_INT, ""), Literal("v", UNDECL["T"], ""),
]
out = []
for rec_name, rec in (("doc", rec_d), ("bundle", rec_b)):
    for i, val in enumerate(inputs):
        try:
            res = rec._auto_literal_conversion(val)
            out.append((rec_name, i, show(res), res is val,
                        isinstance(res, Literal) and isinstance(val, Literal) and res.datatype is val.datatype))
        except Exception as ex:
            out.append((rec_name, i, "EXC", type(ex).__name__, str(ex)))
    # namespaces registered as a side effect of the conversions
    out.append((rec_name, "namespaces",
                sorted((n.prefix, n.uri) for n in rec.bundle.get_registered_namespaces())))
# through the public API
e = d.entity("ex:pub", [("ex:a", Literal("v", UNDECL["T2"])), ("ex:b", Literal("7", XSD_INT)),
                        ("ex:c", rec_b), ("ex:d", Literal("t", None, "en")), (PROV_TYPE, Literal("x"))])
out.append(("pub", sorted((str(k), show(v)) for k, v in e.attributes)))
out.append(("pub-ns", sorted((n.prefix, n.uri) for n in d.get_registered_namespaces())))
for o in out:
    print(o)
print(hashlib.sha256(repr(out).encode()).hexdigest())
