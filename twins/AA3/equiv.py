# Differential script for refactoring 3 (isinstance chain -> ordered dispatch table,
# if/else -> early returns in decode_json_representation).
import datetime
import decimal
import fractions
import json
import logging
import os
import sys

sys.path.insert(0, os.path.dirname(os.path.abspath(__file__)))
import corpus  # noqa: E402
from prov.serializers import provjson  # noqa: E402
from prov.model import ProvDocument, Literal, Identifier, QualifiedName, Namespace  # noqa: E402
from prov.constants import XSD_INT, XSD_STRING, XSD_ANYURI, PROV, PROV_QUALIFIEDNAME  # noqa: E402

logging.basicConfig(stream=sys.stdout, format="LOG %(levelname)s %(name)s %(message)s")


class MyInt(int):
    pass


class MyFloat(float):
    pass


class MyStr(str):
    pass


class MyDT(datetime.datetime):
    pass


class MyQN(QualifiedName):
    pass


class MyId(Identifier):
    pass


class MyLit(Literal):
    pass


class NoUri(Identifier):
    @property
    def uri(self):
        raise RuntimeError("no uri")


class Opaque(object):
    def __repr__(self):
        return "<Opaque>"


ex = Namespace("ex", "http://example.org/")
values = [
    None, True, False, 0, 1, -5, 2 ** 70, 0.0, -1.5, float("inf"), "", "text", "uni ☃ \"q\"", b"bytes",
    MyInt(3), MyFloat(2.0), MyStr("sub"), 1 + 2j, decimal.Decimal("1.10"), fractions.Fraction(1, 3),
    [1, 2], (1, 2), {"$": 1}, {1, 2} and frozenset([1]), Opaque(),
    datetime.datetime(2020, 1, 2, 3, 4, 5), datetime.datetime(2020, 1, 2, 3, 4, 5, 6, datetime.timezone.utc),
    MyDT(1999, 12, 31, 23, 59, 59), datetime.date(2020, 1, 2), datetime.time(1, 2, 3), datetime.datetime.min,
    ex["q"], MyQN(ex, "sub"), QualifiedName(Namespace("", "http://noprefix/"), "l"), PROV["Person"], PROV_QUALIFIEDNAME,
    Identifier("http://example.org/i"), Identifier(""), MyId("urn:x"), NoUri("urn:y"),
    Literal("a", XSD_STRING), Literal("5", XSD_INT), Literal(5, XSD_INT), Literal("x", langtag="fr"),
    Literal("plain"), Literal("", langtag=""), MyLit("sub", XSD_ANYURI), Literal(ex["q"], PROV_QUALIFIEDNAME),
    Literal(datetime.datetime(2001, 1, 1)),
]
for v in values:
    r = corpus.attempt(provjson.encode_json_representation, v)
    if r[0] == "ok":
        out = r[1]
        same = out is v
        r = ("ok", type(out).__name__, repr(out), "identity" if same else "new")
        if isinstance(out, dict):
            r += (list(out.keys()), [type(x).__name__ for x in out.values()])
    print("ejr", type(v).__name__, repr(v), "->", r)

b = ProvDocument()
b.add_namespace("ex", "http://example.org/")
b.set_default_namespace("http://d/")


class MyDict(dict):
    pass


import collections  # noqa: E402

literals = [1, "s", None, True, 2.5, [1, 2], ("$", 1), Opaque(),
            {"$": "5", "type": "xsd:int"}, {"$": 5, "type": "xsd:int"}, MyDict({"$": "5", "type": "xsd:int"}),
            collections.OrderedDict([("type", "xsd:anyURI"), ("$", "urn:z")]),
            collections.UserDict({"$": "5", "type": "xsd:int"}),
            {"$": "x", "lang": "en"}, {"$": "x", "lang": "en", "type": "xsd:string"},
            {"$": "x", "lang": "en", "type": "prov:InternationalizedString"},
            {"$": "http://u/", "type": "xsd:anyURI"}, {"$": 5, "type": "xsd:anyURI"}, {"$": "http://u/", "type": "xsd:anyURI", "lang": "en"},
            {"$": "ex:q", "type": "prov:QUALIFIED_NAME"}, {"$": "bad:q", "type": "prov:QUALIFIED_NAME"},
            {"$": "local", "type": "prov:QUALIFIED_NAME"}, {"$": None, "type": "prov:QUALIFIED_NAME"},
            {"$": "ex:q", "type": "prov:QUALIFIED_NAME", "lang": "en"},
            {"$": "untyped"}, {"$": "x", "type": "zz:unknown"}, {"type": "xsd:int"}, {}, {"lang": "en"},
            {"$": "x", "type": None}, {"$": "", "lang": ""}, {"$": "x", "type": 5}, {"$": [1], "type": "xsd:int"},
            {"$": "2012-01-01T00:00:00", "type": "xsd:dateTime"}, {"$": "x", "type": "http://www.w3.org/2001/XMLSchema#anyURI"}]
for lit in literals:
    r = corpus.attempt(provjson.decode_json_representation, lit, b)
    if r[0] == "ok":
        out = r[1]
        extra = ()
        if isinstance(out, Literal):
            extra = (repr(out.value), repr(out.datatype), repr(out.langtag))
        r = ("ok", type(out).__name__, repr(out), "identity" if out is lit else "new") + extra
    print("djr", type(lit).__name__, repr(lit), "->", r)
for lit in literals[:9]:
    print("djr-nobundle", corpus.attempt(provjson.decode_json_representation, lit, None)[0])

# the module's own table of native types is still consulted at call time
saved = dict(provjson.LITERAL_XSDTYPE_MAP)
provjson.LITERAL_XSDTYPE_MAP[complex] = "ex:complex"
print(provjson.encode_json_representation(1j), provjson.encode_json_representation(True))
provjson.LITERAL_XSDTYPE_MAP.clear()
provjson.LITERAL_XSDTYPE_MAP.update(saved)
print(provjson.encode_json_representation(1j), provjson.encode_json_representation(4))

# whole pipeline
for name, make in corpus.DOCS:
    d = make()
    text = d.serialize(format="json", indent=1)
    print("== serialize", name, corpus.digest(text))
    print(text)
    d2 = ProvDocument.deserialize(content=text, format="json")
    print(corpus.describe_doc(d2))
    print("equal:", d == d2)
for name, text in corpus.JSON_INPUTS.items():
    r = corpus.attempt(ProvDocument.deserialize, content=text, format="json")
    if r[0] == "ok":
        print("== input", name)
        print(corpus.describe_doc(r[1]))
        print(r[1].serialize(format="json"))
    else:
        print("input", name, r)
