"""Differential script for change 4 (f-strings in Literal, encoding_provn_value and
_ensure_multiline_string_triple_quoted)."""
import os
import sys

if os.environ.get("PYTHONHASHSEED") != "0":
    os.environ["PYTHONHASHSEED"] = "0"
    os.execv(sys.executable, [sys.executable] + sys.argv)

import datetime
import decimal
import enum
import fractions
import hashlib
import logging

import prov.model as pm
from prov.model import (
    ProvDocument,
    Literal,
    encoding_provn_value,
    _ensure_multiline_string_triple_quoted,
    PROV,
    XSD_INT,
    XSD_STRING,
)
from prov.identifier import Identifier, Namespace

out = []


def emit(*parts):
    out.append(" | ".join(str(p) for p in parts))


class Capture(logging.Handler):
    def __init__(self):
        super().__init__(level=logging.DEBUG)
        self.records = []

    def emit(self, record):
        self.records.append((record.levelname, record.msg, record.args, record.getMessage()))


cap = Capture()
pm.logger.addHandler(cap)
pm.logger.setLevel(logging.DEBUG)
pm.logger.propagate = False


class Fmt:
    """__format__ differs from __str__ (what %s / str() must keep using)."""

    def __str__(self):
        return "str-of-Fmt"

    def __repr__(self):
        return "repr-of-Fmt"

    def __format__(self, spec):
        return "FORMAT-of-Fmt(%r)" % spec


class StrSub(str):
    def __str__(self):
        return "overridden-" + str.__str__(self)

    def __format__(self, spec):
        return "FORMAT-of-StrSub"


class Colour(enum.IntEnum):
    RED = 1


class Flag(str, enum.Enum):
    A = "a-value"


class MyFloat(float):
    def __repr__(self):
        return "MyFloat!"

    def __str__(self):
        return "MyFloat-str"

    def __format__(self, spec):
        return "MyFloat-format"


class MyDT(datetime.datetime):
    def isoformat(self, *a, **k):
        return StrSub("iso{%s}" % datetime.datetime.isoformat(self))


ex = Namespace("ex", "http://example.org/")
values = [
    "plain", "", "héllo wörld ✓", 'with "quotes"', "back\\slash", 'both \\" mixed', "two\nlines",
    'multi\n"quoted"\n\\n', "\r\n", "percent %s %d %% %(x)s", "braces {0} {} {value!s} }{", "tab\t",
    " ", "'single'", 0, 1, -5, 1.5, float("nan"), float("inf"), -0.0, 1e300, True, False, None,
    ("tu", "ple"), (), ["l"], {"k": 1}, b"bytes", decimal.Decimal("1.10"), fractions.Fraction(1, 3),
    datetime.datetime(2020, 1, 2, 3, 4, 5), datetime.date(2020, 1, 2), Fmt(), StrSub("sub"),
    Colour.RED, Flag.A, MyFloat(2.5), ex["qn"], Identifier("http://example.org/i"), 10 ** 30,
]
datatypes = [
    None, XSD_INT, XSD_STRING, PROV["InternationalizedString"], ex["custom"], "xsd:string",
    "weird %s {0} type", "", 0, Fmt(), StrSub("dt"), Identifier("http://example.org/dt"), ("a", "b"),
]
langtags = [None, "", "en", "fr-CA", "zh-Hant", "ünï", 0, 7, Fmt(), StrSub("de"), ("x",), "%s{}"]


def describe(lit):
    return [
        repr(lit), str(lit), lit.provn_representation(), repr(lit.value), type(lit.value).__name__,
        repr(lit.datatype), repr(lit.langtag), type(lit.langtag).__name__, lit.has_no_langtag(),
        hash(lit) == hash(Literal(lit.value, lit.datatype, lit.langtag)),
    ]


n = 0
for v in values:
    for dt in datatypes:
        for lt in langtags:
            del cap.records[:]
            try:
                lit = Literal(v, dt, lt)
                emit("Literal", n, describe(lit), cap.records)
            except BaseException as exc:  # noqa
                emit("Literal", n, "RAISES", type(exc).__name__, str(exc), cap.records)
            n += 1
emit("combinations", n)

# old call forms: positional / keyword
emit("forms", repr(Literal("v")), repr(Literal("v", XSD_INT)), repr(Literal("v", None, "en")),
     repr(Literal(value="v", datatype=ex["t"])), repr(Literal("v", langtag="en", datatype=XSD_INT)))
emit("eq", Literal("v") == Literal("v"), Literal("v") != Literal("v", XSD_INT), Literal("v") == "v",
     Literal("v", langtag="en") == Literal("v", PROV["InternationalizedString"], "en"),
     len({Literal("a"), Literal("a"), Literal("a", langtag="en")}))
emit("class", Literal.__mro__ == (Literal, object), Literal.__bases__ == (object,), type(Literal) is type,
     hasattr(Literal("x"), "__dict__"), sorted(vars(Literal("x"))))

provn_inputs = values + [
    datetime.datetime(2020, 1, 2, 3, 4, 5, 678, tzinfo=datetime.timezone.utc),
    datetime.datetime(1, 1, 1), MyDT(2021, 5, 6, 7, 8, 9),
    datetime.datetime(2020, 1, 2, tzinfo=datetime.timezone(datetime.timedelta(hours=-5, minutes=-30))),
    1e-7, 1e16, 123456789.123456789, float("-inf"), 2 ** 0.5, 5e-324, Literal("l", langtag="en"),
]
for v in provn_inputs:
    try:
        r = encoding_provn_value(v)
        emit("encoding_provn_value", repr(v), type(r).__name__, repr(r))
    except BaseException as exc:  # noqa
        emit("encoding_provn_value", repr(v), "RAISES", type(exc).__name__, str(exc))
    try:
        r = _ensure_multiline_string_triple_quoted(v)
        emit("_ensure_multiline", repr(v), type(r).__name__, repr(r))
    except BaseException as exc:  # noqa
        emit("_ensure_multiline", repr(v), "RAISES", type(exc).__name__, str(exc))

# through records, bundles and the document's PROV-N
d = ProvDocument()
d.set_default_namespace("http://default.example/")
d.add_namespace("ex", "http://example.org/")
del cap.records[:]
e = d.entity("e", [
    ("ex:s", 'mul\nti "q" \\ ü'), ("ex:f", 1.0), ("ex:f", float("nan")), ("ex:b", True), ("ex:b", False),
    ("ex:d", datetime.datetime(2020, 1, 2, 3, 4, 5, 6)), ("ex:i", 7),
    ("ex:l", Literal("étiquette", langtag="fr")), ("ex:l", Literal("x", ex["custom"])),
    ("ex:l", Literal("wrong", XSD_INT, "en")), ("ex:l", Literal("5", "ex:strtype")),
    ("prov:label", Literal("{braces} %s", langtag="en")),
])
b = d.bundle("ex:b1")
b.entity("e", {"ex:l": Literal("dans le bundle\nligne 2", langtag="fr"), "ex:f": MyFloat(1.25)})
emit("record", e.get_provn())
emit("doc", d.get_provn())
emit("log", cap.records)
for fmt in ("json", "xml", "provn"):
    try:
        emit(fmt, d.serialize(format=fmt))
    except Exception as exc:  # noqa: a str datatype is not serializable to XML (before and after)
        emit(fmt, "RAISES", type(exc).__name__, str(exc))
# the same document without the str-typed literal serializes everywhere
d2 = ProvDocument()
d2.add_namespace("ex", "http://example.org/")
d2.entity("ex:e", [("ex:l", Literal("étiquette\nligne 2", langtag="fr")), ("ex:l", Literal("x", ex["custom"])),
                   ("ex:f", 1.5), ("ex:b", True), ("ex:d", datetime.datetime(2020, 1, 2, 3, 4, 5, 6))])
for fmt in ("json", "xml", "provn", "rdf"):
    try:
        emit(fmt, d2.serialize(format=fmt))
    except Exception as exc:  # noqa
        emit(fmt, "RAISES", type(exc).__name__, str(exc))

text = "\n".join(out)
print(text)
print("DIGEST", hashlib.sha256(text.encode("utf-8")).hexdigest())
