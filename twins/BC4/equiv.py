# Differential script for change 4 (modernised spellings in ProvBundle.__eq__/update and
# ProvDocument.__eq__/update).
import os, sys
if os.environ.get("PYTHONHASHSEED") != "0":
    os.environ["PYTHONHASHSEED"] = "0"
    os.execv(sys.executable, [sys.executable] + sys.argv)

import logging, io
from prov.model import ProvDocument, ProvBundle, ProvException, Namespace, Literal
from prov.constants import PROV_LABEL

log_stream = io.StringIO()
handler = logging.StreamHandler(log_stream)
handler.setFormatter(logging.Formatter("%(name)s|%(levelname)s|%(funcName)s|%(message)s"))
lg = logging.getLogger("prov.model")
lg.addHandler(handler)
lg.setLevel(logging.DEBUG)


def logs():
    v = log_stream.getvalue()
    log_stream.seek(0); log_stream.truncate()
    return v.splitlines()


EX = Namespace("ex", "http://example.org/")


def base(extra=None, bundles=True):
    d = ProvDocument()
    d.add_namespace(EX)
    d.set_default_namespace("http://default.org/")
    d.entity("ex:e1", {"ex:v": "é中", PROV_LABEL: Literal("über", langtag="de")})
    d.entity("ex:e1", {"ex:v": "é中", PROV_LABEL: Literal("über", langtag="de")})   # equal duplicate
    d.entity("e2")
    d.activity("ex:a1", "2020-01-01T00:00:00")
    d.wasGeneratedBy("ex:e1", "ex:a1")
    if extra:
        extra(d)
    if bundles:
        b = d.bundle("ex:b1"); b.entity("ex:x", {"ex:k": 1}); b.entity("ex:x", {"ex:k": 2})
        d.bundle("b2").activity("ex:act")
        d.bundle("ex:empty")
    return d


class SubDoc(ProvDocument):
    pass


class SubBundle(ProvBundle):
    pass


def cmp(label, a, b):
    out = []
    for name, fn in (("a==b", lambda: a == b), ("b==a", lambda: b == a), ("a!=b", lambda: a != b), ("b!=a", lambda: b != a)):
        try:
            out.append((name, fn()))
        except Exception as e:
            out.append((name, "raised %s %s" % (type(e).__name__, e)))
        out.append(tuple(logs()))
    print(label, out)


A = base()
cmp("identical docs", A, base())
cmp("same object", A, A)
cmp("subclass doc", A, SubDoc(records=None))
sd = SubDoc(); sd.update(base())
cmp("subclass doc same content", A, sd)
cmp("extra record", A, base(lambda d: d.entity("ex:more")))
cmp("different attr", A, base(lambda d: d.entity("e2", {"ex:z": 1})))
cmp("no bundles vs bundles", A, base(bundles=False))
cmp("flattened", A, A.flattened())
cmp("unified", A, A.unified())
B = base(); B.bundle("ex:b4")
cmp("one more bundle", A, B)
C = base(bundles=False)
b = C.bundle("ex:b1"); b.entity("ex:x", {"ex:k": 1}); b.entity("ex:x", {"ex:k": 2})
C.bundle("b2").activity("ex:act"); C.bundle("ex:other-empty")
cmp("same count, different bundle id", A, C)
D = base(bundles=False)
b = D.bundle("ex:b1"); b.entity("ex:x", {"ex:k": 1}); b.entity("ex:x", {"ex:k": 3})
D.bundle("b2").activity("ex:act"); D.bundle("ex:empty")
cmp("bundle content differs", A, D)
E = base(bundles=False)
E.bundle("ex:empty"); E.bundle("b2").activity("ex:act")
b = E.bundle(Namespace("other", "http://example.org/")["b1"]); b.entity("ex:x", {"ex:k": 2}); b.entity("ex:x", {"ex:k": 1})
cmp("bundles in other order, other prefix", A, E)
cmp("doc vs None", A, None)
cmp("doc vs str", A, "document")
cmp("doc vs bundle", base(bundles=False), ProvBundle(records=base(bundles=False).records))
cmp("bundle vs bundle", ProvBundle(records=A.records, identifier=EX["i1"]), ProvBundle(records=A.records, identifier=EX["i2"]))
cmp("bundle vs subbundle", ProvBundle(records=A.records), SubBundle(records=A.records))
cmp("bundle vs shorter bundle", ProvBundle(records=A.records), ProvBundle(records=A.records[:-1]))
cmp("bundle vs differing bundle", ProvBundle(records=A.records), ProvBundle(records=base(lambda d: d.agent("ex:ag"), bundles=False).records[1:]))
cmp("empty docs", ProvDocument(), ProvDocument())
cmp("empty doc vs empty bundle", ProvDocument(), ProvBundle())
cmp("doc bundles of A", list(A.bundles)[0], list(base().bundles)[0])
cmp("doc bundles of A (different)", list(A.bundles)[0], list(A.bundles)[1])
print("in list:", A in [None, base()], [base()].index(A), [A, B].count(base()))
try:
    hash(A)
except TypeError as e:
    print("hash:", e)
try:
    hash(ProvBundle())
except TypeError as e:
    print("hash:", e)


class Meta(type):
    def __str__(cls):
        return "<<meta-str %s>>" % cls.__name__
    def __repr__(cls):
        return "<<meta-repr>>"
    def __format__(cls, spec):
        return "<<meta-format>>"
    def __getitem__(cls, k):
        return "<<item>>"


class Odd(metaclass=Meta):
    pass


class OddTuple(tuple):
    pass


def attempt(label, fn):
    try:
        print(label, "->", repr(fn()))
    except Exception as e:
        print(label, "raised", type(e).__name__, "|", str(e), "|", repr(e.args))
    l = logs()
    if l:
        print("   logs", l)


for name, val in (("None", None), ("int", 5), ("str", "ex:b"), ("tuple", ("a", "b")), ("1-tuple", ("a",)),
                  ("tuple subclass", OddTuple(("x",))), ("dict", {"a": 1}), ("list", [A]), ("class", ProvDocument),
                  ("odd metaclass instance", Odd()), ("odd class", Odd), ("record", A.records[0])):
    attempt("doc.update(%s)" % name, lambda: base().update(val))
    attempt("bundle.update(%s)" % name, lambda: ProvBundle().update(val))
    attempt("sub-bundle.update(%s)" % name, lambda: list(base().bundles)[0].update(val))

# the working paths of update
t = ProvDocument(); attempt("doc.update(doc)", lambda: t.update(A)); print(t.get_provn()); print("eq", t == A, logs())
t2 = ProvDocument(); t2.add_namespace(EX); t2.bundle("ex:b1").entity("ex:pre")
attempt("doc.update(doc) merge bundles", lambda: t2.update(A)); print(t2.get_provn())
t3 = ProvBundle(identifier=EX["t3"]); attempt("bundle.update(doc without bundles)", lambda: t3.update(base(bundles=False))); print(t3.get_provn())
attempt("bundle.update(doc with bundles)", lambda: ProvBundle().update(A))
t4 = ProvBundle(); attempt("bundle.update(bundle)", lambda: t4.update(list(A.bundles)[0])); print(t4.get_provn())
t5 = ProvDocument(); attempt("doc.update(bundle)", lambda: t5.update(list(A.bundles)[0])); print(t5.get_provn())
t6 = base(); attempt("doc.update(self)", lambda: t6.update(t6)); print(len(t6.records), [len(b.records) for b in t6.bundles])
