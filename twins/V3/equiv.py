# Differential script for refactoring 3 (ProvBundle._unified_records and its users)
# Namespaces/attributes are kept in sets: pin the string hash seed so that the
# printed order is reproducible from run to run.
import os, sys
if "PYTHONHASHSEED" not in os.environ:
    os.environ["PYTHONHASHSEED"] = "0"
    os.execv(sys.executable, [sys.executable] + sys.argv)
import hashlib, datetime
from prov.model import ProvDocument, ProvBundle, Namespace, Literal, PROV

out = []
def show(label, fn):
    try:
        out.append("%s: OK %r" % (label, fn()))
    except Exception as e:
        out.append("%s: EXC %s %s" % (label, type(e).__name__, e))

def ns_state(b):
    return (sorted((n.prefix, n.uri) for n in b.namespaces), b.default_ns_uri)

def build():
    d = ProvDocument()
    d.add_namespace("ex", "http://example.org/ex/")
    other = Namespace("oth", "http://example.org/other/")
    d.entity("ex:e1", {"ex:a": 1})
    d.activity("ex:a1", datetime.datetime(2021, 5, 6, 7, 8, 9))
    d.entity("ex:e1", {"ex:b": "two", other["q"]: Literal("x", langtag="en")})
    d.entity("ex:e2")
    d.agent("ex:e1", {"ex:c": 3})          # same id, different type
    d.agent("ex:e1", {"ex:d": other["val"]})
    d.wasGeneratedBy("ex:e1", "ex:a1", identifier="ex:g1", other_attributes={"ex:r": 1})
    d.wasGeneratedBy("ex:e1", "ex:a1", identifier="ex:g1", other_attributes={"ex:r": 2})
    d.wasGeneratedBy("ex:e2", "ex:a1")     # no identifier
    d.wasGeneratedBy("ex:e2", "ex:a1")     # no identifier, duplicate
    d.entity("ex:e1", {"ex:a": 1})
    d.activity("ex:a1", None, datetime.datetime(2022, 1, 1))
    b = d.bundle("ex:b1")
    b.add_namespace("in", "http://example.org/in/")
    b.entity("in:x", {"in:k": "é"})
    b.entity("in:x", {"in:k": "ü"})
    b.entity("ex:e1")
    b2 = d.bundle("ex:b2")
    b2.entity("ex:only")
    return d

d = build()
before = (ns_state(d), [ns_state(b) for b in d.bundles])
show("_unified_records provn", lambda: [r.get_provn() for r in d._unified_records()])
show("_unified_records types", lambda: [type(r).__name__ for r in d._unified_records()])
show("unmerged identity", lambda: [r in d._records and any(r is x for x in d._records) for r in d._unified_records()])
show("merged bundle owner", lambda: [(r.bundle is d, r.bundle.identifier, type(r.bundle).__name__) for r in d._unified_records()])
show("ns unchanged", lambda: before == (ns_state(d), [ns_state(b) for b in d.bundles]))
show("unified doc provn", lambda: d.unified().get_provn())
show("unified doc json", lambda: d.unified().serialize(format="json"))
show("unified ns", lambda: (ns_state(d.unified()), [ns_state(b) for b in d.unified().bundles]))
show("bundle unified", lambda: [(b.unified().get_provn(), ns_state(b.unified()), b.unified().identifier) for b in d.bundles])
show("bundle _unified_records", lambda: [[r.get_provn() for r in b._unified_records()] for b in d.bundles])
show("original untouched", lambda: d.get_provn())

# no merging: a fresh list with the same objects
n = ProvDocument(); n.add_namespace("ex", "http://example.org/ex/"); n.entity("ex:a"); n.agent("ex:a"); n.wasGeneratedBy("ex:a", None)
show("no merge", lambda: (n._unified_records() is not n._records, n._unified_records() == n._records, all(x is y for x, y in zip(n._unified_records(), n._records))))
show("empty", lambda: (ProvDocument()._unified_records(), ProvBundle()._unified_records(), ProvDocument().unified().get_provn()))
show("empty bundle unified", lambda: ProvBundle(identifier="q").unified().get_provn())

# three-way merge with conflicting activity times
t = ProvDocument(); t.set_default_namespace("http://d/")
t.activity("a", datetime.datetime(2020, 1, 1)); t.activity("a", datetime.datetime(2020, 1, 2)); t.activity("a", None, datetime.datetime(2020, 1, 3))
show("conflicting times", lambda: [r.get_provn() for r in t._unified_records()])
show("conflicting times unified", lambda: t.unified().get_provn())
show("default ns kept", lambda: ns_state(t.unified()))

# helper-independent: order of first occurrence
o = ProvDocument(); o.add_namespace("ex", "http://example.org/ex/")
for name in ["z", "y", "z", "x", "y", "w", "z"]:
    o.entity("ex:" + name, {"ex:i": name + str(len(o._records))})
show("order", lambda: [r.get_provn() for r in o._unified_records()])
show("flattened+unified", lambda: d.flattened().unified().get_provn())

text = "\n".join(out)
print(text)
print("DIGEST", hashlib.sha256(text.encode("utf-8")).hexdigest())
