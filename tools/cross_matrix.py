#!/venv/bin/python
"""Detection must survive refactoring: for every benign twin T and every must-fire self-test variant V that edits a file T
also touches (and whose anchor text is still present after T), apply both to a scratch copy and require V's rule to fire.
Also requires every benign self-test twin to stay silent on top of T."""
import json, os, re, subprocess, sys, tempfile, shutil
from concurrent.futures import ProcessPoolExecutor
V = os.path.dirname(os.path.dirname(os.path.abspath(__file__)))
sys.path.insert(0, V)
from sa.selftest_variants import VARIANTS
from sa.selftest import FILES, copy_tree

def touched(patch):
    return set(re.findall(r"^\+\+\+ b/(\S+)", open(patch).read(), re.M))

def job(args):
    tname, v = args
    base = tempfile.mkdtemp(prefix="cross.")
    try:
        wt = os.path.join(base, "wt")
        copy_tree("/repo", wt)
        try:
            if subprocess.run(["git", "apply", "--include=src/prov/*", "--include=scripts/*", os.path.join(V, "twins", tname, "patch.diff")], cwd=wt, capture_output=True).returncode != 0:
                return tname, v["name"], "twin-noapply", ""
            for fkey, old, new in v["edits"]:
                p = os.path.join(wt, FILES[fkey])
                text = open(p, encoding="utf-8").read()
                if old not in text:
                    return tname, v["name"], "inapplicable", ""
                text = text.replace(old, new, 1)
                try:
                    compile(text, p, "exec")
                except SyntaxError:
                    return tname, v["name"], "inapplicable", ""
                open(p, "w", encoding="utf-8").write(text)
            r = subprocess.run(["/venv/bin/python", "-m", "sa.check", v["prop"], "--repo", wt, "--evidence-dir", os.path.join(base, "ev")], cwd=V, capture_output=True, text=True)
            fired = [l.split(" ", 2)[1] for l in r.stdout.splitlines() if l.startswith("FINDING ")]
            rules = {k.split("|")[0] for k in fired}
            if v["kind"] == "fire":
                if r.returncode == 2:
                    return tname, v["name"], "analysis-error", (r.stdout.splitlines() or [""])[-1][:160]
                ok = any(v["rule"] is None or k == v["rule"] or k.startswith(v["rule"]) for k in rules) if fired else False
                return tname, v["name"], "ok" if ok else "MISSED", ",".join(sorted(rules))
            else:
                if r.returncode == 2:
                    return tname, v["name"], "analysis-error", (r.stdout.splitlines() or [""])[-1][:160]
                return tname, v["name"], "ok" if r.returncode == 0 else "FALSE-ALARM", ",".join(sorted(fired))[:160]
        finally:
            pass
    finally:
        shutil.rmtree(base, ignore_errors=True)

twins = sorted(d for d in os.listdir(os.path.join(V, "twins")) if os.path.isfile(os.path.join(V, "twins", d, "patch.diff")))
if len(sys.argv) > 1:
    twins = [t for t in twins if t in sys.argv[1:]]
jobs = []
for t in twins:
    files = touched(os.path.join(V, "twins", t, "patch.diff"))
    for v in VARIANTS:
        if any(FILES[f] in files for f, _, _ in v["edits"]):
            jobs.append((t, v))
print("jobs:", len(jobs))
with ProcessPoolExecutor(14) as ex:
    results = list(ex.map(job, jobs, chunksize=4))
summ = {}
for t, vn, st, det in results:
    summ[st] = summ.get(st, 0) + 1
    if st not in ("ok", "inapplicable"):
        print("%-4s %-40s %-15s %s" % (t, vn, st, det))
print(summ)
json.dump(results, open(os.path.join(V, "twins", "CROSS.json"), "w"), indent=0)
