#!/bin/bash
# For every "fixed:" entry of KNOWN_FINDINGS.txt: revert that commit alone on a scratch worktree of /repo HEAD and run the
# property's check there: it must report a violation again (exit 1).  usage: tools/revert_matrix.sh
cd /verif
grep "^fixed:" KNOWN_FINDINGS.txt | awk '{print $2, $3}' | sed 's/property=//' | while read P C; do
  WT=/tmp/revert.$C
  git -C /repo worktree add -q --detach $WT HEAD 2>/dev/null || { echo "$P $C worktree-failed"; continue; }
  if git -C $WT revert --no-commit $C >/dev/null 2>&1; then st=reverted; else st=CONFLICT; fi
  if [ $st = reverted ]; then
    out=$(/venv/bin/python -m sa.check $P --repo $WT --evidence-dir /tmp/ev.rev.$C 2>&1); rc=$?
    rules=$(echo "$out" | grep -E "^FINDING" | sed -E 's/^FINDING ([^| ]+).*/\1/' | sort -u | tr '\n' ' ')
    echo "$P $C rc=$rc findings: $rules"
  else
    echo "$P $C revert does not apply cleanly (later fixes touch the same lines)"
  fi
  git -C /repo worktree remove --force $WT; rm -rf /tmp/ev.rev.$C
done
