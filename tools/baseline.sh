#!/bin/sh
# Runs the repository's pinned test command (guard OFF - there are no hooks) and
# compares the passing set with /root/.vp/BASELINE.json stable_pass.
# usage: tools/baseline.sh [repo-dir]
REPO="${1:-/repo}"
OUT="$(mktemp -d)"
cd "$REPO" || exit 2
PYTHONPATH="$REPO/src" /venv/bin/python -m pytest -q -p no:cacheprovider -n 16 --timeout=900 \
   --continue-on-collection-errors --junitxml="$OUT/junit.xml" >"$OUT/log" 2>&1
/venv/bin/python - "$OUT/junit.xml" <<'PY'
import json,sys,xml.etree.ElementTree as ET
base=set(json.load(open('/root/.vp/BASELINE.json'))['stable_pass'])
t=ET.parse(sys.argv[1]); ok=set()
for tc in t.iter('testcase'):
    bad=[c for c in tc if c.tag in('failure','error','skipped')]
    if not bad: ok.add(tc.get('classname')+'::'+tc.get('name'))
missing=sorted(base-ok)
print('baseline stable_pass=%d  passing now=%d  missing=%d'%(len(base),len(ok),len(missing)))
for m in missing[:20]: print('  MISSING',m)
sys.exit(1 if missing else 0)
PY
rc=$?
rm -rf "$OUT"
exit $rc
