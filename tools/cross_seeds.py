#!/venv/bin/python
"""Detection must survive refactoring, second form: for every benign twin T and every confirmed seeded change S touching a file
T also touches, apply T then S (3-way where the hunks still apply) to a scratch copy and require the check of S's own
property to report an unlisted finding.  Combinations whose second patch no longer applies are `inapplicable`."""
import json, os, re, subprocess, sys, tempfile, shutil
from concurrent.futures import ProcessPoolExecutor
V = os.path.dirname(os.path.dirname(os.path.abspath(__file__)))
sys.path.insert(0, V)
from sa.selftest import copy_tree
from sa.report import load_known

def touched(patch):
    return set(re.findall(r"^\+\+\+ b/(\S+)", open(patch).read(), re.M))

def job(args):
    t, s, prop = args
    base = tempfile.mkdtemp(prefix="xseed.")
    try:
        wt = os.path.join(base, "wt")
        copy_tree("/repo", wt)
        for kind, name in (("twins", t), ("seeded", s)):
            r = subprocess.run(["git", "apply", "--include=src/prov/*", "--include=scripts/*", os.path.join(V, kind, name, "patch.diff")], cwd=wt, capture_output=True)
            if r.returncode != 0:
                return t, s, "inapplicable", kind
        r = subprocess.run(["/venv/bin/python", "-m", "sa.check", prop, "--repo", wt, "--evidence-dir", os.path.join(base, "ev")], cwd=V, capture_output=True, text=True)
        if r.returncode == 2:
            return t, s, "analysis-error", (r.stdout.splitlines() or [""])[-1][:160]
        known = load_known()[0].get(prop, {})
        fired = [l.split(" ", 2)[1] for l in r.stdout.splitlines() if l.startswith("FINDING ")]
        fired = [k for k in fired if k not in known]
        return t, s, ("ok" if fired else "MISSED"), ",".join(sorted({k.split("|")[0] for k in fired}))
    finally:
        shutil.rmtree(base, ignore_errors=True)

mx = json.load(open(os.path.join(V, "seeded", "MATRIX.json")))
twins = sorted(d for d in os.listdir(os.path.join(V, "twins")) if os.path.isfile(os.path.join(V, "twins", d, "patch.diff")))
jobs = []
for s in sorted(os.listdir(os.path.join(V, "seeded"))):
    p = os.path.join(V, "seeded", s, "patch.diff")
    if not os.path.isfile(p):
        continue
    prop = s[:3]
    meta = json.load(open(os.path.join(V, "seeded", s, "meta.json")))
    if not meta.get("detection", {}).get("detected_by_own_property_check"):
        continue
    fs = touched(p)
    for t in twins:
        if fs & touched(os.path.join(V, "twins", t, "patch.diff")):
            jobs.append((t, s, prop))
print("jobs:", len(jobs))
with ProcessPoolExecutor(14) as ex:
    results = list(ex.map(job, jobs, chunksize=4))
summ = {}
for t, s, st, det in results:
    summ[st] = summ.get(st, 0) + 1
    if st not in ("ok", "inapplicable"):
        print("%-4s %-6s %-15s %s" % (t, s, st, det))
print(summ)
json.dump(results, open(os.path.join(V, "twins", "CROSS_SEEDS.json"), "w"), indent=0)
