#!/venv/bin/python
"""Regenerates /verif/MANIFEST.json from the rule registry (so that it is valid at all times)."""
import json, os, sys
sys.path.insert(0, os.path.dirname(os.path.dirname(os.path.abspath(__file__))))
from sa.rules import all_rules
from sa.rules import explain

reg = all_rules()
props = [json.loads(l) for l in open(os.path.join(os.path.dirname(__file__), "..", "properties.jsonl"))]
checks, na = [], []
for p in props:
    pid = p["id"]
    if pid in reg and reg[pid]["rules"] and pid not in explain.NOT_APPLICABLE:
        rules = reg[pid]["rules"]
        fams = sorted({r.family for r in rules if r.family})
        checks.append({
            "property_id": pid,
            "quick_cmd": "/venv/bin/python -m sa.check %s --tier quick" % pid,
            "thorough_cmd": "/venv/bin/python -m sa.check %s --tier thorough" % pid,
            "evidence_file": "/verif/evidence/%s.json" % pid,
            "replay_cmd_template": "/venv/bin/python -m sa.check %s --replay {path}" % pid,
            "engine": "sa",
            "level_claimed": {
                "category": "other",
                "text": explain.LEVEL_TEXT.get(pid, "") or ("Static analysis (no execution): %d rules decide structural necessary conditions of the property for all inputs/histories at once; the behavioural core is not decided." % len(rules)),
                "design_ref": "DESIGN.md section 4, %s" % pid,
            },
            "level_note": explain.LEVEL_NOTE.get(pid, "") or "Decides the listed structural clauses only; assumes no monkey-patching, the external-library signature table, the spec tables under sa/spec and the declared immutable value classes.",
            "technique": "static analysis over ast: " + ", ".join(fams) + " (" + "; ".join(r.id for r in rules) + ")",
        })
    else:
        na.append({"property_id": pid, "reason": explain.NOT_APPLICABLE.get(pid, "no static rule built yet for this property (work in progress; see DESIGN.md section 4)")})
man = {
    "version": 1,
    "setup_cmd": "true",
    "hooks": {"guard": "TRUNGDONG_PROV_VERIF", "enable": "none needed: the checks parse /repo's working tree and never execute it; no hook commits exist",
              "baseline_off_cmd": "/verif/tools/baseline.sh /repo", "source_commits": [], "add_only": True},
    "engines": [{"name": "sa", "path": "/verif/sa", "serves_properties": [c["property_id"] for c in checks],
                 "kind_free_text": "repository-specific static analyser on Python's ast: program model with class-set call resolution, symbolic constant folder, statement CFG with dominators, effect/ownership summaries, kind-dispatch and boolean-formula extraction, typestate and taint with sink contexts; prov is never imported or run"}],
    "checks": checks,
    "not_applicable": na,
    "notes": "All checks: exit 0 = every armed rule holds (KNOWN-FINDING lines for /verif/KNOWN_FINDINGS.txt entries); exit 1 + VIOLATION line = unlisted violation; exit 2 + ANALYSIS-ERROR = the tree cannot be interpreted (never a verdict). Thorough tier adds the whole-API audit and the checker self-test on scratch copies.",
}
json.dump(man, open(os.path.join(os.path.dirname(__file__), "..", "MANIFEST.json"), "w"), indent=1)
print("checks:", [c["property_id"] for c in checks]); print("not_applicable:", [n["property_id"] for n in na])
