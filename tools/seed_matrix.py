#!/venv/bin/python
"""Applies every seeded change (seeded/<name>/patch.diff) to its own scratch worktree of /repo HEAD, runs all checks on it
(quick tier) and records which properties report a violation.  Writes seeded/<name>/meta.json (detection part) and prints a matrix.
Scratch worktrees live under a fresh temp dir and are removed."""
import json, os, subprocess, sys, tempfile, shutil
from concurrent.futures import ThreadPoolExecutor
V = os.path.dirname(os.path.dirname(os.path.abspath(__file__)))
props = [json.loads(l)["id"] for l in open(os.path.join(V, "properties.jsonl"))]
seeds = sorted(d for d in os.listdir(os.path.join(V, "seeded")) if os.path.isfile(os.path.join(V, "seeded", d, "patch.diff")))
if len(sys.argv) > 1:
    seeds = [s for s in seeds if s in sys.argv[1:]]
base = tempfile.mkdtemp(prefix="seedmx.")

def run(seed):
    wt = os.path.join(base, seed)
    subprocess.run(["git", "-C", "/repo", "worktree", "add", "-q", "--detach", wt, "HEAD"], check=True)
    ap = subprocess.run(["git", "-C", wt, "apply", os.path.join(V, "seeded", seed, "patch.diff")], capture_output=True, text=True)
    out = {"applies": ap.returncode == 0, "fired": {}, "errors": {}}
    if ap.returncode == 0:
        for p in props:
            r = subprocess.run(["/venv/bin/python", "-m", "sa.check", p, "--repo", wt, "--evidence-dir", os.path.join(base, "ev." + seed)], cwd=V, capture_output=True, text=True)
            keys = [l.split(" ", 2)[1] for l in r.stdout.splitlines() if l.startswith("FINDING ")]
            if r.returncode == 1:
                out["fired"][p] = keys
            elif r.returncode == 2:
                out["errors"][p] = [l for l in r.stdout.splitlines() if l.startswith("ANALYSIS-ERROR")][:1]
    subprocess.run(["git", "-C", "/repo", "worktree", "remove", "--force", wt])
    return seed, out

with ThreadPoolExecutor(8) as ex:
    results = dict(ex.map(run, seeds))
shutil.rmtree(base, ignore_errors=True)
json.dump(results, open(os.path.join(V, "seeded", "MATRIX.json"), "w"), indent=1, sort_keys=True)
for s in seeds:
    r = results[s]
    own = s[:3]
    tag = "MISS" if not r["fired"] else ("own" if own in r["fired"] else "other")
    if os.path.isfile(os.path.join(V, "seeded", s, "SUPERSEDED.md")):
        tag = "SUPERSEDED"
    print("%-5s applies=%s %-5s fired=%s errors=%s" % (s, r["applies"], tag, {k: len(v) for k, v in r["fired"].items()}, list(r["errors"])))
