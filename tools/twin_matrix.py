#!/venv/bin/python
"""Applies every benign refactoring (twins/<name>/patch.diff) to a scratch worktree of /repo HEAD and runs all checks:
every check must stay silent (exit 0).  Prints false alarms (exit 1) and analysis errors (exit 2)."""
import json, os, subprocess, sys, tempfile, shutil
from concurrent.futures import ThreadPoolExecutor
V = os.path.dirname(os.path.dirname(os.path.abspath(__file__)))
props = [json.loads(l)["id"] for l in open(os.path.join(V, "properties.jsonl"))]
names = sorted(d for d in os.listdir(os.path.join(V, "twins")) if os.path.isfile(os.path.join(V, "twins", d, "patch.diff")))
if len(sys.argv) > 1:
    names = [s for s in names if s in sys.argv[1:]]
base = tempfile.mkdtemp(prefix="twinmx.")

def run(name):
    wt = os.path.join(base, name)
    subprocess.run(["git", "-C", "/repo", "worktree", "add", "-q", "--detach", wt, "HEAD"], check=True)
    ap = subprocess.run(["git", "-C", wt, "apply", os.path.join(V, "twins", name, "patch.diff")], capture_output=True, text=True)
    out = {"applies": ap.returncode == 0, "fired": {}, "errors": {}}
    if ap.returncode == 0:
        for p in props:
            r = subprocess.run(["/venv/bin/python", "-m", "sa.check", p, "--repo", wt, "--evidence-dir", os.path.join(base, "ev." + name)], cwd=V, capture_output=True, text=True)
            if r.returncode == 1:
                out["fired"][p] = [l[:300] for l in r.stdout.splitlines() if l.startswith("FINDING ")]
            elif r.returncode == 2:
                out["errors"][p] = [l[:300] for l in r.stdout.splitlines() if l.startswith("ANALYSIS-ERROR")][:1]
    subprocess.run(["git", "-C", "/repo", "worktree", "remove", "--force", wt])
    return name, out

with ThreadPoolExecutor(8) as ex:
    results = dict(ex.map(run, names))
shutil.rmtree(base, ignore_errors=True)
json.dump(results, open(os.path.join(V, "twins", "MATRIX.json"), "w"), indent=1, sort_keys=True)
bad = 0
for n in names:
    r = results[n]
    st = "silent" if r["applies"] and not r["fired"] and not r["errors"] else ("NOAPPLY" if not r["applies"] else "ALARM")
    if st != "silent":
        bad += 1
    print("%-5s %s" % (n, st))
    for p, ls in list(r["fired"].items()) + list(r["errors"].items()):
        for l in ls:
            print("      [%s] %s" % (p, l[:260]))
print("twins: %d, not silent: %d" % (len(names), bad))
