#!/bin/bash
# usage: take_seed.sh <round-dir> <Cxx> <letters...>   e.g. take_seed.sh /tmp/seed3 C02 e f
# copies the agent's deliverables into seeded/, confirms each in the agent's scratch worktree (sequentially), runs all checks on it
R=$1; ID=$2; shift 2
for x in "$@"; do
  mkdir -p /verif/seeded/$ID$x; cp $R/out/$ID/$x/* /verif/seeded/$ID$x/
  /verif/tools/verify_seed.sh $ID $x $R/out $R | tee -a $R/verify.log
done
cd /verif && /venv/bin/python tools/seed_matrix.py $(for x in "$@"; do echo $ID$x; done) 2>&1 | grep "applies="
