#!/bin/bash
# usage: verify_seed.sh <Cxx> <a|b> [outdir=/tmp/seed/out]   - confirms a seeded change in the scratch worktree /tmp/seed/<Cxx>
# prints one line: <id>/<x> apply=ok demo_clean=PASS demo_mut=FAIL baseline=ok
ID=$1; X=$2; OUT=${3:-/tmp/seed/out}; BASE=${4:-/tmp/seed}; WT=$BASE/$ID; D=$OUT/$ID/$X
cd $WT || exit 2
git checkout -q -- . ; git clean -fdq
run_demo() { (cd $WT && PYTHONPATH=$WT/src timeout 600 /venv/bin/python $D/demo.py >$BASE/log.$ID.$X.$1 2>&1; echo $?); }
c=$(run_demo clean)
if git apply --check $D/patch.diff 2>/dev/null; then git apply $D/patch.diff; ap=ok; else ap=FAIL; fi
m=$(run_demo mut)
sed -i 's/-n 16/-n 5/' $BASE/baseline.sh 2>/dev/null
if $BASE/baseline.sh $WT >$BASE/log.$ID.$X.base 2>&1; then b=ok; else b=FAIL; fi
git checkout -q -- . ; git clean -fdq; find $WT -name __pycache__ -type d -prune -exec rm -rf {} + 2>/dev/null
echo "$ID/$X apply=$ap demo_clean_rc=$c demo_mut_rc=$m baseline=$b"
