#!/venv/bin/python
"""Regenerates the generated appendices of DESIGN.md (rule index as built; seeded-change detection matrix)."""
import json, os, re, subprocess, sys
V = os.path.dirname(os.path.dirname(os.path.abspath(__file__)))
sys.path.insert(0, V)
from sa.rules import all_rules
reg = all_rules()
lines = ["| rule | family | floor | title | decides |", "|---|---|---|---|---|"]
for prop in sorted(reg):
    for r in reg[prop]["rules"]:
        lines.append("| %s | %s | %d | %s | %s |" % (r.id, r.family, r.floor, r.title.replace("|", "/"), (r.decides or "").replace("|", "/")))
rules_md = "\n".join(lines)
mx = json.load(open(os.path.join(V, "seeded", "MATRIX.json")))
ml = ["| seeded change | breaks | needs (abridged) | reported by (rule keys abridged) |", "|---|---|---|---|"]
for name in sorted(mx):
    meta = json.load(open(os.path.join(V, "seeded", name, "meta.json")))
    needs = meta["what_it_needs_to_manifest"][:160].replace("|", "/")
    fired = mx[name]["fired"]
    rep = "; ".join("%s: %s" % (p, ", ".join(sorted({k.split("|")[0] for k in ks}))) for p, ks in sorted(fired.items())) or "**not detected**"
    if meta.get("superseded"):
        rep = "superseded: no longer a breaking change on the repaired tree (see seeded/%s/SUPERSEDED.md)" % name
    if not fired and os.path.exists(os.path.join(V, "seeded", name, "DECLINED.md")):
        rep = "**not detected - declined** (see seeded/%s/DECLINED.md and section 12.3)" % name
    ml.append("| %s | %s | %s | %s |" % (name, name[:3], needs, rep))
seeds_md = "\n".join(ml)
p = os.path.join(V, "DESIGN.md")
s = open(p, encoding="utf-8").read()
for tag, body in (("rules", rules_md), ("seeds", seeds_md)):
    a, b = "<!-- BEGIN GENERATED:%s -->" % tag, "<!-- END GENERATED:%s -->" % tag
    if a in s:
        s = s[: s.index(a) + len(a)] + "\n" + body + "\n" + s[s.index(b):]
    else:
        print("marker missing:", tag)
open(p, "w", encoding="utf-8").write(s)
print("rules:", len(lines) - 2, "seeds:", len(ml) - 2)
