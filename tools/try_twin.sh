#!/bin/bash
# usage: try_twin.sh <twin-name> [props...]
S=$1; shift; WT=/tmp/trytwin.$$
git -C /repo worktree add -q --detach $WT HEAD || exit 2
git -C $WT apply /verif/twins/$S/patch.diff || echo APPLY-FAILED
PROPS=${@:-C01 C02 C03 C04 C05 C06 C07 C08 C09 C10 C11 C12 C13 C14 C15 C16 C17 C18}
for p in $PROPS; do (cd /verif && /venv/bin/python -m sa.check $p --repo $WT --evidence-dir /tmp/ev.$$ 2>&1 | grep -E '^FINDING|^ANALYSIS' | sed "s/^/[$S $p] /" | cut -c1-260); done
git -C /repo worktree remove --force $WT; rm -rf /tmp/ev.$$
