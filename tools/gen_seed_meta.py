#!/venv/bin/python
"""Writes seeded/<name>/meta.json from note.md, the confirmation log and seeded/MATRIX.json."""
import json, os, re
V = os.path.dirname(os.path.dirname(os.path.abspath(__file__)))
mx = json.load(open(os.path.join(V, "seeded", "MATRIX.json")))
for name in sorted(os.listdir(os.path.join(V, "seeded"))):
    d = os.path.join(V, "seeded", name)
    if not os.path.isfile(os.path.join(d, "patch.diff")):
        continue
    note = open(os.path.join(d, "note.md"), encoding="utf-8").read() if os.path.isfile(os.path.join(d, "note.md")) else ""
    files = sorted(set(re.findall(r"^\+\+\+ b/(\S+)", open(os.path.join(d, "patch.diff")).read(), re.M)))
    m = mx.get(name, {})
    meta = {
        "seed": name,
        "property_broken": name[:3],
        "round": {"a": 1, "b": 1, "c": 2, "d": 2, "e": 3, "f": 3, "g": 4, "h": 4, "i": 5, "j": 5, "k": 6, "l": 6, "m": 6}.get(name[3], 7),
        "superseded": (open(os.path.join(d, "SUPERSEDED.md"), encoding="utf-8").read() if os.path.isfile(os.path.join(d, "SUPERSEDED.md")) else None),
        "files_changed": files,
        "what_it_needs_to_manifest": " ".join(note.split())[:900],
        "confirmed_by_me": {
            "commands": [
                "git -C <scratch worktree of /repo HEAD> apply seeded/%s/patch.diff" % name,
                "PYTHONPATH=<wt>/src /venv/bin/python seeded/%s/demo.py   # exit 0 'PASS' on the unchanged tree, exit 1 'FAIL: ...' with the change" % name,
                "tools/baseline.sh <wt>   # 939/939 baseline tests still pass with the change (missing=0)",
            ],
            "result": "demo PASS on clean, FAIL with the change; baseline missing=0 (tools/verify_seed.sh)",
        },
        "detection": {
            "checks_that_report_it": m.get("fired", {}),
            "analysis_errors": m.get("errors", {}),
            "detected": bool(m.get("fired")),
            "detected_by_own_property_check": name[:3] in m.get("fired", {}),
        },
    }
    json.dump(meta, open(os.path.join(d, "meta.json"), "w"), indent=1)
print("ok")
