"""Shared analysis context: program model, folder, spec tables, common slots."""
from __future__ import annotations

import ast
import json
import os
from typing import Any, Dict, Iterable, List, Optional, Tuple

from .fold import (ClassRef, Ext, ExtCall, Folder, FuncRef, NS, QN, is_unknown)
from .loader import AnalysisError, FuncInfo, Program, dotted, norm

SPEC_DIR = os.path.join(os.path.dirname(os.path.abspath(__file__)), "spec")

M = "prov.model"
C = "prov.constants"
JS = "prov.serializers.provjson"
XM = "prov.serializers.provxml"
RD = "prov.serializers.provrdf"
PN = "prov.serializers.provn"
DOT = "prov.dot"
GR = "prov.graph"


class Ctx:
    def __init__(self, repo="/repo", tier="quick"):
        self.repo = repo
        self.tier = tier
        self.p = Program(repo)
        self.f = Folder(self.p)
        self._spec: Dict[str, Any] = {}
        self._cache: Dict[str, Any] = {}

    # ---------------------------------------------------------------- spec
    def spec(self, name):
        if name not in self._spec:
            with open(os.path.join(SPEC_DIR, name + ".json"), encoding="utf-8") as fh:
                self._spec[name] = json.load(fh)
        return self._spec[name]

    # ---------------------------------------------------------------- folded constants
    def const(self, modname: str, name: str):
        """Folded module-level value; AnalysisError if the anchor vanished or does not fold."""
        env = self.f.module_env(modname)
        if name in env:
            v = env[name]
        else:
            v = self.f.lookup(modname, name)
        if is_unknown(v):
            raise AnalysisError("cannot fold %s.%s (%s)" % (modname, name, getattr(v, "why", "")))
        self.require_folded(v, "%s.%s" % (modname, name))
        return v

    def require_folded(self, v, what):
        if is_unknown(v):
            raise AnalysisError("cannot fold %s (%s)" % (what, v.why))
        if isinstance(v, dict):
            for k, x in v.items():
                if is_unknown(k) or is_unknown(x):
                    raise AnalysisError("cannot fold a cell of %s: %r -> %r" % (what, k, x))
        elif isinstance(v, (list, tuple, set, frozenset)):
            for x in v:
                if is_unknown(x):
                    raise AnalysisError("cannot fold an element of %s" % what)
        return v

    def registry_table(self):
        """Folded Registry.serializers: the assignment may sit in Registry.load_serializers or in a function it delegates to."""
        if "registry" in self._cache:
            return self._cache["registry"]
        mod = "prov.serializers"
        for q, fi in self.p.functions.items():
            if fi.module == mod and any(isinstance(n, ast.Assign) and any(isinstance(t, ast.Attribute) and t.attr == "serializers" for t in n.targets) for n in walk_function(fi.node)):
                self.fenv(q)
        reg = self.f.class_attr(mod + ".Registry", "serializers")
        if not isinstance(reg, dict) or not reg:
            raise AnalysisError("cannot fold Registry.serializers")
        self._cache["registry"] = reg
        return reg

    def prov_ns(self) -> NS:
        v = self.const(C, "PROV")
        if not isinstance(v, NS):
            raise AnalysisError("prov.constants.PROV is not a Namespace")
        return v

    def rec_cls(self) -> Dict[QN, str]:
        """PROV_REC_CLS folded: record type QN -> class qualname."""
        d = self.const(M, "PROV_REC_CLS")
        out = {}
        for k, v in d.items():
            if not isinstance(k, QN) or not isinstance(v, ClassRef):
                raise AnalysisError("PROV_REC_CLS cell not (QualifiedName -> class): %r -> %r" % (k, v))
            out[k] = v.qual
        return out

    def formal_attributes(self, cls_qual: str) -> Tuple[QN, ...]:
        v = self.f.class_attr(cls_qual, "FORMAL_ATTRIBUTES")
        self.require_folded(v, cls_qual + ".FORMAL_ATTRIBUTES")
        if not isinstance(v, (tuple, list)) or not all(isinstance(x, QN) for x in v):
            raise AnalysisError("%s.FORMAL_ATTRIBUTES is not a tuple of qualified names" % cls_qual)
        return tuple(v)

    def type_field(self) -> str:
        """Name of the class attribute ProvRecord.get_type() returns (discovered)."""
        if "type_field" not in self._cache:
            inv = {v: k for k, v in self.field_aliases(M + ".ProvRecord").items()}
            if "type" not in inv:
                raise AnalysisError("anchor vanished: ProvRecord.get_type() does not return a class attribute")
            self._cache["type_field"] = inv["type"]
        return self._cache["type_field"]

    def prov_type_of_class(self, cls_qual: str) -> Optional[QN]:
        v = self.f.class_attr(cls_qual, self.type_field())
        return v if isinstance(v, QN) else None

    # ---------------------------------------------------------------- function-level helpers
    def fn(self, qual: str) -> FuncInfo:
        return self.p.func(qual)

    def fenv(self, qual: str) -> dict:
        k = "fenv:" + qual
        if k not in self._cache:
            self._cache[k] = self.f.function_env(qual)
        return self._cache[k]

    def eval_in(self, qual: str, expr, extra: Optional[dict] = None):
        fi = self.fn(qual)
        env = dict(self.fenv(qual))
        # parameters / loop variables must never fold to an outer constant of the same name
        for n in local_names(fi.node):
            if n not in self.fenv(qual) or is_unknown(env.get(n)):
                env[n] = self._unknown_local(n)
        if extra:
            env.update(extra)
        return self.f.eval(expr, fi.module, env)

    @staticmethod
    def _unknown_local(n):
        from .fold import unk

        return unk("local %s" % n)

    def helper_closure(self, qual: str, depth: int = 2):
        """qual plus the repository functions it calls by plain name / self.method / nested def, transitively up to `depth`
        (so that extracting a block into a private helper does not hide it from a rule anchored on the caller)."""
        k = "closure:%s:%d" % (qual, depth)
        if k in self._cache:
            return self._cache[k]
        out, frontier = [qual], [qual]
        for _ in range(depth):
            nxt = []
            for q in frontier:
                fi = self.p.functions.get(q)
                if fi is None or isinstance(fi.node, ast.Lambda):
                    continue
                for c in calls_in(fi.node):
                    cand = None
                    if isinstance(c.func, ast.Name):
                        cur = q
                        while cur and cand is None:
                            n2 = "%s.<locals>.%s" % (cur, c.func.id)
                            if n2 in self.p.functions:
                                cand = n2
                            cur = self.p.functions[cur].parent
                        if cand is None:
                            r = self.p.resolve_name(fi.module, c.func.id)
                            if r and r[0] == "func":
                                cand = r[1]
                    elif isinstance(c.func, ast.Attribute) and isinstance(c.func.value, ast.Name) and c.func.value.id in ("self", "cls") and fi.cls:
                        cand = self.p.lookup_method(fi.cls, c.func.attr)
                    if cand and cand not in out and self.p.functions[cand].module == fi.module:
                        out.append(cand)
                        nxt.append(cand)
                # functions that are only *referenced* (handler tables): by name, or through a folded module-level table
                for n in walk_function(fi.node):
                    if isinstance(n, ast.Name) and isinstance(n.ctx, ast.Load) and n.id not in local_names(fi.node):
                        r = self.p.resolve_name(fi.module, n.id)
                        refs = []
                        if r and r[0] == "func":
                            refs.append(r[1])
                        elif r and r[0] == "var":
                            try:
                                v = self.f.module_env(r[1]).get(r[2])
                            except AnalysisError:
                                v = None
                            refs += list(_funcrefs_in(v))
                        for cand in refs:
                            if cand in self.p.functions and cand not in out and self.p.functions[cand].module == fi.module:
                                out.append(cand)
                                nxt.append(cand)
                # local handler tables: {key: func, ...} literals
                for n in walk_function(fi.node):
                    if isinstance(n, (ast.Dict, ast.Tuple, ast.List)):
                        for e in (n.values if isinstance(n, ast.Dict) else n.elts):
                            if isinstance(e, ast.Name):
                                r = self.p.resolve_name(fi.module, e.id)
                                if r and r[0] == "func" and r[1] not in out and self.p.functions[r[1]].module == fi.module:
                                    out.append(r[1])
                                    nxt.append(r[1])
            frontier = nxt
        self._cache[k] = out
        return out

    def table_lookups(self, qual: str, include_nested=False):
        """All `D[k]` loads and `D.get(k)` / `k in D` uses in the function where D folds to a dict/set.
        Returns list of (kind, table_value, table_text, key_expr, node)."""
        fi = self.fn(qual)
        out = []
        for n in walk_function(fi.node, include_nested):
            base = key = kind = None
            if isinstance(n, ast.Subscript) and isinstance(n.ctx, ast.Load):
                base, key, kind = n.value, n.slice, "index"
            elif isinstance(n, ast.Call) and isinstance(n.func, ast.Attribute) and n.func.attr == "get" and n.args:
                base, key, kind = n.func.value, n.args[0], "get"
            elif isinstance(n, ast.Compare) and len(n.ops) == 1 and isinstance(n.ops[0], (ast.In, ast.NotIn)):
                base, key, kind = n.comparators[0], n.left, "in"
            if base is None or dotted(base) is None:
                continue
            try:
                v = self.eval_in(qual, base)
            except AnalysisError:
                continue
            if isinstance(v, (dict, set, frozenset, list, tuple)) and not is_unknown(v):
                out.append((kind, v, norm(base), key, n))
        return out

    def field_aliases(self, cls_qual: str) -> Dict[str, str]:
        """private field -> name of the public accessor that returns it unchanged (a property, or a zero-argument get_x() method whose
        body is `return self.<field>`), over the MRO.  Lets rules name content by its public name whatever the field is called."""
        k = "aliases:" + cls_qual
        if k in self._cache:
            return self._cache[k]
        out: Dict[str, str] = {}
        for c in (self.p.mro(cls_qual) if cls_qual in self.p.classes else []):
            if c not in self.p.classes:
                continue
            for mname, mq in self.p.classes[c].methods.items():
                fi = self.p.functions[mq]
                if len(fi.params) != 1 or mname.startswith("__"):
                    continue
                body = [st for st in fi.node.body if not (isinstance(st, ast.Expr) and isinstance(st.value, ast.Constant))]
                if len(body) == 1 and isinstance(body[0], ast.Return) and body[0].value is not None:
                    v = body[0].value
                    # self.f, or a plain view / copy of it: self.f.values(), list(self.f), list(self.f.values())
                    while True:
                        if isinstance(v, ast.Call) and isinstance(v.func, ast.Name) and v.func.id in ("list", "tuple", "set", "frozenset", "iter") and len(v.args) == 1 and not v.keywords:
                            v = v.args[0]
                        elif isinstance(v, ast.Call) and isinstance(v.func, ast.Attribute) and v.func.attr in ("values", "copy") and not v.args:
                            v = v.func.value
                        else:
                            break
                    if isinstance(v, ast.Attribute) and dotted(v.value) == "self":
                        pub = mname[4:] if mname.startswith("get_") else mname
                        out.setdefault(v.attr, pub)
        self._cache[k] = out
        return out

    def field_named(self, cls_qual: str, public: str, default: str) -> str:
        """The private field behind a public accessor (`bundles` -> `_bundles`), discovered; `default` if there is none."""
        for f, pub in self.field_aliases(cls_qual).items():
            if pub == public:
                return f
        return default

    def literal_converter(self) -> str:
        """Name of the ProvRecord method that normalises a non-formal attribute value (today `_auto_literal_conversion`):
        discovered as the method of ProvRecord that tests its argument against the model's Literal class and that
        `add_attributes` (or a helper it delegates to) calls on `self`.  AnalysisError if there is not exactly one."""
        if "literal-converter" in self._cache:
            return self._cache["literal-converter"]
        rec = M + ".ProvRecord"
        aq = self.p.lookup_method(rec, "add_attributes")
        if aq is None:
            raise AnalysisError("anchor vanished: ProvRecord.add_attributes")
        called = set()
        for q2 in self.helper_closure(aq, depth=2):
            fi = self.p.functions.get(q2)
            if fi is None:
                continue
            for c in calls_in(fi.node):
                if isinstance(c.func, ast.Attribute) and isinstance(c.func.value, ast.Name) and c.func.value.id == "self":
                    called.add(c.func.attr)
        cands = []
        for name in sorted(called):
            mq = self.p.lookup_method(rec, name)
            fi = self.p.functions.get(mq) if mq else None
            if fi is None or fi.cls != rec or len(fi.params) != 2:
                continue
            # the test may sit in the method or in a private function it hands its argument to
            for hq in self.helper_closure(mq, depth=2):
                hf = self.p.functions.get(hq)
                if hf is None or isinstance(hf.node, ast.Lambda) or (hq != mq and not hf.name.startswith("_")):
                    continue
                for c in calls_in(hf.node):
                    if call_name(c) == "isinstance" and len(c.args) == 2 and isinstance(c.args[0], ast.Name) and c.args[0].id in hf.params:
                        types = c.args[1].elts if isinstance(c.args[1], ast.Tuple) else [c.args[1]]
                        for t in types:
                            r = self.p.resolve_dotted(hf.module, t) if dotted(t) else None
                            if r and r[0] == "class" and r[1] == M + ".Literal" and name not in cands:
                                cands.append(name)
        if len(cands) > 1:
            # helpers the converter itself delegates to are not the converter: keep the candidates that are called from outside
            # the candidates (from add_attributes or one of its other helpers)
            outer = []
            for q2 in self.helper_closure(aq, depth=2):
                fi2 = self.p.functions.get(q2)
                if fi2 is None or fi2.name in cands:
                    continue
                for c in calls_in(fi2.node):
                    if isinstance(c.func, ast.Attribute) and isinstance(c.func.value, ast.Name) and c.func.value.id == "self" and c.func.attr in cands and c.func.attr not in outer:
                        outer.append(c.func.attr)
            if len(outer) == 1:
                cands = outer
        if len(cands) != 1:
            raise AnalysisError("cannot identify ProvRecord's literal converter (candidates: %s)" % cands)
        self._cache["literal-converter"] = cands[0]
        return cands[0]

    def canon_field(self, cls_qual: Optional[str], attr: str) -> str:
        if cls_qual:
            al = self.field_aliases(cls_qual)
            if attr in al:
                return al[attr]
        return attr.lstrip("_") if not attr.startswith("__") else attr

    def loc(self, qual_or_mod: str, node) -> str:
        u = self.p.unit_of(qual_or_mod)
        return "%s:%d" % (u.relpath, getattr(node, "lineno", 0))


def _funcrefs_in(v, depth=0):
    from .fold import FuncRef as _FR

    if depth > 3:
        return
    if isinstance(v, _FR):
        yield v.qual
    elif isinstance(v, dict):
        for x in list(v.keys()) + list(v.values()):
            yield from _funcrefs_in(x, depth + 1)
    elif isinstance(v, (list, tuple, set, frozenset)):
        for x in v:
            yield from _funcrefs_in(x, depth + 1)


# --------------------------------------------------------------------------------------------
def walk_function(fnode, include_nested=False):
    """ast.walk that does not descend into nested function/class definitions (lambdas are kept)."""
    stack = list(ast.iter_child_nodes(fnode))
    while stack:
        n = stack.pop()
        if isinstance(n, (ast.FunctionDef, ast.AsyncFunctionDef, ast.ClassDef)) and not include_nested:
            continue
        yield n
        stack.extend(ast.iter_child_nodes(n))


def local_names(fnode) -> set:
    names = set()
    a = fnode.args
    for x in a.posonlyargs + a.args + a.kwonlyargs:
        names.add(x.arg)
    if a.vararg:
        names.add(a.vararg.arg)
    if a.kwarg:
        names.add(a.kwarg.arg)
    for n in walk_function(fnode):
        if isinstance(n, ast.Name) and isinstance(n.ctx, (ast.Store, ast.Del)):
            names.add(n.id)
        elif isinstance(n, ast.ExceptHandler) and n.name:
            names.add(n.name)
    return names


def calls_in(fnode, include_nested=False):
    for n in walk_function(fnode, include_nested):
        if isinstance(n, ast.Call):
            yield n


def call_name(call: ast.Call) -> str:
    """Last component of the callee: f(...) -> 'f', a.b.m(...) -> 'm'."""
    f = call.func
    if isinstance(f, ast.Attribute):
        return f.attr
    if isinstance(f, ast.Name):
        return f.id
    return ""


def const_strings(node) -> List[str]:
    return [n.value for n in ast.walk(node) if isinstance(n, ast.Constant) and isinstance(n.value, str)]


def arg_of(call: ast.Call, index: int, name: Optional[str] = None):
    if index is not None and index < len(call.args) and not any(isinstance(a, ast.Starred) for a in call.args[: index + 1]):
        return call.args[index]
    if name:
        for k in call.keywords:
            if k.arg == name:
                return k.value
    return None


def qn_local(q) -> str:
    return q.local if isinstance(q, QN) else repr(q)
