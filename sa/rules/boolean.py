"""E6 / F-BOOL - propositional structure of __eq__ / __ne__ / __hash__ (C04)."""
from __future__ import annotations

import ast
import itertools
from typing import Dict, List, Optional, Tuple

from ..ctx import M, Ctx, call_name, calls_in, walk_function
from ..loader import AnalysisError, dotted, norm
from ..mutation import all_assignments, mutation_sites, resolve_local
from ..report import Rule, RuleResult
from .paths import BUNDLE, DOC, RECORD, attr_slot, get_cfg, node_of, short

RULES = {}
LIT = M + ".Literal"
IDENT = "prov.identifier.Identifier"
NS = "prov.identifier.Namespace"
EQ_CLASSES = [LIT, RECORD, BUNDLE, DOC, IDENT, NS]


def rule(prop, rid, title, floor, family="F-BOOL", decides=""):
    def deco(fn):
        RULES.setdefault(prop, []).append(Rule(rid, title, floor, fn, family, decides))
        return fn

    return deco


# ---------------------------------------------------------------------------------------------- formulas
# formula := ('T',) | ('F',) | ('atom', key) | ('not', f) | ('and', [f..]) | ('or', [f..])
T, F = ("T",), ("F",)


def f_not(f):
    if f == T:
        return F
    if f == F:
        return T
    if f[0] == "not":
        return f[1]
    return ("not", f)


def f_and(fs):
    out = []
    for f in fs:
        if f == F:
            return F
        if f == T:
            continue
        out.append(f)
    return T if not out else (out[0] if len(out) == 1 else ("and", out))


def f_or(fs):
    out = []
    for f in fs:
        if f == T:
            return T
        if f == F:
            continue
        out.append(f)
    return F if not out else (out[0] if len(out) == 1 else ("or", out))


def atoms_of(f, acc=None):
    acc = set() if acc is None else acc
    if f[0] == "atom":
        acc.add(f[1])
    elif f[0] == "not":
        atoms_of(f[1], acc)
    elif f[0] in ("and", "or"):
        for x in f[1]:
            atoms_of(x, acc)
    return acc


def evaluate(f, env):
    if f == T:
        return True
    if f == F:
        return False
    if f[0] == "atom":
        return env[f[1]]
    if f[0] == "not":
        return not evaluate(f[1], env)
    if f[0] == "and":
        return all(evaluate(x, env) for x in f[1])
    return any(evaluate(x, env) for x in f[1])


PROJ_ALIASES = {"get_type()": "type", "_prov_type": "type", "get_records()": "records", "_records": "records", "records": "records",
                "attributes": "attributes", "_attributes": "attributes", "bundles": "bundles", "_bundles": "bundles"}
WRAPPERS = {"set", "frozenset", "list", "tuple", "sorted", "len_"}


class Extractor:
    def __init__(self, ctx: Ctx, qual: str, swap=False):
        self.ctx = ctx
        self.fi = ctx.fn(qual)
        self.qual = qual
        ps = self.fi.params
        self.a, self.b = (ps[0], ps[1] if len(ps) > 1 else None)
        self.swap = swap
        self.cls = self.fi.cls
        self.opaque: List[str] = []

    # projections ------------------------------------------------------------------------------
    def proj(self, e) -> Optional[Tuple[str, str]]:
        """(side, path) for an access path rooted at self/other, with properties normalised to fields."""
        e = self._local(e)
        wrappers = []
        while isinstance(e, ast.Call) and isinstance(e.func, ast.Name) and e.func.id in ("set", "frozenset", "list", "tuple", "sorted") and len(e.args) == 1:
            e = self._local(e.args[0])
        parts = []
        cur = e
        while True:
            if isinstance(cur, ast.Attribute):
                parts.append(cur.attr)
                cur = cur.value
            elif isinstance(cur, ast.Call) and isinstance(cur.func, ast.Attribute) and not cur.args:
                parts.append(cur.func.attr + "()")
                cur = cur.func.value
            else:
                break
        if not isinstance(cur, ast.Name) or cur.id not in (self.a, self.b):
            return None
        side = "self" if cur.id == self.a else "other"
        comps = list(reversed(parts))
        if comps and not comps[0].endswith("()"):
            comps[0] = self.ctx.canon_field(self.cls, comps[0])
        elif comps and self.cls:
            # an accessor method that hands back (a possibly cached view of) one content field: x._get_attribute_set() -> attributes
            mq = self.ctx.p.lookup_method(self.cls, comps[0][:-2])
            mfi = self.ctx.p.functions.get(mq) if mq else None
            if mfi is not None and len(mfi.params) == 1 and not isinstance(mfi.node, ast.Lambda):
                stored = {t.attr for n in walk_function(mfi.node) if isinstance(n, ast.Assign) for t in n.targets if isinstance(t, ast.Attribute) and isinstance(t.value, ast.Name) and t.value.id == mfi.params[0]}
                loads = {n.attr for n in walk_function(mfi.node) if isinstance(n, ast.Attribute) and isinstance(n.value, ast.Name) and n.value.id == mfi.params[0] and isinstance(n.ctx, ast.Load)} - stored
                loads = {self.ctx.canon_field(self.cls, a) for a in loads if self.ctx.p.lookup_method(self.cls, a) is None or self.ctx.p.functions[self.ctx.p.lookup_method(self.cls, a)].is_property}
                if len(loads) == 1:
                    comps[0] = next(iter(loads))
        path = ".".join(PROJ_ALIASES.get(p, p.lstrip("_")) for p in comps) or "<obj>"
        return side, path

    def _local(self, e):
        return resolve_local(self.fi.node, e) if isinstance(e, ast.Name) and e.id not in (self.a, self.b) else e

    def _swap(self, side):
        if not self.swap:
            return side
        return {"self": "other", "other": "self"}[side]

    # expressions ------------------------------------------------------------------------------
    def expr(self, e):
        if isinstance(e, ast.Constant):
            return T if e.value else F
        if isinstance(e, ast.BoolOp):
            fs = [self.expr(v) for v in e.values]
            return f_and(fs) if isinstance(e.op, ast.And) else f_or(fs)
        if isinstance(e, ast.UnaryOp) and isinstance(e.op, ast.Not):
            return f_not(self.expr(e.operand))
        if isinstance(e, ast.IfExp):
            c = self.expr(e.test)
            return f_or([f_and([c, self.expr(e.body)]), f_and([f_not(c), self.expr(e.orelse)])])
        if isinstance(e, ast.Compare) and len(e.ops) == 1:
            l, r = self.proj(e.left), self.proj(e.comparators[0])
            op = e.ops[0]
            if l and r and isinstance(op, (ast.Eq, ast.NotEq)):
                if {l[0], r[0]} == {"self", "other"} and l[1] == r[1]:
                    atom = ("atom", "eq(%s)" % l[1])
                    return atom if isinstance(op, ast.Eq) else f_not(atom)
                if l == ("self", "<obj>") and r == ("other", "<obj>") or (l == ("other", "<obj>") and r == ("self", "<obj>")):
                    atom = ("atom", "eq(<obj>)")
                    return atom if isinstance(op, ast.Eq) else f_not(atom)
            # len(x) != len(y)
            if isinstance(e.left, ast.Call) and call_name(e.left) == "len" and isinstance(e.comparators[0], ast.Call) and call_name(e.comparators[0]) == "len":
                l, r = self.proj(e.left.args[0]), self.proj(e.comparators[0].args[0])
                if l and r and {l[0], r[0]} == {"self", "other"} and l[1] == r[1] and isinstance(op, (ast.Eq, ast.NotEq)):
                    atom = ("atom", "eq(len %s)" % l[1])
                    return atom if isinstance(op, ast.Eq) else f_not(atom)
            if l and isinstance(op, (ast.Is, ast.IsNot)) and isinstance(e.comparators[0], ast.Constant) and e.comparators[0].value is None:
                atom = ("atom", "none(%s.%s)" % (self._swap(l[0]), l[1]))
                return atom if isinstance(op, ast.Is) else f_not(atom)
        if isinstance(e, ast.Call) and call_name(e) == "isinstance" and len(e.args) == 2:
            p = self.proj(e.args[0])
            if p and p[1] == "<obj>":
                return ("atom", "isinstance(%s,%s)" % (self._swap(p[0]), norm(e.args[1])))
        if isinstance(e, ast.Call) and isinstance(e.func, ast.Attribute) and e.func.attr == "__eq__" and len(e.args) == 1:
            return ("atom", "super_eq")
        p = self.proj(e)
        if p:
            return ("atom", "truthy(%s.%s)" % (self._swap(p[0]), p[1]))
        t = norm(e)
        self.opaque.append(t)
        return ("atom", "opaque(%s)" % t)

    # statements -------------------------------------------------------------------------------
    def block(self, stmts) -> Tuple[tuple, bool]:
        """Formula for 'this block returns True' given it is entered; (formula, always_returns)."""
        if not stmts:
            return None, False
        s, rest = stmts[0], stmts[1:]
        if isinstance(s, ast.Expr):  # docstring / logging
            return self.block(rest)
        if isinstance(s, ast.Return):
            return (self.expr(s.value) if s.value is not None else F), True
        if isinstance(s, ast.If):
            c = self.expr(s.test)
            tb, tr = self.block(s.body)
            eb, er = self.block(s.orelse) if s.orelse else (None, False)
            cont, cr = self.block(rest)
            t_f = tb if tr else (f_and([x for x in (tb, cont) if x is not None]) if tb is not None else cont)
            e_f = eb if er else (cont if eb is None else f_and([eb, cont]) if cont is not None else eb)
            if t_f is None:
                t_f = cont if cont is not None else T
            if e_f is None:
                e_f = cont if cont is not None else T
            return f_or([f_and([c, t_f]), f_and([f_not(c), e_f])]), (tr or cr) and (er or cr or not s.orelse and cr)
        if isinstance(s, ast.Assign):
            return self.block(rest)
        if isinstance(s, (ast.For, ast.While)):
            key = "loop(%s)" % norm(s.iter if isinstance(s, ast.For) else s.test)[:60]
            cont, cr = self.block(rest)
            return f_and([("atom", key)] + ([cont] if cont is not None else [])), cr
        if isinstance(s, ast.Try):
            return self.block(list(s.body) + list(rest))
        self.opaque.append(norm(s)[:60])
        cont, cr = self.block(rest)
        return cont, cr

    def formula(self):
        f, _ = self.block(self.fi.node.body)
        return f if f is not None else T


def equivalent(f1, f2, axioms=None) -> Optional[Dict[str, bool]]:
    """None if equivalent; else a distinguishing assignment.  axioms: callable(env) -> bool (assignment admissible)."""
    atoms = sorted(atoms_of(f1) | atoms_of(f2))
    if len(atoms) > 14:
        raise AnalysisError("formula too large for a truth table (%d atoms)" % len(atoms))
    for vals in itertools.product([False, True], repeat=len(atoms)):
        env = dict(zip(atoms, vals))
        if axioms and not axioms(env):
            continue
        if evaluate(f1, env) != evaluate(f2, env):
            return env
    return None


def eq_axioms(cls_name):
    def ok(env):
        for k, v in env.items():
            # symmetry is a statement about two instances of the class: both operands are instances
            if k.startswith("isinstance(") and not v:
                return False
        # equal projections are truthy/None together
        for k, v in env.items():
            if k.startswith("eq(") and v:
                path = k[3:-1]
                for pre in ("truthy", "none"):
                    a, b = "%s(self.%s)" % (pre, path), "%s(other.%s)" % (pre, path)
                    if a in env and b in env and env[a] != env[b]:
                        return False
        # loops and super_eq are treated as symmetric atoms only if proven so elsewhere (R4 / recursion)
        return True

    return ok


def eq_method(ctx: Ctx, cls, name="__eq__"):
    q = ctx.p.classes[cls].methods.get(name)
    return q


# ---------------------------------------------------------------------------------------------- rules
@rule("C04", "C04.R1", "swap symmetry of every __eq__: eq(self, other) is equivalent to eq(other, self)", 6,
      decides="a == b and b == a always agree (truth table over the comparison atoms of the method body)")
def c04_r1(ctx: Ctx, rule):
    res = RuleResult()
    for cls in EQ_CLASSES:
        q = eq_method(ctx, cls)
        if not q:
            raise AnalysisError("%s.__eq__ vanished" % cls)
        e1 = Extractor(ctx, q)
        f1 = e1.formula()
        e2 = Extractor(ctx, q, swap=True)
        f2 = e2.formula()
        cex = equivalent(f1, f2, eq_axioms(cls))
        res.ob("%s.__eq__: atoms %s; symmetric: %s" % (cls.rsplit(".", 1)[1], sorted(atoms_of(f1)), cex is None))
        if e1.opaque:
            res.notes.append("%s.__eq__: opaque sub-expressions treated as atoms: %s" % (cls.rsplit(".", 1)[1], e1.opaque[:3]))
        if cex is not None:
            tv = ", ".join("%s=%s" % (k, v) for k, v in sorted(cex.items()) if not k.startswith("isinstance(self"))
            res.fail(rule.id, "asymmetric-eq::%s" % cls, ctx.loc(q, ctx.fn(q).node),
                     "%s.__eq__ gives different answers for (a, b) and (b, a) when %s" % (cls.rsplit(".", 1)[1], tv),
                     "two objects differing only in the guarded projection: a == b is True while b == a is False (e.g. a relation without identifier vs the same relation with one)")
    return res


@rule("C04", "C04.R2", "!= is the negation of == for every class that defines or inherits __ne__", 4,
      decides="a == b and a != b never agree")
def c04_r2(ctx: Ctx, rule):
    res = RuleResult()
    for cls in EQ_CLASSES:
        q = ctx.p.lookup_method(cls, "__ne__")
        eqq = ctx.p.lookup_method(cls, "__eq__")
        if not q:
            res.ob("%s: no __ne__ (Python derives it from __eq__)" % cls.rsplit(".", 1)[1], nontrivial=False)
            continue
        fi = ctx.fn(q)
        body = [s for s in fi.node.body if not (isinstance(s, ast.Expr) and isinstance(s.value, ast.Constant))]
        # form 1: return not (self == other)  /  return not self.__eq__(other)
        simple = False
        if len(body) == 1 and isinstance(body[0], ast.Return) and isinstance(body[0].value, ast.UnaryOp) and isinstance(body[0].value.op, ast.Not):
            inner = body[0].value.operand
            if isinstance(inner, ast.Compare) and isinstance(inner.ops[0], ast.Eq) and {norm(inner.left), norm(inner.comparators[0])} == set(fi.params[:2]):
                simple = True
            if isinstance(inner, ast.Call) and call_name(inner) == "__eq__":
                simple = True
        if simple:
            res.ob("%s.__ne__ (defined in %s) is `not (self == other)`: dual by construction" % (cls.rsplit(".", 1)[1], short(q)))
            continue
        fne = Extractor(ctx, q).formula()
        feq = Extractor(ctx, eqq).formula()
        cex = equivalent(fne, f_not(feq), eq_axioms(cls))
        res.ob("%s.__ne__ vs not __eq__: equivalent: %s" % (cls.rsplit(".", 1)[1], cex is None))
        if cex is not None:
            tv = ", ".join("%s=%s" % (k, v) for k, v in sorted(cex.items()))
            res.fail(rule.id, "ne-not-dual::%s" % cls, ctx.loc(q, fi.node), "%s.__ne__ is not the negation of __eq__ when %s" % (cls.rsplit(".", 1)[1], tv),
                     "a == b and a != b are both True (or both False) for two objects differing in one field")
    return res


def hash_projections(ctx: Ctx, q):
    fi = ctx.fn(q)
    ex = Extractor(ctx, q)
    projs = set()
    stores = set()
    funcs = {id(c.func) for c in walk_function(fi.node) if isinstance(c, ast.Call)}
    for n in walk_function(fi.node):
        if isinstance(n, (ast.Attribute, ast.Call)) and id(n) not in funcs:
            p = ex.proj(n)
            if p and p[1] != "<obj>" and "." not in p[1]:
                if isinstance(n, ast.Attribute) and isinstance(n.ctx, ast.Store):
                    stores.add(n.attr)
                projs.add(p[1])
    return projs, stores


@rule("C04", "C04.R3", "hash agrees with eq for records: every projection of __hash__ is an unconditional equality conjunct of __eq__; containers defining __eq__ are unhashable; a cached hash is reset by every writer", 4,
      decides="equal records hash equally, before and after any mutation")
def c04_r3(ctx: Ctx, rule):
    res = RuleResult()
    hq = ctx.p.lookup_method(RECORD, "__hash__")
    eqq = ctx.p.lookup_method(RECORD, "__eq__")
    projs, stores = hash_projections(ctx, hq)
    feq = Extractor(ctx, eqq).formula()
    conj = feq[1] if feq[0] == "and" else [feq]
    # flatten nested ors of the form (c and X) or (not c and False): conjunct set = atoms that must be true
    must = set()
    atoms = sorted(atoms_of(feq))
    for a in atoms:
        if a.startswith("eq("):
            # a is unconditional iff feq -> a  (no admissible assignment with feq true and a false)
            ok = True
            for vals in itertools.product([False, True], repeat=len(atoms)):
                env = dict(zip(atoms, vals))
                if not eq_axioms(RECORD)(env):
                    continue
                if evaluate(feq, env) and not env[a]:
                    ok = False
                    break
            if ok:
                must.add(a[3:-1])
    # equality compares the attribute pairs as a *set*: the hash must not depend on their order either
    hf = ctx.fn(hq)
    eqf = ctx.fn(eqq)
    eq_as_set = any(isinstance(c, ast.Call) and call_name(c) in ("set", "frozenset") and c.args and "attributes" in norm(c.args[0]) for c in walk_function(eqf.node))
    for c in walk_function(hf.node):
        if isinstance(c, ast.Call) and isinstance(c.func, ast.Name) and c.args and "attributes" in norm(c.args[0]) and c.func.id in ("tuple", "list", "frozenset", "set", "sorted", "str", "repr"):
            order_free = c.func.id in ("frozenset", "set")
            res.ob("ProvRecord.__hash__ takes the attribute pairs through %s(); __eq__ compares them as sets: %s; order-independent: %s" % (c.func.id, eq_as_set, order_free))
            if eq_as_set and not order_free:
                res.fail(rule.id, "hash-order-dependent", ctx.loc(hq, c), "__hash__ hashes %s, which depends on the order the attributes were supplied in, while __eq__ compares them as sets" % norm(c)[:50],
                         "two records with the same extra attributes given in different orders are == but hash differently: a document holding both is unequal to the document holding one")
    cache_fields = {p for p in projs if p in {s.lstrip("_") for s in stores}}
    for p in sorted(projs - cache_fields):
        ok = p in must
        res.ob("ProvRecord.__hash__ uses %s; unconditional equality conjunct of __eq__: %s" % (p, ok))
        if not ok:
            res.fail(rule.id, "hash-not-in-eq::%s" % p, ctx.loc(hq, ctx.fn(hq).node),
                     "__hash__ depends on `%s`, which __eq__ does not compare unconditionally (eq implies: %s)" % (p, sorted(must)),
                     "two records that compare equal land in different set buckets: ProvBundle.__eq__ (set based) and unified() treat them as different")
    # cached hash: every writer of the hashed state must reset the cache
    for cf in sorted(cache_fields):
        mm = attr_slot(ctx)
        fieldname = next(s for s in stores if s.lstrip("_") == cf)
        writers = {}
        for s in mutation_sites(ctx, {mm, "_identifier"}):
            if s.how == "read-insert" or s.func.endswith(".__init__") or not s.func.startswith(M + ".Prov"):
                continue
            if s.field == "_identifier" and not s.func.startswith(RECORD):
                continue
            writers.setdefault(s.func, []).append(s)
        for f, ss in writers.items():
            g = get_cfg(ctx, f)
            resets = [n for n in g.nodes if n.stmt is not None and isinstance(n.stmt, ast.Assign) and any(isinstance(t, ast.Attribute) and t.attr == fieldname for t in n.stmt.targets)]
            for s in ss:
                mn = node_of(g, s.node)
                dom = g.dominators()
                dominated = any(r.id in dom.get(mn.id, set()) for r in resets)
                leaks = None
                if not dominated:
                    for ex_node in (g.exit, g.raise_exit):
                        p = g.find_path(mn, ex_node, avoid=lambda n: n in resets)
                        if p is not None:
                            leaks = p
                ok = dominated or leaks is None
                res.ob("cached hash `%s`: writer %s (%s) resets it on every path: %s" % (fieldname, short(f), s.text[:40], ok))
                if not ok:
                    res.fail(rule.id, "stale-hash-cache::%s" % f, ctx.loc(f, s.node),
                             "%s changes the hashed state (%s) and can leave without resetting the cached hash `%s`: %s" % (short(f), s.text[:50], fieldname, " -> ".join(repr(n) for n, _ in leaks[-3:])),
                             "hash a record (any ==, set() or unified()), mutate it through this path, compare again: r1 == r2 with hash(r1) != hash(r2)")
    for cls in (BUNDLE, DOC):
        ci = ctx.p.classes[cls]
        h = ctx.p.class_attr(cls, "__hash__")
        hm = ctx.p.lookup_method(cls, "__hash__")
        unhashable = (h is not None and isinstance(h[1], ast.Constant) and h[1].value is None and not ci.methods.get("__hash__")) or (hm is None and h is None)
        own_eq = ci.methods.get("__eq__")
        if own_eq and hm is None and h is None:
            unhashable = True  # Python sets __hash__ to None when __eq__ is defined without __hash__
        if cls == DOC and not ci.methods.get("__hash__") and not ("__hash__" in ci.class_attrs) and ci.methods.get("__eq__"):
            unhashable = True
        res.ob("%s (mutable, defines __eq__) is unhashable: %s" % (cls.rsplit(".", 1)[1], unhashable))
        if not unhashable:
            res.fail(rule.id, "mutable-hashable::%s" % cls, ctx.loc(cls, ci.node), "%s defines __eq__ on mutable content and is hashable" % cls.rsplit(".", 1)[1],
                     "a container used as a dict key changes its hash when a record is added")
    return res


@rule("C04", "C04.R4", "no one-sided containment: a loop over self's collection testing membership in other's is paired with a size/key-set equality", 2, family="F-PATH",
      decides="an extra record or bundle on the right-hand side is noticed")
def c04_r4(ctx: Ctx, rule):
    res = RuleResult()
    for cls in (BUNDLE, DOC):
        q = eq_method(ctx, cls)
        fi = ctx.fn(q)
        ex = Extractor(ctx, q)
        g = get_cfg(ctx, q)
        for loop in [n for n in fi.node.body if isinstance(n, ast.For)] + [n for s in fi.node.body if isinstance(s, (ast.If, ast.Try)) for n in ast.walk(s) if isinstance(n, ast.For)]:
            it = loop.iter
            if isinstance(it, ast.Call) and isinstance(it.func, ast.Attribute) and it.func.attr in ("items", "keys", "values"):
                it = it.func.value
            ps = ex.proj(it)
            if not ps or ps[0] != "self":
                continue
            coll = ps[1]
            # a size / key-set equality on the same collection that dominates the loop and returns False when it fails
            dom = g.dominators(labels_excluded=("exc",))
            ln = g.nodes_of(loop)[0]
            guard = None
            for i in dom.get(ln.id, set()):
                n = g.nodes[i]
                if n.kind != "test":
                    continue
                t = n.stmt.test
                f = ex.expr(t)
                if f in (("not", ("atom", "eq(len %s)" % coll)), ("not", ("atom", "eq(%s)" % coll)), ("not", ("atom", "eq(%s.keys())" % coll))):
                    if any(isinstance(x, ast.Return) and isinstance(x.value, ast.Constant) and x.value.value is False for x in n.stmt.body):
                        guard = norm(t)
            # or a mirror loop over other's collection
            mirror = any(isinstance(l2, ast.For) and l2 is not loop and (ex.proj(l2.iter.func.value if isinstance(l2.iter, ast.Call) and isinstance(l2.iter.func, ast.Attribute) else l2.iter) or ("", ""))[0] == "other"
                         and ln.id in dom.get(g.nodes_of(l2)[0].id, set()) | {0} and l2 in fi.node.body for l2 in walk_function(fi.node))
            # inside the loop: a key of self that other does not have makes the objects unequal - the `not in other` arm returns False
            for t in ast.walk(loop):
                if isinstance(t, ast.If):
                    conj = t.test.values if isinstance(t.test, ast.BoolOp) else [t.test]
                    for cj in conj:
                        if isinstance(cj, ast.Compare) and len(cj.ops) == 1 and isinstance(cj.ops[0], ast.NotIn):
                            po = ex.proj(cj.comparators[0])
                            if po and po[0] == "other" and isinstance(t.test, (ast.Compare,)) or (po and po[0] == "other" and isinstance(t.test, ast.BoolOp) and isinstance(t.test.op, ast.Or)):
                                rf = any(isinstance(x, ast.Return) and isinstance(x.value, ast.Constant) and x.value.value is False for x in t.body)
                                res.ob("%s.__eq__: `%s` makes the comparison fail (return False): %s" % (cls.rsplit(".", 1)[1], norm(cj)[:50], rf))
                                if not rf:
                                    res.fail(rule.id, "missing-member-ignored::%s::%s" % (cls, norm(cj)[:40]), ctx.loc(q, t),
                                             "%s.__eq__ carries on when `%s` instead of returning False" % (cls.rsplit(".", 1)[1], norm(cj)[:50]),
                                             "two documents with the same number of bundles, one bundle identifier changed: they compare equal and the renamed bundle's content is never compared")
            res.ob("%s.__eq__: loop over self.%s is paired with %s" % (cls.rsplit(".", 1)[1], coll, guard or ("a mirror loop" if mirror else "NOTHING")))
            if not guard and not mirror:
                res.fail(rule.id, "one-sided-containment::%s::%s" % (cls, coll), ctx.loc(q, loop),
                         "%s.__eq__ only checks that everything in self.%s is matched in other.%s" % (cls.rsplit(".", 1)[1], coll, coll),
                         "ProvDocument() == document_with_a_bundle is True while the reverse is False")
    return res


CONTENT = {
    RECORD: {"type", "identifier", "attributes"},
    BUNDLE: {"records"},
    DOC: {"bundles", "<super>"},
    LIT: {"value", "datatype", "langtag"},
    NS: {"uri", "prefix"},
    IDENT: {"uri"},
}


@rule("C04", "C04.R5", "discrimination: every content field of a class occurs in its equality", 12,
      decides="a change of type, identifier, attribute, record, bundle, datatype or language tag cannot go unnoticed")
def c04_r5(ctx: Ctx, rule):
    res = RuleResult()
    for cls, fields in CONTENT.items():
        q = eq_method(ctx, cls)
        fi = ctx.fn(q)
        ex = Extractor(ctx, q)
        f = ex.formula()
        ats = atoms_of(f)
        loops = " ".join(a for a in ats if a.startswith("loop("))
        for fld in sorted(fields):
            if fld == "<super>":
                ok = "super_eq" in ats
            else:
                fnames = {fld, ctx.field_named(cls, fld, fld)}
                ok = ("eq(%s)" % fld) in ats or ("eq(len %s)" % fld) in ats and any(f in loops for f in fnames) or any(a.startswith("loop(") and any(f in a for f in fnames) for a in ats) and any(any(f in norm(n) for f in fnames) for n in walk_function(fi.node) if isinstance(n, ast.Compare))
            res.ob("%s.__eq__ compares %s: %s" % (cls.rsplit(".", 1)[1], fld, ok))
            if not ok:
                res.fail(rule.id, "field-not-compared::%s::%s" % (cls, fld), ctx.loc(q, fi.node), "%s.__eq__ never compares %s" % (cls.rsplit(".", 1)[1], fld),
                         "two objects differing only in %s compare equal" % fld)
    # the per-record matching inside ProvBundle.__eq__ really uses record equality (== / in), not identity or identifiers only
    q = eq_method(ctx, BUNDLE)
    fi = ctx.fn(q)
    exb = Extractor(ctx, q)
    loopvars = {}
    for n in walk_function(fi.node):
        if isinstance(n, ast.For) and isinstance(n.target, ast.Name):
            pr = exb.proj(n.iter)
            if pr and pr[1] == "records":
                loopvars[n.target.id] = pr[0]

    def sides_of(e):
        out = set()
        for x in ast.walk(e):
            if isinstance(x, ast.Name) and x.id in loopvars:
                out.add(loopvars[x.id])
        pr = exb.proj(e) if isinstance(e, (ast.Name, ast.Attribute, ast.Call)) else None
        if pr and pr[1] == "records":
            out.add(pr[0])
        return out

    cmp_ok = False
    for n in walk_function(fi.node):
        if isinstance(n, ast.Compare) and len(n.ops) == 1 and isinstance(n.ops[0], (ast.Eq, ast.NotEq, ast.In, ast.NotIn)) and not any(isinstance(x, ast.Attribute) and x.attr in ("identifier", "_identifier") for x in ast.walk(n)):
            if sides_of(n.left) | sides_of(n.comparators[0]) >= {"self", "other"} and sides_of(n.left) and sides_of(n.comparators[0]):
                cmp_ok = True
    cmp_ok = cmp_ok or any(isinstance(n, ast.Compare) and isinstance(n.ops[0], (ast.Eq, ast.In, ast.NotIn)) and not any(isinstance(x, ast.Attribute) and x.attr in ("identifier", "_identifier") for x in ast.walk(n)) for n in walk_function(fi.node) if isinstance(n, ast.Compare) and any(isinstance(x, ast.Name) and "record" in x.id for x in ast.walk(n)))
    setcmp = any(isinstance(n, ast.Compare) and isinstance(n.ops[0], ast.Eq) and "records" in norm(n) for n in walk_function(fi.node))
    res.ob("ProvBundle.__eq__ matches records with record equality: %s" % (cmp_ok or setcmp))
    if not (cmp_ok or setcmp):
        res.fail(rule.id, "bundle-eq-not-by-record-equality", ctx.loc(q, fi.node), "ProvBundle.__eq__ no longer matches records by ==", "records with equal identifiers but different attributes are taken as equal")
    return res


@rule("C04", "C04.R6", "no auxiliary state in container equality: ProvBundle/ProvDocument.__eq__ read only content (records, bundles), never the identifier index or caches", 2,
      decides="equality is unaffected by the path a document was built or queried through")
def c04_r6(ctx: Ctx, rule):
    res = RuleResult()
    from ..mutation import field_table

    for cls in (BUNDLE, DOC):
        q = eq_method(ctx, cls)
        fi = ctx.fn(q)
        ft = {}
        for c in ctx.p.mro(cls):
            ft.update(field_table(ctx, c))
        allowed = {"_records", "_bundles", ctx.field_named(DOC, "bundles", "_bundles"), ctx.field_named(BUNDLE, "records", "_records")}
        used = {n.attr for n in walk_function(fi.node) if isinstance(n, ast.Attribute) and n.attr in ft}
        bad = used - allowed
        res.ob("%s.__eq__ reads fields %s" % (cls.rsplit(".", 1)[1], sorted(used) or "(through get_records/bundles only)"))
        for b in sorted(bad):
            res.fail(rule.id, "eq-reads-auxiliary-state::%s::%s" % (cls, b), ctx.loc(q, fi.node),
                     "%s.__eq__ consults %s, which is not content (lookups such as get_record() leave empty index entries behind)" % (cls.rsplit(".", 1)[1], b),
                     "d1 == d2 holds; d1.get_record(<absent id>) is called; now d1 != d2 although the content is identical")
    return res


@rule("C04", "C04.R7", "prov-compare exits with the value of doc1 != doc2", 2, decides="the command-line comparison is this relation")
def c04_r7(ctx: Ctx, rule):
    res = RuleResult()
    mod = "scripts.prov-compare"
    q = mod + ".main"
    fi = ctx.fn(q)
    rets = [n for n in walk_function(fi.node) if isinstance(n, ast.Return) and n.value is not None and not isinstance(n.value, ast.Constant)]
    ok = False
    for r in rets:
        v = r.value
        if isinstance(v, ast.Compare) and isinstance(v.ops[0], ast.NotEq):
            names = [norm(v.left), norm(v.comparators[0])]
            defs = [resolve_local(fi.node, v.left), resolve_local(fi.node, v.comparators[0])]
            def reads(d, depth=0):
                if not isinstance(d, ast.Call):
                    return False
                if call_name(d) in ("deserialize", "read"):
                    return True
                if isinstance(d.func, ast.Name) and depth < 2:
                    hq = mod + "." + d.func.id
                    if hq in ctx.p.functions:
                        return any(isinstance(r2, ast.Return) and reads(resolve_local(ctx.fn(hq).node, r2.value), depth + 1) for r2 in walk_function(ctx.fn(hq).node))
                return False

            if all(reads(d) for d in defs) and names[0] != names[1]:
                ok = True
        if isinstance(v, ast.UnaryOp) and isinstance(v.op, ast.Not) and isinstance(v.operand, ast.Compare) and isinstance(v.operand.ops[0], ast.Eq):
            ok = True
    res.ob("main() returns `doc1 != doc2` of the two deserialised documents: %s" % ok)
    if not ok:
        res.fail(rule.id, "compare-exit-status", ctx.loc(mod, fi.node), "prov-compare's main() no longer returns doc1 != doc2", "equal documents exit non-zero or different ones exit zero")
    unit = ctx.p.units[mod]
    exits = [n for n in ast.walk(unit.tree) if isinstance(n, ast.Call) and dotted(n.func) == "sys.exit" and n.args and isinstance(n.args[0], ast.Call) and call_name(n.args[0]) == "main"]
    res.ob("the script exits with main()'s value: %s" % bool(exits))
    if not exits:
        res.fail(rule.id, "compare-exit-not-main", ctx.loc(mod, unit.tree), "prov-compare does not pass main()'s result to sys.exit")
    return res
