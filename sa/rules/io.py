"""C17 (write to a path: exact, all-or-nothing) and C16 (source/destination kinds, prov.read) rules."""
from __future__ import annotations

import ast

from .. import cfg as cfgmod
from ..ctx import JS, M, PN, RD, XM, Ctx, call_name, calls_in, walk_function
from ..fold import ClassRef
from ..loader import AnalysisError, dotted, norm
from ..mutation import resolve_local
from ..report import Rule, RuleResult
from .paths import DOC, get_cfg, node_of, short

RULES = {}
COMMITS = {"shutil.move", "shutil.copy", "shutil.copy2", "shutil.copyfile", "os.replace", "os.rename"}


def rule(prop, rid, title, floor, family="F-PATH", decides=""):
    def deco(fn):
        RULES.setdefault(prop, []).append(Rule(rid, title, floor, fn, family, decides))
        return fn

    return deco


def reaching_defs(g: cfgmod.CFG, var: str):
    """node id -> set of CFG node ids whose statement assigns `var` and may reach the node's entry."""
    def assigns(n):
        s = n.stmt
        if s is None or n.kind in ("test", "try", "handler"):
            return False
        tg = []
        if isinstance(s, ast.Assign):
            tg = s.targets
        elif isinstance(s, (ast.AugAssign, ast.AnnAssign)):
            tg = [s.target]
        elif isinstance(s, (ast.For, ast.AsyncFor)) and n.kind == "loop":
            tg = [s.target]
        elif isinstance(s, (ast.With,)) and n.kind == "with":
            tg = [i.optional_vars for i in s.items if i.optional_vars is not None]
        return any(isinstance(x, ast.Name) and x.id == var for t in tg for x in ast.walk(t))

    IN = {n.id: set() for n in g.nodes}
    OUT = {n.id: set() for n in g.nodes}
    changed = True
    while changed:
        changed = False
        for n in g.nodes:
            i = set()
            for p, lab in n.pred:
                i |= OUT[p.id]
            if n is g.entry:
                i = {-1}  # the parameter / undefined
            o = {n.id} if assigns(n) else i
            if i != IN[n.id] or o != OUT[n.id]:
                IN[n.id], OUT[n.id] = i, o
                changed = True
    return IN


def serialize_path_branch(ctx: Ctx):
    """The function that writes to a path destination: ProvDocument.serialize, or the private helper it hands the
    destination to (the commit calls are looked for in the helper closure); `dest` is the name the caller's
    destination has there."""
    q0 = DOC + ".serialize"
    f0 = ctx.fn(q0)
    dest0 = f0.params[1]

    def commits_in(q):
        out = []
        for c in calls_in(ctx.fn(q).node):
            d = dotted(c.func) or ""
            if d in COMMITS and len(c.args) >= 2:
                out.append(c)
        return out

    q, dest = q0, dest0
    if not commits_in(q0):
        for cand in ctx.helper_closure(q0)[1:]:
            opens_dest = any(call_name(c) == "open" for c in calls_in(ctx.fn(cand).node))
            if commits_in(cand) or opens_dest:
                # which parameter of the helper receives the destination?
                cf = ctx.fn(cand)
                for c in calls_in(f0.node):
                    if call_name(c) == cf.name:
                        ps = cf.params[1:] if (cf.cls and not cf.is_static) else cf.params
                        for i, a in enumerate(c.args):
                            ra = resolve_local(f0.node, a)
                            if isinstance(ra, ast.Name) and ra.id == dest0 and i < len(ps):
                                q, dest = cand, ps[i]
                        for k in c.keywords:
                            ra = resolve_local(f0.node, k.value)
                            if isinstance(ra, ast.Name) and ra.id == dest0 and k.arg:
                                q, dest = cand, k.arg
                if q != q0:
                    break
    if not commits_in(q):
        holders = [c for c in ctx.helper_closure(q0)[1:] if commits_in(c)]
        if holders:
            # the destination reaches the holder through other helpers: `dest` is whatever the holder passes to the commit;
            # C17.R1 follows it interprocedurally (derive_path)
            q = holders[0]
            c0 = commits_in(q)[0]
            dest = c0.args[1].id if isinstance(c0.args[1], ast.Name) else dest0
    fi = ctx.fn(q)
    g = get_cfg(ctx, q)
    return q, fi, g, dest, commits_in(q)


def derive_path(ctx: Ctx, entry_q, entry_dest, q, node, expr, bindings=None, depth=0):
    """Where can the value of `expr` (evaluated at CFG node `node` of function q) come from?  Set of
    (kind, detail): IDENTITY (the caller's destination itself), FILEURL (file: URL converted under an explicit scheme
    test), NONE, URLPART (a component of urlparse), CONVERTED (url conversion without scheme test), OPAQUE."""
    bindings = bindings or {}
    if depth > 8:
        return {("OPAQUE", "depth")}
    fi = ctx.fn(q)
    g = get_cfg(ctx, q)
    if isinstance(expr, ast.Constant):
        return {("NONE", "None")} if expr.value is None else {("OPAQUE", repr(expr.value))}
    if isinstance(expr, ast.IfExp):
        return derive_path(ctx, entry_q, entry_dest, q, node, expr.body, bindings, depth + 1) | derive_path(ctx, entry_q, entry_dest, q, node, expr.orelse, bindings, depth + 1)
    if isinstance(expr, ast.Name):
        out = set()
        rd = reaching_defs(g, expr.id)[node.id]
        for d in sorted(rd):
            if d == -1:
                if q == entry_q and expr.id == entry_dest:
                    out.add(("IDENTITY", expr.id))
                elif (q, expr.id) in bindings:
                    cq, cnode, actual = bindings[(q, expr.id)]
                    out |= derive_path(ctx, entry_q, entry_dest, cq, cnode, actual, bindings, depth + 1)
                else:
                    # follow every call site in the closure of the entry function
                    found = False
                    for cq in ctx.helper_closure(entry_q, depth=3):
                        cf = ctx.fn(cq)
                        for c in calls_in(cf.node):
                            if call_name(c) == fi.name:
                                ps = fi.params[1:] if (fi.cls and not fi.is_static) else fi.params
                                actual = None
                                if expr.id in ps and ps.index(expr.id) < len(c.args):
                                    actual = c.args[ps.index(expr.id)]
                                for k in c.keywords:
                                    if k.arg == expr.id:
                                        actual = k.value
                                if actual is not None:
                                    found = True
                                    cg = get_cfg(ctx, cq)
                                    out |= derive_path(ctx, entry_q, entry_dest, cq, node_of(cg, c), actual, bindings, depth + 1)
                    if not found:
                        out.add(("OPAQUE", "parameter %s of %s" % (expr.id, fi.name)))
                continue
            st = g.nodes[d].stmt
            if isinstance(st, ast.Assign) and len(st.targets) == 1 and isinstance(st.targets[0], ast.Name):
                out |= derive_path(ctx, entry_q, entry_dest, q, g.nodes[d], st.value, bindings, depth + 1)
            elif isinstance(st, ast.Assign) and isinstance(st.value, ast.Call) and call_name(st.value) in ("urlparse", "urlsplit"):
                out.add(("URLPART", norm(st)[:60]))
            else:
                out.add(("OPAQUE", norm(st)[:60]))
        return out
    if isinstance(expr, ast.Call):
        name = call_name(expr)
        if name in ("url2pathname", "unquote"):
            dom = g.dominators(labels_excluded=("exc",))
            tests = [g.nodes[i] for i in dom.get(node.id, set()) if g.nodes[i].kind == "test"]
            ok = any("file" in norm(t.stmt.test) and "==" in norm(t.stmt.test) for t in tests)
            return {("FILEURL" if ok else "CONVERTED", norm(expr)[:50])}
        if name in ("fspath", "str") and expr.args:
            return derive_path(ctx, entry_q, entry_dest, q, node, expr.args[0], bindings, depth + 1)
        r = ctx.p.resolve_dotted(fi.module, expr.func) if dotted(expr.func) else None
        hq = r[1] if r and r[0] == "func" else (ctx.p.lookup_method(fi.cls, expr.func.attr) if isinstance(expr.func, ast.Attribute) and norm(expr.func.value) in ("self", "cls") and fi.cls else None)
        if hq and hq in ctx.p.functions:
            hf = ctx.fn(hq)
            hg = get_cfg(ctx, hq)
            ps = hf.params[1:] if (hf.cls and not hf.is_static) else hf.params
            nb = dict(bindings)
            for i, a in enumerate(expr.args):
                if i < len(ps):
                    nb[(hq, ps[i])] = (q, node, a)
            for k in expr.keywords:
                if k.arg:
                    nb[(hq, k.arg)] = (q, node, k.value)
            out = set()
            for n in walk_function(hf.node):
                if isinstance(n, ast.Return):
                    out |= derive_path(ctx, entry_q, entry_dest, hq, node_of(hg, n), n.value if n.value is not None else ast.Constant(value=None), nb, depth + 1)
            return out or {("NONE", "no return")}
        return {("OPAQUE", norm(expr)[:50])}
    return {("OPAQUE", norm(expr)[:50])}


def none_only_for_netloc(ctx: Ctx, q):
    """Every `return None` of helper q is dominated by a test that mentions only `netloc`."""
    g = get_cfg(ctx, q)
    dom = g.dominators(labels_excluded=("exc",))
    for n in g.nodes:
        if isinstance(n.stmt, ast.Return) and (n.stmt.value is None or (isinstance(n.stmt.value, ast.Constant) and n.stmt.value.value is None)):
            tests = [g.nodes[i] for i in dom.get(n.id, set()) if g.nodes[i].kind == "test"]
            if not any({x.id for x in ast.walk(t.stmt.test) if isinstance(x, ast.Name)} <= {"netloc"} and any(isinstance(x, ast.Name) for x in ast.walk(t.stmt.test)) for t in tests):
                return False
    return True


@rule("C17", "C17.R1", "the committed path is the caller's path (identity, or a file: URL converted under an explicit scheme test); a local name is never refused", 2,
      decides="'a#b.json', 'x?y', 'run:1.out' are written to exactly that name")
def c17_r1(ctx: Ctx, rule):
    res = RuleResult()
    q, fi, g, dest, commits = serialize_path_branch(ctx)
    if not commits:
        res.ob("no write-then-move commit in %s" % short(q))
        res.ob("(no reaching definitions to examine)", nontrivial=False)
        res.fail(rule.id, "no-commit", ctx.loc(q, fi.node), "ProvDocument.serialize no longer commits a finished temporary file to the destination (see C17.R3)",
                 "a failure while writing leaves a truncated destination")
        return res
    entry_q = DOC + ".serialize"
    entry_dest = ctx.fn(entry_q).params[1]
    if q != entry_q:
        for c in commits:
            kinds = derive_path(ctx, entry_q, entry_dest, q, node_of(g, c), c.args[1])
            bad = [k for k in kinds if k[0] not in ("IDENTITY", "FILEURL", "NONE")]
            res.ob("commit %s in %s: destination derives from %s" % (norm(c)[:40], fi.name, sorted(kinds)))
            for k in bad:
                res.fail(rule.id, "committed-path::%s" % k[1][:60], ctx.loc(q, c), "the destination of the commit can be %s (%s), which is not the caller's file name" % (k[0], k[1]),
                         "serialize(destination='a#b.json') writes to 'a'; 'x?y' to 'x'")
        # refusal: the entry function may only skip the holder when the path helper said None, and that only for a netloc
        ef = ctx.fn(entry_q)
        eg = get_cfg(ctx, entry_q)
        hold_nodes = {n.id for n in eg.nodes if n.stmt is not None and any(isinstance(x, ast.Call) and call_name(x) == fi.name for e in cfgmod.header_exprs(n.stmt) for x in ast.walk(e))}
        eb = [n for n in eg.nodes if n.kind == "test" and "hasattr" in norm(n.stmt.test) and "write" in norm(n.stmt.test)]
        starts = [m for n in eb for m, lab in n.succ if lab == "false"] or [eg.entry]

        def refusal_ok(a, b, lab):
            if a.kind == "test" and lab == "true":
                t = a.stmt.test
                names = {x.id for x in ast.walk(t) if isinstance(x, ast.Name)}
                if names and names <= {"netloc"}:
                    return False
                if isinstance(t, ast.Compare) and isinstance(t.ops[0], ast.Is) and isinstance(t.comparators[0], ast.Constant) and t.comparators[0].value is None and isinstance(t.left, ast.Name):
                    d = resolve_local(ef.node, t.left)
                    if isinstance(d, ast.Call) and isinstance(d.func, ast.Name):
                        r = ctx.p.resolve_name(ef.module, d.func.id)
                        if r and r[0] == "func" and none_only_for_netloc(ctx, r[1]):
                            return False
            return True

        # inside the holder: an early return before the commit only for a network location
        commit_ids_h = {node_of(g, c).id for c in commits}

        def only_netloc(a, b, lab):
            if a.kind == "test" and lab == "true":
                names = {x.id for x in ast.walk(a.stmt.test) if isinstance(x, ast.Name)}
                if names and names <= {"netloc"} and any(isinstance(x, ast.Return) for s0 in a.stmt.body for x in ast.walk(s0)):
                    return False
            return True

        ph = g.find_path(g.entry, g.exit, avoid=lambda n: n.id in commit_ids_h, labels_excluded=("exc", "raise"), edge_ok=only_netloc)
        res.ob("%s reaches its commit on every path except the netloc refusal: %s" % (fi.name, ph is None))
        if ph is not None:
            tests = [n for n, _ in ph if n.kind == "test"]
            res.fail(rule.id, "local-name-refused::%s" % (norm(tests[-1].stmt.test)[:60] if tests else "?"), ctx.loc(q, tests[-1].stmt if tests else fi.node),
                     "%s can return without writing for a destination that is not a network location" % fi.name,
                     "a plain file name that urlparse gives a scheme ('prov:bundle1.out') is silently not written")
        for st in starts:
            if st.id in hold_nodes:
                res.ob("the path branch of serialize hands the destination to %s unconditionally" % fi.name)
                continue
            p = eg.find_path(st, eg.exit, avoid=lambda n: n.id in hold_nodes, labels_excluded=("exc", "raise"), edge_ok=refusal_ok)
            res.ob("every local destination reaches the commit (only a non-empty netloc is refused): %s" % (p is None))
            if p is not None:
                tests = [n for n, _ in p if n.kind == "test"]
                res.fail(rule.id, "local-name-refused::%s" % (norm(tests[-1].stmt.test)[:60] if tests else "?"), ctx.loc(entry_q, tests[-1].stmt if tests else ef.node),
                         "serialize(path) can return without writing for a destination that is not a network location",
                         "a plain file name that urlparse gives a scheme ('prov:bundle1.out') is silently not written")
        return res
    for c in commits:
        cn = node_of(g, c)
        darg = c.args[1]
        if not isinstance(darg, ast.Name):
            src = norm(darg)
            ok = src in (dest,)
            res.ob("commit %s: destination expression %s" % (norm(c)[:50], src))
            if not ok:
                res.fail(rule.id, "committed-path::%s" % src, ctx.loc(q, c), "the file is committed to %s, not to the caller's destination" % src, "a name with URL syntax is written elsewhere")
            continue
        rd = reaching_defs(g, darg.id)[cn.id]
        for d in sorted(rd):
            if d == -1:
                ok, how = darg.id == dest, "the parameter itself"
            else:
                st = g.nodes[d].stmt
                val = st.value if isinstance(st, ast.Assign) else None
                how = norm(st)[:70]
                ok = False
                if isinstance(st, ast.Assign) and len(st.targets) == 1 and isinstance(st.targets[0], ast.Name):
                    v = resolve_local(fi.node, val)
                    if isinstance(v, ast.Name) and v.id == dest:
                        ok = True
                    elif isinstance(v, ast.Call) and call_name(v) in ("url2pathname", "unquote", "fspath", "str"):
                        # conversion of a file: URL - must be dominated by an explicit scheme test
                        dom = g.dominators(labels_excluded=("exc",))
                        tests = [g.nodes[i] for i in dom.get(d, set()) if g.nodes[i].kind == "test"]
                        ok = call_name(v) in ("fspath", "str") or any("file" in norm(t.stmt.test) and "==" in norm(t.stmt.test) for t in tests)
                        how += "  [under %s]" % [norm(t.stmt.test) for t in tests if "file" in norm(t.stmt.test)]
            res.ob("commit %s: reaching definition of %s: %s: caller's path=%s" % (norm(c)[:40], darg.id, how, ok))
            if not ok:
                res.fail(rule.id, "committed-path::%s" % how[:60], ctx.loc(q, g.nodes[d].stmt if d != -1 else c),
                         "the destination of the commit can be `%s`, which is not the caller's file name" % how[:70],
                         "serialize(destination='a#b.json') writes to 'a'; 'x?y' to 'x'")
    # no local name is refused: an early return on the path branch may depend on netloc only
    first_commit = node_of(g, commits[0])
    entry_branch = [n for n in g.nodes if n.kind == "test" and "hasattr" in norm(n.stmt.test) and "write" in norm(n.stmt.test)]
    start = entry_branch[0] if entry_branch else g.entry
    commit_ids = {node_of(g, c).id for c in commits}

    def only_netloc_refusal(a, b, lab):
        if a.kind == "test" and lab == "true":
            names = {x.id for x in ast.walk(a.stmt.test) if isinstance(x, ast.Name)}
            if names and names <= {"netloc"} and any(isinstance(x, ast.Return) for s0 in a.stmt.body for x in ast.walk(s0)):
                return False
        return True

    starts = [m for m, lab in start.succ if lab == "false"] if entry_branch else [g.entry]
    for st in starts:
        p = g.find_path(st, g.exit, avoid=lambda n: n.id in commit_ids, labels_excluded=("exc", "raise"), edge_ok=only_netloc_refusal)
        res.ob("every local destination reaches the commit (only a non-empty netloc is refused): %s" % (p is None))
        if p is not None:
            tests = [n for n, _ in p if n.kind == "test"]
            res.fail(rule.id, "local-name-refused::%s" % (norm(tests[-1].stmt.test)[:60] if tests else "?"), ctx.loc(q, tests[-1].stmt if tests else fi.node),
                     "serialize(path) can return without writing for a destination that is not a network location: %s" % " -> ".join(repr(n) for n, _ in p[-4:]),
                     "a plain file name that urlparse gives a scheme ('prov:bundle1.out') is silently not written")
    return res


@rule("C17", "C17.R2", "write, close, then move: the commit is dominated by the normal completion of the write and of close(), and unreachable from their failures", 2,
      decides="a failed serialisation can never replace the destination")
def c17_r2(ctx: Ctx, rule):
    res = RuleResult()
    q, fi, g, dest, commits = serialize_path_branch(ctx)
    if not commits:
        res.ob("no commit call (reported by C17.R1/R3)", nontrivial=False)
        res.ob("-", nontrivial=False)
        return res
    dom = g.dominators(labels_excluded=("exc", "raise"))
    for c in commits:
        cn = node_of(g, c)
        src = c.args[0]
        doms = [g.nodes[i] for i in dom.get(cn.id, set())]
        writes = [n for n in doms if n.stmt is not None and any(isinstance(x, ast.Call) and call_name(x) == "serialize" for e in cfgmod.header_exprs(n.stmt) for x in ast.walk(e))]
        def with_closed_before(n):
            # a `with` closes its stream when the block is left: the commit must come after the block, not inside it
            return n.kind == "with" and not any(x is c for b in n.stmt.body for x in ast.walk(b))

        closes = [n for n in doms if n.stmt is not None and (any(isinstance(x, ast.Call) and call_name(x) == "close" for e in cfgmod.header_exprs(n.stmt) for x in ast.walk(e)) or with_closed_before(n))]
        ok_order = bool(writes) and bool(closes)
        res.ob("commit %s: dominated by the write (%s) and by close/with (%s)" % (norm(c)[:40], bool(writes), bool(closes)))
        if not ok_order:
            res.fail(rule.id, "commit-not-after-write::%s" % norm(c)[:40], ctx.loc(q, c), "the commit is not dominated by the completed write and close of the temporary file",
                     "an unfinished temporary file is moved over the destination")
        # reachable from an exceptional exit of the write / close?  (a `finally:` body exists twice in the CFG)
        bad = None
        copies = g.node_containing(c)
        for w in writes + closes + [n for n in g.nodes if n.stmt is not None and any(isinstance(x, ast.Call) and call_name(x) in ("serialize", "write", "close") for e in cfgmod.header_exprs(n.stmt) for x in ast.walk(e))]:
            for t, lab in w.succ:
                if lab in ("exc", "raise") and any(t is cc or g.exists_path(t, cc) for cc in copies):
                    bad = w
        res.ob("commit %s: unreachable from a failed write/close: %s" % (norm(c)[:40], bad is None))
        if bad is not None:
            res.fail(rule.id, "commit-after-failure::%s" % norm(c)[:40], ctx.loc(q, c), "the commit can run after `%s` raised (e.g. from a finally: block)" % norm(bad.stmt)[:60],
                     "a serializer failing half-way replaces the destination with a truncated document")
    return res


@rule("C17", "C17.R3", "the destination is never opened for writing or otherwise touched before the commit", 1,
      decides="nothing but the final move changes the named file")
def c17_r3(ctx: Ctx, rule):
    res = RuleResult()
    q, fi, g, dest, commits = serialize_path_branch(ctx)
    derived = {dest}
    changed = True
    while changed:
        changed = False
        for n in walk_function(fi.node):
            if isinstance(n, ast.Assign):
                if any(isinstance(x, ast.Name) and x.id in derived for x in ast.walk(n.value)):
                    for t in n.targets:
                        for x in ast.walk(t):
                            if isinstance(x, ast.Name) and x.id not in derived and x.id not in ("stream", "serializer", "fd", "name"):
                                derived.add(x.id)
                                changed = True
    SAFE = {"urlparse", "url2pathname", "hasattr", "isinstance", "print", "str", "fspath", "serialize", "getvalue", "get"}
    n_sites = 0
    for c in calls_in(fi.node):
        if c in commits:
            continue
        uses = [a for a in list(c.args) + [k.value for k in c.keywords] if any(isinstance(x, ast.Name) and x.id in derived for x in ast.walk(a))]
        if not uses:
            continue
        n_sites += 1
        name = call_name(c)
        d = dotted(c.func) or name
        mode = None
        if name == "open" or d in ("io.open", "os.open", "codecs.open"):
            m = c.args[1] if len(c.args) > 1 else next((k.value for k in c.keywords if k.arg == "mode"), None)
            mode = m.value if isinstance(m, ast.Constant) else "r"
        is_stream_call = name == "serialize" and norm(uses[0]) == "stream"
        bad = (mode is not None and any(ch in str(mode) for ch in "wax+")) or d in ("os.remove", "os.unlink", "os.truncate", "shutil.rmtree", "os.rename") or name in ("truncate", "unlink", "write_text", "write_bytes", "touch")
        res.ob("%s uses the destination in %s: touches the file before commit=%s" % (short(q), norm(c)[:60], bad))
        if bad:
            res.fail(rule.id, "destination-touched::%s" % norm(c)[:60], ctx.loc(q, c), "serialize(path) applies `%s` to the destination itself" % norm(c)[:60],
                     "a write failing half-way (disk full) leaves the named file truncated; its previous content is lost")
    res.ob("calls mentioning the destination besides the commit: %d" % n_sites, nontrivial=False)
    return res


# ===================================================================================== C16
def registry_classes(ctx: Ctx):
    reg = ctx.registry_table()
    return {k: v.qual for k, v in reg.items() if isinstance(v, ClassRef)}


def assigned_value(stmt, name):
    """The expression assigned to `name` by the statement (pairwise for tuple assignments); None if assigned an unknown
    value; False if the statement does not assign it."""
    if not isinstance(stmt, ast.Assign):
        return False
    for t in stmt.targets:
        if isinstance(t, ast.Name) and t.id == name:
            return stmt.value
        if isinstance(t, (ast.Tuple, ast.List)):
            for i, e in enumerate(t.elts):
                if isinstance(e, ast.Name) and e.id == name:
                    if isinstance(stmt.value, (ast.Tuple, ast.List)) and len(stmt.value.elts) == len(t.elts):
                        return stmt.value.elts[i]
                    return None
    return False


@rule("C16", "C16.R1", "stream typestate in prov.read: a stream is never handed to a second format attempt un-rewound", 1, family="F-STATE",
      decides="format detection works on streams as it does on paths")
def c16_r1(ctx: Ctx, rule):
    res = RuleResult()
    q = "prov.read"
    fi = ctx.fn(q)
    g = get_cfg(ctx, q)
    src = fi.params[0]
    aliases = {src}

    def consuming_calls(n):
        out = []
        if n.stmt is None:
            return out
        for e in cfgmod.header_exprs(n.stmt):
            for c in ast.walk(e):
                if isinstance(c, ast.Call) and call_name(c) in ("deserialize", "read", "parse", "load", "loads"):
                    args = list(c.args) + [k.value for k in c.keywords if k.arg in (None, "source", "stream", "fp")]
                    recv = c.func.value if isinstance(c.func, ast.Attribute) else None
                    if any(isinstance(a, ast.Name) and a.id in aliases for a in args) or (call_name(c) == "read" and isinstance(recv, ast.Name) and recv.id in aliases):
                        out.append(c)
        return out

    universe = {"NS", "RW"}

    def stream_predicates():
        """helper functions whose body is `return hasattr(x, "read")`."""
        out = set()
        for q2 in ctx.helper_closure(q):
            f2 = ctx.fn(q2)
            body = [s0 for s0 in f2.node.body if not (isinstance(s0, ast.Expr) and isinstance(s0.value, ast.Constant))]
            if len(body) == 1 and isinstance(body[0], ast.Return) and isinstance(body[0].value, ast.Call) and call_name(body[0].value) == "hasattr" and len(body[0].value.args) == 2:
                a0, a1 = body[0].value.args
                if isinstance(a1, ast.Constant) and a1.value == "read" and f2.params and norm(a0) == f2.params[-1]:
                    out.add(f2.name)
        return out

    preds = stream_predicates()

    def gen_edge(a, b, lab):
        out = set()
        if a.kind == "test":
            t = norm(a.stmt.test)
            for pname in preds:
                t = t.replace("%s(%s)" % (pname, src), 'hasattr(%s, "read")' % src)
            if t == 'hasattr(%s, "read")' % src or t == "hasattr(%s, 'read')" % src:
                if lab == "false":
                    out.add("NS")
            if t in ("not hasattr(%s, 'read')" % src,) and lab == "true":
                out.add("NS")
            if t.startswith("isinstance(%s, (str" % src) or t == "isinstance(%s, str)" % src:
                if lab == "true":
                    out.add("NS")
        return out

    def kill_node(n, facts):
        s = n.stmt
        if s is None or n.kind in ("test", "loop", "try", "handler", "with"):
            if n.kind == "loop" and consuming_calls(n):
                facts.discard("RW")
            return facts
        if consuming_calls(n):
            facts.discard("RW")
        newval = assigned_value(s, src)
        if newval is not False:
            facts.discard("NS")
            facts.discard("RW")
            if isinstance(newval, ast.Constant) and (newval.value is None or isinstance(newval.value, (str, bytes))):
                facts.add("NS")
        for c in ast.walk(s):
            if isinstance(c, ast.Call) and call_name(c) == "seek" and isinstance(c.func.value, ast.Name) and c.func.value.id in aliases and c.args and isinstance(c.args[0], ast.Constant) and c.args[0].value == 0:
                facts.add("RW")
        return facts

    IN = g.must_forward(gen_edge, kill_node, universe)
    # may-analysis: the stream may already have been consumed when control reaches a node
    MAY = {n.id: False for n in g.nodes}
    OUTM = {n.id: False for n in g.nodes}
    changed = True
    while changed:
        changed = False
        for n in g.nodes:
            i = any(OUTM[p.id] for p, lab in n.pred)
            o = i
            s0 = n.stmt
            if s0 is not None and n.kind not in ("test", "try", "handler"):
                if assigned_value(s0, src) is not False:
                    o = False
                if any(isinstance(c, ast.Call) and call_name(c) == "seek" and isinstance(c.func.value, ast.Name) and c.func.value.id in aliases for c in ast.walk(s0)):
                    o = False
            if consuming_calls(n) and "NS" not in IN.get(n.id, set()):
                o = True
            if i != MAY[n.id] or o != OUTM[n.id]:
                MAY[n.id], OUTM[n.id] = i, o
                changed = True
    n_calls = 0
    for n in g.nodes:
        cs = consuming_calls(n)
        if not cs or n.id not in IN:
            continue
        for c in cs:
            n_calls += 1
            safe = ("NS" in IN[n.id]) or not MAY[n.id]
            res.ob("%s: `%s` [stream may already be consumed: %s; must-facts: %s] safe=%s" % (q, norm(c)[:70], MAY[n.id], sorted(IN[n.id]), safe))
            if not safe:
                res.fail(rule.id, "stream-consumed-twice::%s" % norm(c)[:60], ctx.loc(q, c),
                         "`%s` can run on a stream an earlier format attempt has already consumed" % norm(c)[:60],
                         "prov.read(stream holding PROV-XML or RDF): the JSON attempt eats the stream, the right deserializer sees an empty input")
    if n_calls == 0:
        raise AnalysisError("prov.read: no consuming call on the source found")
    return res


@rule("C16", "C16.R2", "serializer siblings: every serialize discriminates text from binary targets and converts with explicit UTF-8, on whole contents", 8, family="F-SIB",
      decides="string / text stream / binary stream / path receive the same text")
def c16_r2(ctx: Ctx, rule):
    res = RuleResult()
    reg = registry_classes(ctx)
    for fmt, cls in sorted(reg.items()):
        q = ctx.p.lookup_method(cls, "serialize")
        fi = ctx.fn(q)
        scl = [x for x in ctx.helper_closure(q) if ctx.fn(x).module == fi.module]
        tests = [n for x in scl for n in walk_function(ctx.fn(x).node) if isinstance(n, ast.Call) and call_name(n) == "isinstance" and len(n.args) == 2 and "TextIOBase" in norm(n.args[1])]
        res.ob("%s.serialize discriminates text targets (isinstance(.., io.TextIOBase)): %s" % (cls.rsplit(".", 1)[1], bool(tests)))
        if not tests:
            res.fail(rule.id, "no-text-binary-discrimination::%s" % cls, ctx.loc(q, fi.node), "%s.serialize writes the same object to text and binary targets" % cls.rsplit(".", 1)[1],
                     "serialize(StringIO) or serialize(BytesIO/path) raises TypeError")
        for c in [c for x in scl for c in calls_in(ctx.fn(x).node)]:
            if call_name(c) in ("encode", "decode"):
                enc = c.args[0].value if c.args and isinstance(c.args[0], ast.Constant) else next((k.value.value for k in c.keywords if k.arg == "encoding" and isinstance(k.value, ast.Constant)), None)
                ok = enc is None or str(enc).lower().replace("-", "") == "utf8"
                recv = c.func.value
                partial = isinstance(recv, ast.Call) and call_name(recv) in ("read", "read1", "readline") and (recv.args or recv.keywords)
                # a chunk variable filled by read(n)
                if isinstance(recv, ast.Name):
                    for a in walk_function(fi.node):
                        if isinstance(a, (ast.For, ast.comprehension)) and any(isinstance(t, ast.Name) and t.id == recv.id for t in ast.walk(a.target)):
                            if any(isinstance(x, ast.Call) and call_name(x) in ("read", "read1", "readline", "iter_chunks", "iter_content") and (x.args or x.keywords) for x in ast.walk(a.iter)):
                                partial = True
                        if isinstance(a, (ast.Assign, ast.NamedExpr)) and isinstance(a.value, ast.Call) and call_name(a.value) in ("read", "read1") and (a.value.args or a.value.keywords):
                            tg = a.targets if isinstance(a, ast.Assign) else [a.target]
                            if any(isinstance(t, ast.Name) and t.id == recv.id for t in tg):
                                partial = True
                res.ob("%s.serialize: %s  [utf-8: %s; whole content: %s]" % (cls.rsplit(".", 1)[1], norm(c)[:60], ok, not partial))
                if not ok:
                    res.fail(rule.id, "non-utf8-conversion::%s::%s" % (cls, norm(c)[:40]), ctx.loc(q, c), "%s converts with %r instead of UTF-8" % (norm(c)[:50], enc), "non-ASCII content differs between text and binary targets")
                if partial:
                    res.fail(rule.id, "partial-chunk-conversion::%s::%s" % (cls, norm(c)[:40]), ctx.loc(q, c), "%s converts a fixed-size chunk on its own: a multi-byte character can straddle the chunk boundary" % norm(c)[:50],
                             "a document longer than the chunk size with a non-ASCII character on the boundary raises UnicodeDecodeError for text targets only")
        dq = ctx.p.lookup_method(cls, "deserialize")
        df = ctx.fn(dq)
        raises_ni = any(isinstance(n, ast.Raise) and "NotImplementedError" in norm(n) for n in walk_function(df.node))
        dcl = [x for x in ctx.helper_closure(dq) if ctx.fn(x).module == df.module]
        dtests = [n for x in dcl for n in walk_function(ctx.fn(x).node) if isinstance(n, ast.Call) and call_name(n) == "isinstance" and len(n.args) == 2 and "TextIOBase" in norm(n.args[1])]
        delegated = any(call_name(c) == "parse" and not isinstance(c.func.value, ast.Name) or (call_name(c) == "parse" and "etree" not in norm(c.func)) for c in calls_in(df.node)) and fmt == "rdf"
        ok = bool(dtests) or raises_ni or delegated
        res.ob("%s.deserialize accepts text and binary streams: %s%s" % (cls.rsplit(".", 1)[1], ok, " (write-only format)" if raises_ni else " (delegated to rdflib)" if delegated else ""))
        if delegated:
            res.exceptions.append("ProvRDFSerializer.deserialize hands the stream to rdflib, which accepts both kinds")
        if not ok:
            res.fail(rule.id, "deserialize-one-kind::%s" % cls, ctx.loc(dq, df.node), "%s.deserialize handles only one kind of stream" % cls.rsplit(".", 1)[1], "deserialize(BytesIO) or deserialize(StringIO) fails for that format")
    return res


@rule("C16", "C16.R4", "a path source is opened in binary mode or with explicit UTF-8; content bytes are decoded as UTF-8", 2,
      decides="reading a file does not depend on the locale")
def c16_r4(ctx: Ctx, rule):
    res = RuleResult()
    q = DOC + ".deserialize"
    fi = ctx.fn(q)
    opens = [c for c in calls_in(fi.node) if call_name(c) == "open"]
    if not opens:
        res.ob("deserialize does not open paths itself", nontrivial=False)
    for c in opens:
        m = c.args[1] if len(c.args) > 1 else next((k.value for k in c.keywords if k.arg == "mode"), None)
        mode = m.value if isinstance(m, ast.Constant) else "r"
        enc = next((k.value.value for k in c.keywords if k.arg == "encoding" and isinstance(k.value, ast.Constant)), None)
        ok = "b" in str(mode) or (enc is not None and str(enc).lower().replace("-", "") == "utf8")
        # the name that is opened is the caller's: the source itself, or - only under a test for the file: scheme - its URL path
        src_param = fi.params[1] if len(fi.params) > 1 else None
        if src_param is None and "source" in fi.params:
            src_param = "source"
        for pn in fi.params:
            if pn == "source":
                src_param = pn
        a0 = c.args[0] if c.args else None
        def own_name(e):
            if isinstance(e, ast.Name) and e.id == src_param:
                return True
            if isinstance(e, ast.Call) and call_name(e) in ("fspath", "str", "abspath", "expanduser", "fsdecode") and e.args:
                return own_name(e.args[0])
            return False
        named_ok = True
        if isinstance(a0, ast.Name) and a0.id != src_param:
            parents = {}
            for x in ast.walk(fi.node):
                for ch in ast.iter_child_nodes(x):
                    parents[id(ch)] = x
            for st in walk_function(fi.node):
                tgt_hit = isinstance(st, ast.Assign) and any(isinstance(y, ast.Name) and y.id == a0.id for t in st.targets for y in ast.walk(t))
                if not tgt_hit:
                    continue
                if len(st.targets) == 1 and isinstance(st.targets[0], ast.Name) and own_name(st.value):
                    continue
                cur, under_file_test = st, False
                while id(cur) in parents:
                    cur = parents[id(cur)]
                    if isinstance(cur, ast.If) and any(isinstance(k, ast.Constant) and k.value == "file" for k in ast.walk(cur.test)):
                        under_file_test = True
                if not under_file_test:
                    named_ok = False
                    res.fail(rule.id, "opened-name-not-the-source::%s" % norm(st)[:50], ctx.loc(q, st),
                             "deserialize opens `%s`, which `%s` sets for every source, not only for file: URLs: a plain file name is cut where URL syntax would end the path" % (a0.id, norm(st)[:60]),
                             "a file named run#2.json (or a?b.json, a;b.json) written by serialize() cannot be read back by path: the reader opens 'run'")
        res.ob("deserialize: %s  [binary or explicit utf-8: %s; the caller's own name: %s]" % (norm(c), ok, named_ok))
        if not ok:
            res.fail(rule.id, "locale-dependent-open::%s" % norm(c), ctx.loc(q, c), "%s decodes the file with the locale's preferred encoding" % norm(c),
                     "a UTF-8 PROV-XML/JSON file with non-ASCII content cannot be read under a C/ASCII or latin-1 locale (or is mis-decoded)")
    for c in calls_in(fi.node):
        if call_name(c) == "decode":
            enc = c.args[0].value if c.args and isinstance(c.args[0], ast.Constant) else None
            ok = enc is None or str(enc).lower().replace("-", "") == "utf8"
            res.ob("deserialize: %s  [utf-8: %s]" % (norm(c), ok))
            if not ok:
                res.fail(rule.id, "content-bytes-non-utf8::%s" % norm(c), ctx.loc(q, c), "content bytes are decoded as %r" % enc, "bytes produced by serialize() do not read back")
    return res


RULES.setdefault("C16", []).append(Rule("C16.R5", "the file a path destination names receives the complete text: the temporary file is written and closed before it is moved (shared with C17.R2)", 2, c17_r2, "F-PATH",
                                        "serialize(destination=path) cannot move a file whose buffered tail has not been flushed"))


# ===================================================================================== C17.R4 failures propagate / C17.R5 = C16.R7 whole buffer
def serializer_write_closure(ctx: Ctx):
    out = []
    for fmt, cls in sorted(registry_classes(ctx).items()):
        q = ctx.p.lookup_method(cls, "serialize")
        if q is None:
            raise AnalysisError("serializer %s has no serialize()" % cls)
        for q2 in ctx.helper_closure(q, 2):
            if q2 not in out:
                out.append(q2)
    return out


def _handler_swallows(h: ast.ExceptHandler):
    """The handler neither re-raises nor raises another exception on every path (syntactic: no Raise at its top level or in all branches)."""
    def always_raises(stmts):
        for s in stmts:
            if isinstance(s, ast.Raise):
                return True
            if isinstance(s, ast.If) and always_raises(s.body) and s.orelse and always_raises(s.orelse):
                return True
        return False

    return not always_raises(h.body)


def c17_r4(ctx: Ctx, rule):
    res = RuleResult()
    # (a) context managers of the package never suppress exceptions
    n_exit = 0
    for q, fi in ctx.p.functions.items():
        if fi.name != "__exit__" or fi.module.startswith("scripts."):
            continue
        n_exit += 1
        rets = [n for n in walk_function(fi.node) if isinstance(n, ast.Return) and n.value is not None and not (isinstance(n.value, ast.Constant) and n.value.value in (None, False))]
        res.ob("%s: returns only None/False (cannot suppress an exception): %s" % (short(q), not rets))
        for r in rets:
            res.fail(rule.id, "exit-suppresses::%s" % q, ctx.loc(q, r), "%s returns `%s`: a truthy value makes the `with` statement swallow the exception raised in its body" % (short(q), norm(r.value)[:50]),
                     "a serializer failing half-way returns normally, and serialize(path) moves the truncated temporary file over the destination")
    res.ob("context managers (__exit__) defined in the package: %d" % n_exit, nontrivial=False)
    # (b) no handler on a serializer's write path swallows a failure of the write
    cl = serializer_write_closure(ctx)
    res.ob("functions on the four serializers' write paths: %d" % len(cl))
    n_try = 0
    for q in cl:
        fi = ctx.fn(q)
        for t in walk_function(fi.node):
            if isinstance(t, ast.With):
                for it in t.items:
                    if isinstance(it.context_expr, ast.Call) and (dotted(it.context_expr.func) or "").endswith("suppress"):
                        res.fail(rule.id, "suppress::%s" % q, ctx.loc(q, t), "%s runs part of the write under contextlib.suppress" % short(q), "a failed write goes unnoticed; the commit follows")
            if not isinstance(t, ast.Try):
                continue
            writes = [c for b in t.body for c in ast.walk(b) if isinstance(c, ast.Call) and call_name(c) in ("write", "dump", "dumps", "serialize", "tostring", "writelines", "flush", "close")]
            if not writes:
                continue
            n_try += 1
            for h in t.handlers:
                caught = norm(h.type) if h.type is not None else "<bare>"
                swallow = _handler_swallows(h)
                res.ob("%s: handler `except %s` around %s re-raises: %s" % (short(q), caught, norm(writes[0])[:40], not swallow))
                if swallow:
                    res.fail(rule.id, "write-failure-swallowed::%s::%s" % (q, caught), ctx.loc(q, h), "%s catches %s around `%s` and carries on" % (short(q), caught, norm(writes[0])[:40]),
                             "a write error (disk full) is absorbed by the serializer; serialize(path) then replaces the destination with the partial file")
    res.ob("try statements around writes on those paths: %d" % n_try, nontrivial=False)
    return res


def c17_r5(ctx: Ctx, rule):
    """A length (or index bound) taken from a buffer is not used after the buffer variable has been rebound: `size = len(s)` followed by
    `s = s.encode(...)` and a loop over range(size) writes a prefix of the bytes only."""
    res = RuleResult()
    cl = serializer_write_closure(ctx) + [M + ".ProvDocument.serialize"]
    n = 0
    for q in cl:
        fi = ctx.fn(q)
        g = None
        for a in walk_function(fi.node):
            if not (isinstance(a, ast.Assign) and len(a.targets) == 1 and isinstance(a.targets[0], ast.Name) and isinstance(a.value, ast.Call) and call_name(a.value) == "len"
                    and a.value.args and isinstance(a.value.args[0], ast.Name)):
                continue
            N, V = a.targets[0].id, a.value.args[0].id
            n += 1
            g = g or get_cfg(ctx, q)
            an = node_of(g, a)
            rebinds = [x for x in walk_function(fi.node) if isinstance(x, (ast.Assign, ast.AugAssign)) and x is not a
                       and any(isinstance(t, ast.Name) and t.id == V for t in (x.targets if isinstance(x, ast.Assign) else [x.target]))]
            stale = None
            for rb in rebinds:
                for rn in g.node_containing(rb):
                    if not (rn is an or g.exists_path(an, rn)):
                        continue
                    # a use of N reachable from the rebinding without passing a fresh `N = ...`
                    def redefines(m):
                        return m.stmt is not None and isinstance(m.stmt, ast.Assign) and any(isinstance(t, ast.Name) and t.id == N for t in m.stmt.targets)
                    for un in g.nodes:
                        if un.stmt is None or un is rn:
                            continue
                        uses = any(isinstance(x, ast.Name) and x.id == N and isinstance(x.ctx, ast.Load) for e in cfgmod.header_exprs(un.stmt) for x in ast.walk(e))
                        if uses and g.exists_path(rn, un, avoid=redefines):
                            stale = (rb, un)
            res.ob("%s: `%s` stays the length of `%s` wherever it is used: %s" % (short(q), N, V, stale is None))
            if stale:
                rb, un = stale
                res.fail(rule.id, "stale-length::%s::%s" % (q, N), ctx.loc(q, un.stmt),
                         "%s uses `%s = len(%s)` at line %d after `%s` (line %d) rebound %s: the bound no longer measures the buffer" % (short(q), N, V, getattr(un.stmt, "lineno", 0), norm(rb)[:50], rb.lineno, V),
                         "a large document with non-ASCII text written to a binary stream or a path: only the first len(text) bytes of the longer UTF-8 encoding are written")
    res.ob("lengths taken of buffers on the write paths: %d" % n, nontrivial=False)
    # slices of the buffer handed to write(): a slice with *constant* bounds (x[:-1], x[1:], x[:n]) is not the whole buffer whatever
    # the producer wrote (the last byte of a JSON-LD document is its closing bracket); a slice bounded by loop variables is chunking
    for q in cl:
        fq = ctx.fn(q)
        for c in calls_in(fq.node):
            if call_name(c) != "write" or not c.args:
                continue
            a = c.args[0]
            cands = [a, resolve_local(fq.node, a)]
            for x in list(cands):
                if isinstance(x, ast.Call) and isinstance(x.func, ast.Attribute) and x.func.attr in ("decode", "encode"):
                    cands.append(x.func.value)
                    cands.append(resolve_local(fq.node, x.func.value))
            for x in cands:
                if isinstance(x, ast.Subscript) and isinstance(x.slice, ast.Slice):
                    bounds = [b for b in (x.slice.lower, x.slice.upper) if b is not None]
                    const = bool(bounds) and all(isinstance(b, ast.Constant) or (isinstance(b, ast.UnaryOp) and isinstance(b.operand, ast.Constant)) for b in bounds)
                    res.ob("%s writes a slice %s: %s" % (short(q), norm(x)[:50], "CONSTANT bounds" if const else "chunked output"))
                    if const:
                        res.fail(rule.id, "constant-slice-written::%s" % q, ctx.loc(q, x), "%s writes %s: a fixed part of the produced buffer is cut off" % (short(q), norm(x)[:50]),
                                 "serialize(path, format='rdf', rdf_format='json-ld') writes the document without its closing bracket")
    res.ob("functions examined: %d" % len(cl))
    return res


RULES.setdefault("C17", []).append(Rule("C17.R4", "a failure inside a serializer reaches serialize(): no __exit__ returns a truthy value, no handler or suppress() absorbs a failed write", 2, c17_r4, "F-PATH",
                                        "the all-or-nothing commit of C17.R2 sees every failure"))
RULES.setdefault("C17", []).append(Rule("C17.R5", "the whole buffer is written: a length taken before the buffer is re-encoded is not used afterwards", 1, c17_r5, "F-PATH",
                                        "the file holds the complete serialisation"))
RULES.setdefault("C16", []).append(Rule("C16.R7", "the whole buffer is written to every destination kind (shared with C17.R5)", 1, c17_r5, "F-PATH",
                                        "binary targets receive the complete UTF-8 text"))
RULES.setdefault("C16", []).append(Rule("C16.R8", "serializer failures propagate (shared with C17.R4)", 2, c17_r4, "F-PATH",
                                        "a destination never silently holds a partial text"))


# ===================================================================================== text reaches the stream as produced (C06.R12 = C16.R10)
PASS_THROUGH_METHODS = {"encode", "decode", "read", "getvalue", "seek", "write", "close", "format"}


def text_as_produced(ctx: Ctx, rule):
    """ProvNSerializer.serialize writes what get_provn() returned: between the producer and stream.write the text may only be
    encoded.  Any other string operation on it (splitlines/strip/replace/join ...) rewrites content: PROV-N is not line-oriented
    (a line break, a trailing blank or U+2028 inside a string literal is content)."""
    res = RuleResult()
    cls = registry_classes(ctx).get("provn")
    if not cls:
        raise AnalysisError("no provn serializer registered")
    q = ctx.p.lookup_method(cls, "serialize")
    cl = ctx.helper_closure(q, 2)
    produced = 0
    for q2 in cl:
        fi = ctx.fn(q2)
        tainted = set()
        for a in walk_function(fi.node):
            if isinstance(a, ast.Assign) and len(a.targets) == 1 and isinstance(a.targets[0], ast.Name) and any(isinstance(c, ast.Call) and call_name(c) == "get_provn" for c in ast.walk(a.value)):
                tainted.add(a.targets[0].id)
                produced += 1
        changed = True
        while changed:
            changed = False
            for a in walk_function(fi.node):
                if isinstance(a, ast.Assign) and len(a.targets) == 1 and isinstance(a.targets[0], ast.Name) and a.targets[0].id not in tainted and any(isinstance(x, ast.Name) and x.id in tainted for x in ast.walk(a.value)):
                    tainted.add(a.targets[0].id)
                    changed = True
        for c in calls_in(fi.node):
            if isinstance(c.func, ast.Attribute) and isinstance(c.func.value, ast.Name) and c.func.value.id in tainted and c.func.attr not in PASS_THROUGH_METHODS:
                res.ob("%s: %s rewrites the produced text" % (short(q2), norm(c)[:50]))
                res.fail(rule.id, "provn-text-rewritten::%s::%s" % (q2, c.func.attr), ctx.loc(q2, c), "%s applies .%s() to the text get_provn() produced before writing it" % (short(q2), c.func.attr),
                         "a multi-line string value with a trailing blank before a line break (or containing U+2028) is written changed: serialize(format='provn') and get_provn() disagree")
            if call_name(c) == "join" and any(isinstance(x, ast.Name) and x.id in tainted for a in c.args for x in ast.walk(a)):
                res.fail(rule.id, "provn-text-rewritten::%s::join" % q2, ctx.loc(q2, c), "%s re-assembles the produced text with join()" % short(q2), "line-wise processing changes string literals that span lines")
        res.ob("%s: variables holding the produced PROV-N text: %s; only encode/write applied: checked" % (short(q2), sorted(tainted)))
    if not produced:
        raise AnalysisError("the provn serializer no longer obtains its text from get_provn()")
    return res


RULES.setdefault("C06", []).append(Rule("C06.R12", "the PROV-N serializer writes the text get_provn() produced, encoded at most", 1, text_as_produced, "F-TAINT",
                                        "serialize(format='provn') denotes the same document as get_provn()"))
RULES.setdefault("C16", []).append(Rule("C16.R10", "the PROV-N serializer writes the text get_provn() produced (shared with C06.R12)", 1, text_as_produced, "F-TAINT",
                                        "every destination kind receives the same text"))


# ===================================================================================== C11.R12 the XML reader's parser
def xml_reader_parser(ctx: Ctx, rule):
    """The PROV-XML reader takes an element's value from `.text` (the text before the first child node).  That is the whole value only
    if lxml has resolved entity references while parsing - the default.  A parser built with resolve_entities=False leaves entity
    nodes in the tree and values are cut at the first reference.  And the parser must see *bytes* for a path source: the encoding of
    an XML file is declared inside it."""
    res = RuleResult()
    cls = registry_classes(ctx).get("xml")
    q = ctx.p.lookup_method(cls, "deserialize")
    n = 0
    for q2 in ctx.helper_closure(q, 2):
        fi = ctx.fn(q2)
        for c in calls_in(fi.node):
            d = dotted(c.func) or ""
            if d.endswith("XMLParser") or d.endswith("XMLPullParser") or d.endswith("iterparse"):
                bad = [k for k in c.keywords if k.arg == "resolve_entities" and isinstance(k.value, ast.Constant) and k.value.value is False]
                n += 1
                res.ob("%s builds %s: entity references are resolved: %s" % (short(q2), norm(c)[:60], not bad))
                if bad:
                    res.fail(rule.id, "entities-unresolved::%s" % q2, ctx.loc(q2, c), "%s parses with resolve_entities=False while values are read from `.text`" % short(q2),
                             "<!ENTITY org 'Example Org'> ... <prov:label>The &org; team</prov:label> loads as 'The '")
            if d.endswith(".parse") or d.endswith("fromstring") or d.endswith(".XML"):
                n += 1
                res.ob("%s parses with %s" % (short(q2), norm(c)[:50]))
    if not n:
        raise AnalysisError("the XML reader's parse call was not found")
    # path sources reach the readers as bytes
    dq = M + ".ProvDocument.deserialize"
    df = ctx.fn(dq)
    for q2 in ctx.helper_closure(dq, 2):
        for c in calls_in(ctx.fn(q2).node):
            if call_name(c) == "open" and (dotted(c.func) in ("open", "io.open", "codecs.open")):
                m = c.args[1] if len(c.args) > 1 else next((k.value for k in c.keywords if k.arg == "mode"), None)
                mode = m.value if isinstance(m, ast.Constant) else "r"
                ok = "b" in str(mode)
                res.ob("%s: %s hands the readers bytes: %s" % (short(q2), norm(c)[:50], ok))
                if not ok:
                    res.fail(rule.id, "path-source-decoded::%s" % norm(c)[:40], ctx.loc(q2, c), "%s decodes a path source itself (%s): an XML file declares its own encoding" % (short(q2), norm(c)[:50]),
                             "a PROV-XML file stored as ISO-8859-1 or UTF-16 loads from a binary stream but raises UnicodeDecodeError when loaded by path")
    return res


RULES.setdefault("C11", []).append(Rule("C11.R12", "the XML reader sees entity-resolved text and, for a path source, bytes", 2, xml_reader_parser, "F-NULL",
                                        "foreign PROV-XML with internal entities or a non-UTF-8 encoding loads to the same document by every entry point"))


# ===================================================================================== C17.R6 the temporary file: unique, and movable to the destination
SAME_FS_ONLY = {"os.replace", "os.rename", "os.renames", "os.link"}
TEMP_MAKERS = {"tempfile.mkstemp", "tempfile.NamedTemporaryFile", "tempfile.mkdtemp", "tempfile.TemporaryDirectory", "tempfile.mktemp"}


def c17_r6(ctx: Ctx, rule):
    """(a) What is opened for writing before the commit is a name made by the tempfile module (unique, never an existing neighbour
    such as <destination>.tmp).  (b) A commit primitive that cannot cross file systems (os.replace/os.rename) is only used when the
    temporary file was created next to the destination (mkstemp(dir=<directory of the destination>))."""
    res = RuleResult()
    q, fi, g, dest, commits = serialize_path_branch(ctx)
    makers = []
    for q2 in ctx.helper_closure(q, 2):
        f2 = ctx.fn(q2)
        for c in calls_in(f2.node):
            r = ctx.p.resolve_dotted(f2.module, c.func) if dotted(c.func) else None
            origin = r[1] if r and r[0] == "ext" else (dotted(c.func) or "")
            if origin in TEMP_MAKERS:
                makers.append((q2, c, origin))
    res.ob("temporary names are made by: %s" % ([m[2] for m in makers] or "NOTHING from the tempfile module"))
    # (a) every name opened for writing / every commit source derives from a tempfile result
    temp_names = set()
    for q2, c, origin in makers:
        f2 = ctx.fn(q2)
        for a in walk_function(f2.node):
            if isinstance(a, ast.Assign) and a.value is c:
                for t in a.targets:
                    for x in ast.walk(t):
                        if isinstance(x, ast.Name):
                            temp_names.add(x.id)
            if isinstance(a, ast.With):
                for it in a.items:
                    if it.context_expr is c and it.optional_vars is not None:
                        for x in ast.walk(it.optional_vars):
                            if isinstance(x, ast.Name):
                                temp_names.add(x.id)
    for c in commits:
        src = c.args[0]
        rs = resolve_local(fi.node, src)
        ok = any(isinstance(x, ast.Name) and x.id in temp_names for x in ast.walk(src)) or any(isinstance(x, ast.Name) and x.id in temp_names for x in ast.walk(rs))
        res.ob("commit source %s is a name made by tempfile: %s" % (norm(src), ok))
        if not ok:
            res.fail(rule.id, "temp-name-not-unique::%s" % norm(src)[:40], ctx.loc(q, c), "the file moved over the destination (%s = %s) is not a name made by the tempfile module" % (norm(src), norm(rs)[:40]),
                     "a neighbour file that happens to be called <destination>.tmp is truncated and renamed away; a failed write leaves that file behind")
        d = dotted(c.func) or ""
        r = ctx.p.resolve_dotted(fi.module, c.func)
        origin = r[1] if r and r[0] == "ext" else d
        if origin in SAME_FS_ONLY:
            near = [m for m in makers if any(k.arg == "dir" for k in m[1].keywords)]
            res.ob("commit %s cannot cross file systems; the temporary file is created next to the destination (dir=...): %s" % (origin, bool(near)))
            if not near:
                res.fail(rule.id, "commit-cannot-cross-filesystems::%s" % origin, ctx.loc(q, c), "%s moves a file created in the system temporary directory: it fails when the destination is on another file system" % origin,
                         "TMPDIR on tmpfs, destination on disk: serialize(path) raises OSError(EXDEV), nothing is written and the complete temporary file is left behind")
    if not commits:
        res.ob("no commit call (reported by C17.R1/R3)", nontrivial=False)
    return res


RULES.setdefault("C17", []).append(Rule("C17.R6", "the staged file has a unique tempfile name and the commit primitive can reach the destination from where it was created", 2, c17_r6, "F-PATH",
                                        "nothing but the named file changes, on whatever file system it lives"))
RULES.setdefault("C16", []).append(Rule("C16.R11", "a path destination is written wherever it lives (shared with C17.R6)", 2, c17_r6, "F-PATH",
                                        "the path destination kind works like the stream kinds"))


# ===================================================================================== C16.R12 bytes are decoded with the encoding they were produced in
def c16_r12(ctx: Ctx, rule):
    """A text destination gets `produce_bytes(...).decode(E)`.  That is the text the binary destination gets only if the producer was
    asked for the same encoding E.  lxml's tostring()/ElementTree.write() default to ASCII: text content is then written as
    character references (harmless), but element and attribute *names* cannot be referenced, so a non-ASCII attribute name yields
    malformed XML on text destinations only."""
    res = RuleResult()
    n = 0
    for q in serializer_write_closure(ctx):
        fi = ctx.fn(q)
        for c in calls_in(fi.node):
            if call_name(c) != "decode" or not isinstance(c.func, ast.Attribute):
                continue
            prod = resolve_local(fi.node, c.func.value)
            if not (isinstance(prod, ast.Call) and call_name(prod) in ("tostring", "tostringlist", "dump", "dumps", "serialize", "getvalue")):
                continue
            if call_name(prod) not in ("tostring", "tostringlist"):
                continue
            n += 1
            dec = c.args[0].value if c.args and isinstance(c.args[0], ast.Constant) else next((k.value.value for k in c.keywords if k.arg == "encoding" and isinstance(k.value, ast.Constant)), "utf-8")
            enc = next((k.value.value for k in prod.keywords if k.arg == "encoding" and isinstance(k.value, ast.Constant)), None)
            same = enc is not None and str(enc).lower().replace("-", "") == str(dec).lower().replace("-", "")
            res.ob("%s: %s produces bytes in %r, decoded as %r: same encoding: %s" % (short(q), norm(prod.func), enc or "ASCII (lxml default)", dec, same))
            if not same:
                res.fail(rule.id, "produced-and-decoded-differently::%s" % q, ctx.loc(q, c),
                         "%s decodes as %r what %s produced in %s" % (short(q), dec, norm(prod.func), enc or "ASCII (the lxml default)"),
                         "entity with attribute ex:größe written to a returned string or text stream: <ex:gr&#246;&#223;e> is not well-formed XML; the binary stream and path destinations are fine")
    res.ob("bytes-then-decode sites on the serializers' write paths: %d" % n, nontrivial=False)
    return res


RULES.setdefault("C16", []).append(Rule("C16.R12", "a text destination receives bytes decoded with the encoding they were produced in", 1, c16_r12, "F-SIB",
                                        "text and binary destinations hold the same document, non-ASCII names included"))
RULES.setdefault("C02", []).append(Rule("C02.R12", "the XML text a string/text-stream destination receives is produced in the encoding it is decoded with (shared with C16.R12)", 1, c16_r12, "F-SIB",
                                        "the PROV-XML round trip through a returned string holds for non-ASCII attribute names"))


# ===================================================================================== C16.R13 what counts as a stream: one test, by capability
def c16_r13(ctx: Ctx, rule):
    """prov.read(source), ProvDocument.deserialize(source) and ProvDocument.serialize(destination) decide whether their argument is a
    stream.  They are siblings: a file-like object (tempfile.NamedTemporaryFile, an upload wrapper, urllib's response) must be a
    stream for all three, so each decides by capability - hasattr(x, "read") / hasattr(x, "write") - never by isinstance against
    io classes, which such objects do not derive from."""
    res = RuleResult()
    sites = []
    for q, par_idx, cap in ((M + ".ProvDocument.deserialize", 0, "read"), ("prov.read", 0, "read"), (M + ".ProvDocument.serialize", 1, "write")):
        if q not in ctx.p.functions:
            raise AnalysisError("anchor vanished: function %s" % q)
        fi = ctx.fn(q)
        ps = fi.params[1:] if fi.cls and not fi.is_static else fi.params
        if q.endswith(".serialize"):
            ps = fi.params
        src = fi.params[par_idx] if q.endswith(".serialize") else (ps[0] if ps else None)
        for q2 in ctx.helper_closure(q, 1):
            f2 = ctx.fn(q2)
            for n in walk_function(f2.node):
                if isinstance(n, ast.Call) and call_name(n) == "hasattr" and len(n.args) == 2 and isinstance(n.args[1], ast.Constant) and n.args[1].value in ("read", "write"):
                    sites.append((q, q2, "capability", n))
                if isinstance(n, ast.Call) and call_name(n) == "isinstance" and len(n.args) == 2 and any(t in norm(n.args[1]) for t in ("IOBase", "RawIOBase", "BufferedIOBase", "io.IO", "TextIOWrapper", "BufferedReader", "BytesIO", "StringIO", "IO[")):
                    # isinstance(stream, io.TextIOBase) inside the stream branch (text vs binary) is a different question: only a test
                    # that is applied to the *source/destination parameter* of the entry function decides "stream or not"
                    if q2 == q and isinstance(n.args[0], ast.Name) and n.args[0].id == src and "TextIOBase" not in norm(n.args[1]):
                        sites.append((q, q2, "class", n))
    by_entry = {}
    for q, q2, kind, n in sites:
        by_entry.setdefault(q, set()).add(kind)
        res.ob("%s: stream test %s (%s)" % (short(q) if q.count(".") > 2 else q, norm(n)[:50], kind))
    for q, q2, kind, n in sites:
        if kind == "class":
            res.fail(rule.id, "stream-by-class::%s" % q, ctx.loc(q2, n), "%s decides that its argument is a stream with %s: file-like objects that only delegate to a file are taken for file names" % (short(q) if q.count(".") > 2 else q, norm(n)[:50]),
                     "ProvDocument.deserialize(tempfile.NamedTemporaryFile(), format='json') raises TypeError (expected str, bytes or os.PathLike), while prov.read() of the same object works")
    if len([q for q, ks in by_entry.items() if "capability" in ks]) < 2:
        raise AnalysisError("fewer than two entry points test for a stream by capability: the instances this rule was confirmed on are gone")
    return res


RULES.setdefault("C16", []).append(Rule("C16.R13", "source / destination kinds are told apart by capability (hasattr read / write), the same way at every entry point", 3, c16_r13, "F-SIB",
                                        "every file-like source kind deserialises, with and without an explicit format"))


# ===================================================================================== C16.R14 format trial loop and option forwarding
def c16_r14(ctx: Ctx, rule):
    """(a) prov.read tries every registered format: its trial loop has no `break` (a failed attempt is passed over; leaving the loop
    skips the formats not yet tried *and* the final TypeError).  (b) ProvDocument.serialize hands the caller's options to the
    serializer on every destination kind: each serializer.serialize(...) call forwards the **kwargs parameter."""
    res = RuleResult()
    rq = "prov.read"
    rf = ctx.fn(rq)
    loops = [l for q2 in ctx.helper_closure(rq, 1) for l in walk_function(ctx.fn(q2).node) if isinstance(l, ast.For) and any(isinstance(c, ast.Call) and call_name(c) == "deserialize" for c in ast.walk(l))]
    if not loops:
        raise AnalysisError("prov.read: the loop over the registered formats was not found")
    for l in loops:
        brk = [b for st in l.body for b in ast.walk(st) if isinstance(b, ast.Break)]
        res.ob("prov.read: the format trial loop never breaks (a failed attempt is passed over): %s" % (not brk))
        for b in brk:
            res.fail(rule.id, "trial-loop-left-early", ctx.loc(rq, b), "prov.read leaves the loop over the formats with `break`: the remaining formats are not tried and the final error is skipped",
                     "prov.read(<XML or RDF source>) returns None instead of the document")
    sq = M + ".ProvDocument.serialize"
    sf = ctx.fn(sq)
    kw = sf.node.args.kwarg.arg if sf.node.args.kwarg else None
    calls = [c for q2 in ctx.helper_closure(sq, 2) for c in calls_in(ctx.fn(q2).node) if call_name(c) == "serialize" and isinstance(c.func, ast.Attribute) and "serializer" in norm(c.func.value)]
    if not calls or kw is None:
        raise AnalysisError("ProvDocument.serialize: serializer calls / **kwargs parameter not found")
    for c in calls:
        fwd = any(k.arg is None for k in c.keywords)
        res.ob("ProvDocument.serialize: %s forwards the caller's options: %s" % (norm(c)[:60], fwd))
        if not fwd:
            res.fail(rule.id, "options-not-forwarded::%s" % norm(c)[:40], ctx.loc(sq, c), "%s drops the options (**%s) the other destination kinds pass on" % (norm(c)[:50], kw),
                     "serialize('out.json', indent=2) writes the default rendering while serialize(indent=2) returns the indented one; rdf_format='turtle' is ignored for paths")
    return res


RULES.setdefault("C16", []).append(Rule("C16.R14", "prov.read tries every format; every destination kind gets the caller's serializer options", 3, c16_r14, "F-SIB",
                                        "the destination kinds agree on the text; detection reaches every format"))
RULES.setdefault("C17", []).append(Rule("C17.R7", "serializers convert text to bytes with explicit UTF-8 on whole contents (shared with C16.R2)", 8, c16_r2, "F-SIB",
                                        "the named file holds the complete UTF-8 serialisation"))


# ------------------------------------------------------------------------------------------ write side: no locale-dependent text layer
def locale_text_layer_rule(ctx: Ctx, rule):
    """Every serializer produces UTF-8 whatever the process locale is: on the write paths (each serializer's serialize(), and
    ProvDocument.serialize, with the helpers of their modules) no text layer is put over a byte destination with the *default*
    encoding - open(.., "w") / os.fdopen(fd, "w") / io.TextIOWrapper(..) / codecs.open(..) need encoding="utf-8" (or the file is
    opened in binary mode)."""
    res = RuleResult()
    reg = registry_classes(ctx)
    roots = [ctx.p.lookup_method(cls, "serialize") for cls in reg.values()] + [DOC + ".serialize"]
    n = 0
    seen = set()
    for rq in roots:
        for q in ctx.helper_closure(rq, 2):
            if q in seen:
                continue
            seen.add(q)
            fi = ctx.p.functions.get(q)
            if fi is None or isinstance(fi.node, ast.Lambda) or not fi.module.startswith("prov"):
                continue
            for c in calls_in(fi.node):
                nm = call_name(c)
                r = ctx.p.resolve_dotted(fi.module, c.func) if dotted(c.func) else None
                origin = r[1] if r and r[0] == "ext" else ""
                kind = None
                if nm == "open" and origin in ("", "io.open", "builtins.open", "codecs.open") or origin in ("os.fdopen",) or nm == "fdopen":
                    m = c.args[1] if len(c.args) > 1 else next((k.value for k in c.keywords if k.arg == "mode"), None)
                    mode = m.value if isinstance(m, ast.Constant) else ("r" if m is None else "?")
                    if "b" in str(mode) or mode == "?":
                        continue
                    if not any(ch in str(mode) for ch in "wax+"):
                        continue  # a read: judged by C16.R4
                    kind = "%s(.., %r)" % (nm, mode)
                elif origin == "io.TextIOWrapper" or nm == "TextIOWrapper":
                    kind = "io.TextIOWrapper(..)"
                elif origin in ("codecs.getwriter", "codecs.EncodedFile"):
                    kind = origin
                if kind is None:
                    continue
                n += 1
                enc = next((k.value for k in c.keywords if k.arg == "encoding"), None)
                if enc is None and kind.startswith("io.TextIOWrapper") and len(c.args) > 1:
                    enc = c.args[1]
                if enc is None and origin.startswith("codecs.") and c.args:
                    enc = c.args[0] if origin != "codecs.EncodedFile" else None
                ev = enc.value if isinstance(enc, ast.Constant) else None
                ok = isinstance(ev, str) and ev.lower().replace("-", "").replace("_", "") == "utf8"
                res.ob("%s: %s with encoding %s: UTF-8 whatever the locale: %s" % (short(q) if q.count(".") > 2 else q, kind, norm(enc) if enc is not None else "left to the locale", ok))
                if not ok:
                    res.fail(rule.id, "locale-dependent-text-layer::%s" % q, ctx.loc(q, c),
                             '%s writes through %s without encoding="utf-8": the bytes depend on the process locale' % (short(q) if q.count(".") > 2 else q, kind),
                             "LC_ALL=C (or a Latin-1 locale) and a non-ASCII value: serialising to a binary stream or a file path raises UnicodeEncodeError or writes bytes the reader rejects; to a string it works")
    res.ob("text layers opened on write paths: %d" % n, nontrivial=False)
    return res


for _p, _r, _d in (("C16", "C16.R16", "the same bytes reach a binary stream, a path and (encoded) a text stream in every locale"), ("C17", "C17.R8", "the file written to a path holds UTF-8 in every locale"),
                   ("C01", "C01.R19", "the PROV-JSON bytes do not depend on the process locale, the reader decodes UTF-8"), ("C02", "C02.R20", "the PROV-XML bytes do not depend on the process locale")):
    RULES.setdefault(_p, []).append(Rule(_r, "no text layer with the locale's default encoding on a write path", 0, locale_text_layer_rule, "F-PATH", _d))


# ------------------------------------------------------------------------------------------ readers: current position, and the empty document
def reader_manners_rule(ctx: Ctx, rule):
    """(a) A reader consumes its source from the position the caller left it at: the caller's stream (a parameter, or an alias of
    one) is never re-positioned to an absolute offset - `seek(0)` after a peek re-reads what the caller had already consumed.
    `seek(<saved tell()>)` is fine.
    (b) The empty document is a document: a reader does not raise because what it parsed holds nothing (`if len(parsed) == 0:
    raise`), its own writer produces exactly that for a document without records."""
    res = RuleResult()
    reg = registry_classes(ctx)
    roots = [ctx.p.lookup_method(cls, "deserialize") for cls in reg.values()] + [DOC + ".deserialize", "prov.read"]
    seen, n_seek, n_empty = set(), 0, 0
    for rq in roots:
        if rq is None or rq not in ctx.p.functions:
            continue
        for q in ctx.helper_closure(rq, 2):
            if q in seen:
                continue
            seen.add(q)
            fi = ctx.p.functions.get(q)
            if fi is None or isinstance(fi.node, ast.Lambda) or not fi.module.startswith("prov") or fi.module == M and fi.cls and not q.startswith(DOC + "."):
                continue
            params = set(fi.params) - {"self"}
            aliases = set(params)
            for a in walk_function(fi.node):
                if isinstance(a, ast.Assign) and isinstance(a.value, ast.Name) and a.value.id in aliases:
                    aliases |= {t.id for t in a.targets if isinstance(t, ast.Name)}
            for c in calls_in(fi.node):
                if isinstance(c.func, ast.Attribute) and c.func.attr == "seek" and isinstance(c.func.value, ast.Name) and c.func.value.id in aliases and c.args:
                    n_seek += 1
                    off = c.args[0]
                    absolute = isinstance(off, ast.Constant) and (len(c.args) == 1 or (isinstance(c.args[1], ast.Constant) and c.args[1].value == 0) or norm(c.args[1]).endswith("SEEK_SET"))
                    res.ob("%s: %s on the caller's stream: absolute offset: %s" % (short(q) if q.count(".") > 2 else q, norm(c), absolute))
                    if absolute:
                        res.fail(rule.id, "source-repositioned::%s" % q, ctx.loc(q, c),
                                 "%s moves the caller's stream to the absolute offset %s: what the caller had consumed before handing the stream over is read again" % (short(q) if q.count(".") > 2 else q, norm(off)),
                                 "two documents written one after the other into one stream, the second read back from where it starts: the reader returns the records of both (or fails on the first one's text)")
            if q.startswith(DOC + ".") or q == "prov.read":
                continue
            local_names = {t.id for a in walk_function(fi.node) if isinstance(a, ast.Assign) for t in a.targets if isinstance(t, ast.Name)}
            for t in walk_function(fi.node):
                if not (isinstance(t, ast.If) and any(isinstance(x, ast.Raise) for x in t.body)):
                    continue
                tt = t.test
                nm = None
                if isinstance(tt, ast.UnaryOp) and isinstance(tt.op, ast.Not):
                    inner = tt.operand
                    if isinstance(inner, ast.Name):
                        nm = inner.id
                    elif isinstance(inner, ast.Call) and call_name(inner) == "len" and inner.args and isinstance(inner.args[0], ast.Name):
                        nm = inner.args[0].id
                elif isinstance(tt, ast.Compare) and len(tt.ops) == 1 and isinstance(tt.left, ast.Call) and call_name(tt.left) == "len" and tt.left.args and isinstance(tt.left.args[0], ast.Name) \
                        and isinstance(tt.comparators[0], ast.Constant) and ((isinstance(tt.ops[0], ast.Eq) and tt.comparators[0].value == 0) or (isinstance(tt.ops[0], ast.Lt) and tt.comparators[0].value == 1)):
                    nm = tt.left.args[0].id
                if nm is None or nm not in local_names or nm in params:
                    continue
                n_empty += 1
                res.ob("%s: raises when the parsed content `%s` is empty" % (short(q) if q.count(".") > 2 else q, nm))
                res.fail(rule.id, "empty-document-rejected::%s" % q, ctx.loc(q, t),
                         "%s raises when `%s`, what it has just parsed, holds nothing (`%s`): a document without records is written as exactly that" % (short(q) if q.count(".") > 2 else q, nm, norm(tt)[:40]),
                         "ProvDocument() (or one that only declares namespaces): serialize, then deserialize raises instead of returning the empty document")
    res.ob("absolute seeks on a caller's stream: %d; raises on empty parsed content: %d (functions looked at: %d)" % (n_seek, n_empty, len(seen)))
    return res


for _p, _r, _d in (("C16", "C16.R17", "reading from a stream starts where the stream stands; every source kind of an empty document reads back as the empty document"),
                   ("C07", "C07.R16", "the RDF reader reads what the writer wrote, from where it was written, including the document without records"),
                   ("C01", "C01.R21", "the JSON reader accepts the JSON of an empty document and reads from the stream's current position"),
                   ("C02", "C02.R22", "the XML reader accepts the XML of an empty document and reads from the stream's current position")):
    RULES.setdefault(_p, []).append(Rule(_r, "readers consume their source from its current position and accept the empty document", 1, reader_manners_rule, "F-PATH", _d))
