"""G0 - census of dynamic features the analysis assumes absent (DESIGN section 8)."""
import ast

from ..loader import AnalysisError, dotted

FORBIDDEN_CALLS = {"setattr", "exec", "eval", "globals", "vars", "delattr", "__import__"}


def check_dynamic_features(ctx):
    """Fails the run (exit 2) if src/prov gained monkey-patching style constructs.  Scripts are exempt
    (they are leaf programs).  Returns the census for the evidence."""
    sites = []
    for mod, unit in ctx.p.units.items():
        if mod.startswith("scripts."):
            continue
        for n in ast.walk(unit.tree):
            if isinstance(n, ast.Call) and isinstance(n.func, ast.Name) and n.func.id in FORBIDDEN_CALLS:
                sites.append("%s:%d %s()" % (unit.relpath, n.lineno, n.func.id))
            elif isinstance(n, ast.Attribute) and n.attr == "__dict__":
                sites.append("%s:%d __dict__" % (unit.relpath, n.lineno))
            elif isinstance(n, ast.Attribute) and n.attr == "__class__" and isinstance(n.ctx, ast.Store):
                sites.append("%s:%d __class__ assignment" % (unit.relpath, n.lineno))
    if sites:
        raise AnalysisError("dynamic feature outside the analysis model: " + "; ".join(sites))
    return 0
