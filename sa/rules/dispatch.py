"""E5 / F-DISPATCH - kind-dispatch extraction and codec agreement.

A writer's `if isinstance(v, A) ... elif isinstance(v, B) ... elif type(v) in MAP ... else` chain
is turned into an ordered list of (admitted kinds, outcome); the arm a concrete Python kind
takes is computed with the subclass lattice (bool < int, QualifiedName < Identifier), so a
shadowed branch is seen as "kind k takes the arm of its superclass".  Reader chains
(`datatype == CONST`) are turned into tag -> kind tables and composed with the model's
XSD_DATATYPE_PARSERS.  The obligation is reader(writer(k)) = k for every native kind.
"""
from __future__ import annotations

import ast
from typing import List, Optional, Tuple

from ..ctx import C, JS, M, RD, XM, Ctx, call_name, calls_in, walk_function
from ..fold import ClassRef, Ext, ExtCall, FuncRef, NS, QN, is_unknown
from ..loader import AnalysisError, dotted, norm
from ..mutation import resolve_local
from .paths import short
from ..report import Rule, RuleResult
from .tables import result_kind, rule as _rule_deco_unused  # noqa: F401

RULES = {}


def rule(prop, rid, title, floor, family="F-DISPATCH", decides=""):
    def deco(fn):
        RULES.setdefault(prop, []).append(Rule(rid, title, floor, fn, family, decides))
        return fn

    return deco


NATIVE = ["str", "bool", "int", "float", "datetime", "QualifiedName", "Identifier", "Literal"]
SUPER = {"bool": "int", "QualifiedName": "Identifier"}


def is_sub(k, c):
    while k is not None:
        if k == c:
            return True
        k = SUPER.get(k)
    return False


def kind_of_class_expr(ctx: Ctx, modname, e) -> Optional[str]:
    d = dotted(e)
    if d is None:
        return None
    r = ctx.p.resolve_dotted(modname, e)
    if r is None:
        if d in ("str", "bool", "int", "float", "dict", "list", "tuple", "set", "bytes"):
            return d
        return None
    if r[0] == "class":
        return {
            "prov.identifier.QualifiedName": "QualifiedName",
            "prov.identifier.Identifier": "Identifier",
            "prov.model.Literal": "Literal",
            "prov.model.ProvRecord": "ProvRecord",
        }.get(r[1], r[1])
    if r[0] == "ext":
        if r[1] in ("datetime.datetime",):
            return "datetime"
        return r[1].rsplit(".", 1)[-1]
    return None


def kind_of_value(v) -> Optional[str]:
    """Folded class object -> kind name."""
    if isinstance(v, Ext):
        if v.name in ("str", "bool", "int", "float", "dict", "list"):
            return v.name
        if v.name == "datetime.datetime":
            return "datetime"
        return v.name
    if isinstance(v, ClassRef):
        return {"prov.identifier.QualifiedName": "QualifiedName", "prov.identifier.Identifier": "Identifier",
                "prov.model.Literal": "Literal", "prov.model.ProvRecord": "ProvRecord"}.get(v.qual, v.qual)
    return None


class Arm:
    def __init__(self, mode, kinds, test, body, extra="", q=None, subject=None):
        self.mode = mode  # 'isinstance' | 'exact' | 'eq' | 'else' | 'other'
        self.kinds = kinds  # list of kind names (or folded constants for 'eq')
        self.test = test
        self.body = body  # list of statements, or an expression for IfExp arms
        self.extra = extra  # text of additional conjuncts
        self.q = q  # function the body lives in (None: the function of the chain)
        self.subject = subject  # name of the dispatched value inside that function

    def admits(self, k):
        if self.mode == "isinstance":
            return any(is_sub(k, c) for c in self.kinds)
        if self.mode == "exact":
            return k in self.kinds
        if self.mode == "else":
            return True
        return False

    def __repr__(self):
        return "<%s %s%s>" % (self.mode, self.kinds, (" & " + self.extra) if self.extra else "")


def classify_test(ctx: Ctx, qual, test, subject) -> Tuple[str, list, str]:
    """-> (mode, kinds, extra-conjunct text)"""
    fi = ctx.fn(qual)
    conj = [test]
    if isinstance(test, ast.BoolOp) and isinstance(test.op, ast.And):
        conj = list(test.values)
    mode, kinds, extra = "other", [], []
    for c in conj:
        got = None
        if isinstance(c, ast.Compare) and isinstance(c.left, ast.Name) and c.left.id != subject:
            # value_type = type(value); `value_type in TABLE` is the same test as `type(value) in TABLE`
            rl = resolve_local(fi.node, c.left)
            if isinstance(rl, ast.Call) and call_name(rl) == "type":
                c = ast.copy_location(ast.Compare(left=rl, ops=c.ops, comparators=c.comparators), c)
        if isinstance(c, ast.Call) and call_name(c) == "isinstance" and len(c.args) == 2 and norm(c.args[0]) == subject:
            cls = c.args[1]
            elts = cls.elts if isinstance(cls, ast.Tuple) else [cls]
            ks = []
            for e in elts:
                k = kind_of_class_expr(ctx, fi.module, e)
                if k is None:
                    v = ctx.eval_in(qual, e)
                    if isinstance(v, (tuple, list)):
                        ks += [kind_of_value(x) for x in v]
                        continue
                    k = kind_of_value(v)
                if k is None:
                    raise AnalysisError("cannot resolve class in %s at %s" % (norm(c), ctx.loc(qual, c)))
                ks.append(k)
            got = ("isinstance", ks)
        elif (isinstance(c, ast.Compare) and len(c.ops) == 1 and isinstance(c.ops[0], ast.In)
              and isinstance(c.left, ast.Call) and call_name(c.left) == "type" and c.left.args and norm(c.left.args[0]) == subject):
            v = ctx.eval_in(qual, c.comparators[0])
            if is_unknown(v):
                raise AnalysisError("cannot fold the type table in %s at %s" % (norm(c), ctx.loc(qual, c)))
            got = ("exact", [kind_of_value(x) for x in (v.keys() if isinstance(v, dict) else v)])
        elif (isinstance(c, ast.Compare) and len(c.ops) == 1 and isinstance(c.ops[0], (ast.Is, ast.Eq)) and isinstance(c.left, ast.Call)
              and call_name(c.left) == "type" and c.left.args and norm(c.left.args[0]) == subject):
            k = kind_of_class_expr(ctx, fi.module, c.comparators[0])
            if k is None:
                raise AnalysisError("cannot resolve class in %s at %s" % (norm(c), ctx.loc(qual, c)))
            got = ("exact", [k])
        elif isinstance(c, ast.Compare) and len(c.ops) == 1 and isinstance(c.ops[0], ast.Eq) and subject in (norm(c.left), norm(c.comparators[0])):
            other = c.comparators[0] if norm(c.left) == subject else c.left
            v = ctx.eval_in(qual, other)
            if not is_unknown(v):
                got = ("eq", [v])
        if got and mode == "other":
            mode, kinds = got
        else:
            extra.append(norm(c))
    return mode, kinds, " and ".join(extra)


def chain_from_if(ctx: Ctx, qual, node: ast.If, subject) -> List[Arm]:
    arms = []
    cur = node
    while True:
        mode, kinds, extra = classify_test(ctx, qual, cur.test, subject)
        arms.append(Arm(mode, kinds, cur.test, cur.body, extra))
        if len(cur.orelse) == 1 and isinstance(cur.orelse[0], ast.If):
            cur = cur.orelse[0]
            continue
        if cur.orelse:
            arms.append(Arm("else", [], None, cur.orelse))
        break
    return arms


def find_chains(ctx: Ctx, qual, subject, modes=("isinstance", "exact")) -> List[List[Arm]]:
    """All if/elif chains in the function whose first test dispatches on `subject`."""
    fi = ctx.fn(qual)
    chains = []
    elifs = set()
    for n in walk_function(fi.node):
        if isinstance(n, ast.If) and len(n.orelse) == 1 and isinstance(n.orelse[0], ast.If):
            elifs.add(id(n.orelse[0]))
    nodes = [n for n in walk_function(fi.node) if isinstance(n, ast.If) and id(n) not in elifs]
    nodes.sort(key=lambda n: (n.lineno, n.col_offset))
    for n in nodes:
        try:
            mode, kinds, extra = classify_test(ctx, qual, n.test, subject)
        except AnalysisError:
            raise
        if mode in modes:
            chains.append(chain_from_if(ctx, qual, n, subject))
    return chains


def early_return_chain(ctx: Ctx, qual, subject) -> List[Arm]:
    """Chain written as consecutive `if test: return X` statements followed by a final return."""
    fi = ctx.fn(qual)
    arms = []
    for s in fi.node.body:
        if isinstance(s, ast.If):
            arms += chain_from_if(ctx, qual, s, subject)
        elif isinstance(s, ast.For):
            arms += table_dispatch_arms(ctx, qual, s, subject)
        elif isinstance(s, ast.Return):
            arms.append(Arm("else", [], None, [s]))
            break
    return arms


def table_dispatch_arms(ctx: Ctx, qual, loop: ast.For, subject):
    """for cls, fn in TABLE: if isinstance(value, cls): return fn(value)   ->  one isinstance arm per table row, in table
    order, whose body is the body of the row's function."""
    try:
        tab = ctx.eval_in(qual, loop.iter)
    except AnalysisError:
        return []
    rows = ctx.f._iterate(tab) if not is_unknown(tab) else None
    if isinstance(tab, dict):
        rows = list(tab.items())
    if not rows or not isinstance(loop.target, ast.Tuple) or len(loop.target.elts) != 2:
        return []
    cvar, fvar = (norm(x) for x in loop.target.elts)
    ok = False
    for n in ast.walk(loop):
        if isinstance(n, ast.If) and isinstance(n.test, ast.Call) and call_name(n.test) == "isinstance" and len(n.test.args) == 2 and norm(n.test.args[0]) == subject and norm(n.test.args[1]) == cvar:
            if any(isinstance(r, ast.Return) and isinstance(r.value, ast.Call) and norm(r.value.func) == fvar for r in n.body):
                ok = True
                test = n.test
    if not ok:
        return []
    arms = []
    for row in rows:
        if not (isinstance(row, (tuple, list)) and len(row) == 2 and isinstance(row[1], FuncRef)):
            raise AnalysisError("dispatch table row not (class, function) in %s" % qual)
        k = kind_of_value(row[0])
        if k is None:
            raise AnalysisError("cannot resolve a class in the dispatch table of %s" % qual)
        f = ctx.fn(row[1].qual)
        arms.append(Arm("isinstance", [k], test, list(f.node.body), q=f.qual, subject=f.params[0] if f.params else subject))
    return arms


def arm_for(arms: List[Arm], k, subject=None) -> Optional[Arm]:
    for a in arms:
        if a.admits(k):
            return a
        if a.mode == "other" and a.test is not None and subject and any(isinstance(x, ast.Name) and x.id == subject for x in ast.walk(a.test)):
            raise AnalysisError("cannot interpret the dispatch test `%s` on %s (line %d)" % (norm(a.test)[:60], subject, getattr(a.test, "lineno", 0)))
    return None


def possible_values(ctx: Ctx, q, e, depth=0):
    """All folded values expression `e` (in function q) may take: constants, both arms of a conditional, every
    return of a called repository function, every element a returned loop variable ranges over."""
    if depth > 4:
        return [None]
    try:
        v = ctx.eval_in(q, e)
    except AnalysisError:
        v = None
    if v is not None and not is_unknown(v):
        return [v]
    fi = ctx.fn(q)
    if isinstance(e, ast.IfExp):
        return possible_values(ctx, q, e.body, depth + 1) + possible_values(ctx, q, e.orelse, depth + 1)
    if isinstance(e, ast.Name):
        out = []
        from ..mutation import all_assignments
        defs = all_assignments(fi.node, e.id)
        for n in walk_function(fi.node):
            if isinstance(n, ast.For) and any(isinstance(x, ast.Name) and x.id == e.id for x in ast.walk(n.target)):
                it = None
                try:
                    it = ctx.eval_in(q, n.iter)
                except AnalysisError:
                    pass
                items = ctx.f._iterate(it) if it is not None and not is_unknown(it) else None
                if items is None:
                    return [None]
                if isinstance(n.target, ast.Tuple):
                    idx = [i for i, t in enumerate(n.target.elts) if isinstance(t, ast.Name) and t.id == e.id]
                    out += [row[idx[0]] for row in items if isinstance(row, (tuple, list)) and idx and len(row) > idx[0]]
                else:
                    out += list(items)
        for d in defs:
            if d is not None:
                out += possible_values(ctx, q, d, depth + 1)
        return out or [None]
    if isinstance(e, ast.Call):
        r = ctx.p.resolve_dotted(fi.module, e.func) if dotted(e.func) else None
        callee = None
        if r and r[0] == "func":
            callee = r[1]
        elif isinstance(e.func, ast.Attribute) and norm(e.func.value) == "self" and fi.cls:
            callee = ctx.p.lookup_method(fi.cls, e.func.attr)
        if callee:
            out = []
            cf = ctx.fn(callee)
            for n in walk_function(cf.node):
                if isinstance(n, ast.Return) and n.value is not None:
                    out += possible_values(ctx, callee, n.value, depth + 1)
            return out or [None]
    return [None]


def shadowed(arms: List[Arm]):
    """(later arm, earlier arm) pairs where the later isinstance class is a subclass of an earlier one
    (with no extra conjunct on the earlier arm): the later arm is dead code."""
    out = []
    for j, b in enumerate(arms):
        if b.mode != "isinstance":
            continue
        for a in arms[:j]:
            if a.mode == "isinstance" and not a.extra:
                for kb in b.kinds:
                    if any(is_sub(kb, ka) and kb != ka for ka in a.kinds):
                        out.append((b, a, kb))
    return out


def resolve_tag(ctx: Ctx, tag):
    """'xsd:double' -> QN through the default namespaces every NamespaceManager starts with."""
    if isinstance(tag, QN):
        return tag
    if isinstance(tag, ExtCall) and tag.func.endswith("[]") and tag.args:
        # rdflib XSD["double"]
        base = tag.func[:-2]
        if base.endswith("XSD"):
            return QN(ctx.const(C, "XSD"), tag.args[0])
        return None
    if isinstance(tag, str) and ":" in tag:
        p, l = tag.split(":", 1)
        dn = ctx.const(M, "DEFAULT_NAMESPACES")
        ns = dn.get(p)
        if isinstance(ns, NS):
            return QN(ns, l)
    return None


def returned_exprs(body):
    out = []
    for s in body:
        for n in ast.walk(s) if not isinstance(s, ast.expr) else [s]:
            if isinstance(n, ast.Return) and n.value is not None:
                out.append(n.value)
    return out


# ------------------------------------------------------------------------------------------ JSON
def locate_chain(ctx: Ctx, q0, min_arms, param_index=0):
    """The early-return kind dispatch of q0, or of the private helper it delegates to."""
    for q in ctx.helper_closure(q0):
        fi = ctx.fn(q)
        ps = fi.params[1:] if (fi.cls and not fi.is_static) else fi.params
        if len(ps) <= param_index:
            continue
        subject = ps[param_index]
        try:
            arms = early_return_chain(ctx, q, subject)
        except AnalysisError:
            raise
        if len([a for a in arms if a.mode in ("isinstance", "exact")]) >= min_arms - 1 and len(arms) >= min_arms:
            return q, subject, arms
    raise AnalysisError("cannot extract the kind dispatch of %s" % q0)


def json_writer_chain(ctx: Ctx):
    return locate_chain(ctx, JS + ".encode_json_representation", 3)


def json_arm_outcome(ctx: Ctx, q, arm: Arm, subject, k, _depth=0):
    """-> ('tag', str) | ('tags', [..]) | ('raw', None) | ('literal', None) | ('?', text)"""
    q = arm.q or q
    subject = arm.subject or subject
    rets = returned_exprs(arm.body)
    if len(rets) != 1:
        return ("?", "no single return")
    e = rets[0]
    if isinstance(e, ast.Call) and call_name(e) != "literal_json_representation" and isinstance(e.func, ast.Name) and _depth < 3:
        r = ctx.p.resolve_name(ctx.fn(q).module, e.func.id)
        if r and r[0] == "func" and e.args and norm(e.args[0]) == subject:
            f = ctx.fn(r[1])
            return json_arm_outcome(ctx, f.qual, Arm("else", [], None, list(f.node.body), q=f.qual, subject=f.params[0]), f.params[0], k, _depth + 1)
    if isinstance(e, ast.Dict):
        d = {}
        for kx, vx in zip(e.keys, e.values):
            kk = ctx.eval_in(q, kx) if kx is not None else None
            d[kk] = vx
        if "type" in d:
            tv = d["type"]
            # LITERAL_XSDTYPE_MAP[type(value)] -> look the concrete kind up
            sl = tv.slice if isinstance(tv, ast.Subscript) else None
            if isinstance(sl, ast.Name):  # value_type = type(value); TABLE[value_type]
                sl = resolve_local(ctx.fn(q).node, sl)
            if isinstance(tv, ast.Subscript) and isinstance(sl, ast.Call) and call_name(sl) == "type":
                tab = ctx.eval_in(q, tv.value)
                if isinstance(tab, dict):
                    for key, val in tab.items():
                        if kind_of_value(key) == k:
                            return ("tag", val)
                return ("?", "type table has no entry")
            vs = possible_values(ctx, q, tv)
            if vs and all(isinstance(v, str) for v in vs):
                return ("tag", vs[0]) if len(set(vs)) == 1 else ("tags", sorted(set(vs)))
            return ("?", norm(tv))
        return ("?", "object without type")
    if isinstance(e, ast.Call) and call_name(e) == "literal_json_representation":
        return ("literal", None)
    if norm(e) == subject:
        return ("raw", None)
    return ("?", norm(e))


def json_writer_tags(ctx: Ctx):
    q, subject, arms = json_writer_chain(ctx)
    out = {}
    for k in NATIVE:
        arm = arm_for(arms, k, subject)
        if arm is None:
            out[k] = None
            continue
        kind, val = json_arm_outcome(ctx, q, arm, subject, k)
        out[k] = val if kind == "tag" else (val[0] if kind == "tags" else (None if kind == "raw" else "<%s>" % kind))
    return out


def json_reader_table(ctx: Ctx):
    """tag QN -> kind, and the default outcome, from decode_json_representation (and its helpers): every
    `if <x> == <folded QN>:` arm gives a special case, the Literal(...) construction is the default."""
    q0 = JS + ".decode_json_representation"
    table = {}
    default = None
    shape_ok = False
    for q in ctx.helper_closure(q0):
        if not q.startswith(JS + "."):
            continue
        fi = ctx.fn(q)
        for n in walk_function(fi.node):
            if isinstance(n, ast.Call) and call_name(n) == "isinstance" and len(n.args) == 2 and kind_of_class_expr(ctx, fi.module, n.args[1]) == "dict":
                shape_ok = True
            if isinstance(n, ast.If) and isinstance(n.test, ast.Compare) and len(n.test.ops) == 1 and isinstance(n.test.ops[0], ast.Eq):
                v = None
                for side in (n.test.left, n.test.comparators[0]):
                    try:
                        x = ctx.eval_in(q, side)
                    except AnalysisError:
                        x = None
                    if isinstance(x, QN):
                        v = x
                if v is not None:
                    rets = returned_exprs(n.body)
                    if rets:
                        table[v] = outcome_kind(ctx, q, rets)
            if isinstance(n, ast.Return) and isinstance(n.value, ast.Call) and kind_of_class_expr(ctx, fi.module, n.value.func) == "Literal":
                default = "Literal"
    if not shape_ok:
        raise AnalysisError("decode_json_representation: no isinstance(literal, dict) discrimination")
    if default is None:
        raise AnalysisError("decode_json_representation: cannot find the default (Literal) arm")
    return table, default, None


def outcome_kind(ctx: Ctx, q, rets):
    fi = ctx.fn(q)
    kinds = set()
    for e in rets:
        if isinstance(e, ast.Call):
            k = kind_of_class_expr(ctx, fi.module, e.func)
            if k in ("Identifier", "Literal", "QualifiedName"):
                kinds.add(k)
            elif call_name(e) == "valid_qualified_name" or call_name(e) == "xml_qname_to_QualifiedName":
                kinds.add("QualifiedName")
            elif (dotted(e.func) or "").endswith("parser.parse"):
                kinds.add("datetime")
            else:
                kinds.add("?" + norm(e.func))
        else:
            kinds.add("?" + norm(e))
    return kinds.pop() if len(kinds) == 1 else "?" + "|".join(sorted(kinds))


def model_parser_kind(ctx: Ctx, tagqn):
    """Kind a Literal(text, tag) becomes when added to a record (ProvRecord._auto_literal_conversion
    -> parse_xsd_types -> XSD_DATATYPE_PARSERS); 'Literal' when the tag is not in the table."""
    tab = ctx.const(M, "XSD_DATATYPE_PARSERS")
    if tagqn in tab:
        return result_kind(ctx, tab[tagqn])
    return "Literal"


def check_auto_conversion_wired(ctx: Ctx, res, rule_id):
    """The readers rely on: add_attributes normalises non-formal values by looking the literal's datatype up in
    XSD_DATATYPE_PARSERS (today via _auto_literal_conversion -> parse_xsd_types).  Checked as reachability in the helper
    closure, so that the hops may be renamed, split or turned into module functions."""
    aq = M + ".ProvRecord.add_attributes"
    tab = ctx.const(M, "XSD_DATATYPE_PARSERS")
    reach = ctx.helper_closure(aq, depth=4)
    hits = []
    for q2 in reach:
        for kind, v, text, key, node in ctx.table_lookups(q2):
            if isinstance(v, dict) and v == tab and kind in ("index", "get"):
                hits.append((q2, text))
    path = [x.rsplit(".", 1)[1] for x in reach if any(h[0] == x for h in hits)]
    res.ob("add_attributes reaches a lookup of the literal's datatype in XSD_DATATYPE_PARSERS (through %d helper functions; lookup in %s): %s" % (len(reach) - 1, path, bool(hits)))
    calls_parser = any(isinstance(c.func, ast.Subscript) or (isinstance(c.func, ast.Name) and c.func.id in ("parser",)) for q2, _ in hits for c in calls_in(ctx.fn(q2).node))
    res.ob("the looked-up parser is applied to the lexical value: %s" % calls_parser)
    if not hits or not calls_parser:
        res.fail(rule_id, "literal-normalisation-wiring", ctx.loc(aq, ctx.fn(aq).node),
                 "typed literals are no longer converted to native values on insertion (add_attributes no longer reaches a lookup in XSD_DATATYPE_PARSERS)",
                 "every int/float/bool/datetime written by a serializer reloads as a Literal object")


@rule("C01", "C01.R3", "PROV-JSON literal codec: reader(writer(kind)) = kind for every native value kind", 8,
      decides="the Python kind of a value (int vs float vs bool, QualifiedName vs URI, datetime, typed literal) survives the JSON spelling")
def c01_r3(ctx: Ctx, rule):
    res = RuleResult()
    q, subject, arms = json_writer_chain(ctx)
    table, default, _ = json_reader_table(ctx)
    for b, a, kb in shadowed(arms):
        res.notes.append("arm %r is shadowed by earlier arm %r for kind %s" % (b, a, kb))
    for k in NATIVE:
        arm = arm_for(arms, k, subject)
        if arm is None:
            res.ob("kind %s: no arm" % k)
            res.fail(rule.id, "json-codec::%s::no-arm" % k, ctx.loc(q, ctx.fn(q).node), "no branch of encode_json_representation admits a %s" % k)
            continue
        okind, val = json_arm_outcome(ctx, q, arm, subject, k)
        if okind in ("tag", "tags"):
            backs = []
            for one in ([val] if okind == "tag" else val):
                tq = resolve_tag(ctx, one)
                if tq is None:
                    b1 = "?unresolvable tag %r" % (one,)
                elif tq in table:
                    b1 = table[tq]
                else:
                    b1 = model_parser_kind(ctx, tq) if default == "Literal" else default
                backs.append((one, b1))
            wrong = [x for x in backs if x[1] != k]
            back = wrong[0][1] if wrong else k
            desc = "tag %s -> %s" % (", ".join(repr(x[0]) for x in backs) if not wrong else repr(wrong[0][0]), back)
        elif okind == "raw":
            back = k if k in ("str", "bool", "int", "float") else "?raw JSON value for a %s" % k
            desc = "raw JSON value -> %s" % back
        elif okind == "literal":
            back = "Literal" if default == "Literal" else default
            desc = "literal object -> %s" % back
        else:
            raise AnalysisError("cannot interpret the %s arm of encode_json_representation: %s" % (k, val))
        res.ob("kind %s: arm %r: %s" % (k, arm, desc))
        if back != k:
            res.fail(rule.id, "json-codec::%s" % k, ctx.loc(q, arm.test if arm.test is not None else ctx.fn(q).node),
                     "a %s value is written through arm %r as %s and read back as %s" % (k, arm, desc.split(" -> ")[0], back),
                     "an attribute holding a %s reloads as a %s (the library's == cannot tell when the two compare equal)" % (k, back))
    # Literal typed with a natively supported datatype is normalised *before* storage, so a stored
    # Literal never carries such a tag (C05); the literal arm itself must print datatype or langtag
    lq = JS + ".literal_json_representation"
    lf = ctx.fn(lq)
    keys = set()
    for n in walk_function(lf.node):
        if isinstance(n, ast.Dict):
            for kx in n.keys:
                v = ctx.eval_in(lq, kx) if kx is not None else None
                if isinstance(v, str):
                    keys.add(v)
    res.ob("literal objects carry %s" % sorted(keys))
    for need in ("$", "type", "lang"):
        if need not in keys:
            res.fail(rule.id, "json-codec::literal-object::%s" % need, ctx.loc(lq, lf.node), "literal_json_representation never writes %r" % need,
                     "typed / language-tagged literals lose their %s" % ("value" if need == "$" else "datatype" if need == "type" else "language tag"))
    check_auto_conversion_wired(ctx, res, rule.id)
    return res


# ------------------------------------------------------------------------------------------ XML
def find_kind_chains(ctx: Ctx, q0):
    """Every if/elif chain in q0 or its helpers whose first test is an isinstance / type() dispatch on some name:
    -> list of (function qual, subject name, arms)."""
    out = []
    for q in ctx.helper_closure(q0):
        fi = ctx.fn(q)
        if isinstance(fi.node, ast.Lambda):
            continue
        subjects = set()
        for n in walk_function(fi.node):
            if isinstance(n, ast.Call) and call_name(n) in ("isinstance",) and len(n.args) == 2 and isinstance(n.args[0], ast.Name):
                subjects.add(n.args[0].id)
            if isinstance(n, ast.Call) and call_name(n) == "type" and n.args and isinstance(n.args[0], ast.Name):
                subjects.add(n.args[0].id)
        for subj in sorted(subjects):
            try:
                seq = early_return_chain(ctx, q, subj) if subj in fi.params else []
                if len([a for a in seq if a.mode in ("isinstance", "exact")]) >= 2:
                    # a function written as consecutive `if isinstance(..): return ..` statements is one chain
                    out.append((q, subj, seq))
                    continue
                for ch in find_chains(ctx, q, subj):
                    out.append((q, subj, ch))
            except AnalysisError:
                continue
    return out


def xml_writer_chains(ctx: Ctx):
    q0 = XM + ".ProvXMLSerializer.serialize_bundle"
    chains = find_kind_chains(ctx, q0)
    prim = [c for c in chains if any(a.mode == "isinstance" and "Literal" in a.kinds for a in c[2]) and any(a.mode == "isinstance" and "QualifiedName" in a.kinds for a in c[2])]
    typ = [c for c in chains if any(a.mode == "isinstance" and ("bool" in a.kinds or "float" in a.kinds) for a in c[2])]
    if len(typ) > 1:
        # a residual one-arm test (e.g. `if isinstance(value, bool): v = v.lower()`) next to the real chain: keep the longest
        typ.sort(key=lambda c: -len([a for a in c[2] if a.mode == "isinstance"]))
        if len([a for a in typ[0][2] if a.mode == "isinstance"]) >= 4 and len([a for a in typ[1][2] if a.mode == "isinstance"]) <= 1:
            typ = typ[:1]
    if len(prim) != 1 or len(typ) != 1:
        raise AnalysisError("cannot identify the two kind dispatches of the XML writer (found %d/%d)" % (len(prim), len(typ)))
    for a in prim[0][2]:
        a.q = a.q or prim[0][0]
    for a in typ[0][2]:
        a.q = a.q or typ[0][0]
    return q0, prim[0][2], typ[0][2]


def arm_qn_outcomes(ctx: Ctx, arm: Arm):
    """QualifiedName constants an arm assigns or returns (every value a helper may choose); None marks an unfoldable one."""
    q = arm.q
    out = []
    for s0 in arm.body:
        for n in ast.walk(s0):
            if isinstance(n, ast.Assign) and isinstance(n.targets[0], ast.Name):
                vs = possible_values(ctx, q, n.value)
                if any(isinstance(v, QN) for v in vs):
                    out += vs
            elif isinstance(n, ast.Return) and n.value is not None and not (isinstance(n.value, ast.Constant) and n.value.value is None):
                out += possible_values(ctx, q, n.value)
    return out


def assigned_consts(ctx: Ctx, q, body, target_pred):
    """Folded values assigned in `body` to targets satisfying target_pred(node) (every value a helper may return)."""
    out = []
    for s in body:
        for n in ast.walk(s):
            if isinstance(n, ast.Assign) and any(target_pred(t) for t in n.targets):
                out += possible_values(ctx, q, n.value)
    return out


def xml_reader_table(ctx: Ctx):
    """_extract_attributes and its helpers: special-cased datatypes (`datatype == CONST` -> kind built in that arm) and the
    default arm (a Literal built from the text and the datatype)."""
    q0 = XM + "._extract_attributes"
    special, default = {}, None
    for q in ctx.helper_closure(q0):
        if not q.startswith(XM + "."):
            continue
        fi = ctx.fn(q)
        for n in walk_function(fi.node):
            if isinstance(n, ast.If) and isinstance(n.test, ast.Compare) and len(n.test.ops) == 1 and isinstance(n.test.ops[0], ast.Eq):
                v = None
                for side in (n.test.left, n.test.comparators[0]):
                    try:
                        x = ctx.eval_in(q, side)
                    except AnalysisError:
                        x = None
                    if isinstance(x, QN):
                        v = x
                if v is None:
                    continue
                ks = set()
                for s0 in n.body:
                    for a in ast.walk(s0):
                        val = a.value if isinstance(a, (ast.Assign, ast.Return)) else None
                        if isinstance(val, ast.Call):
                            ks.add(outcome_kind(ctx, q, [val]))
                if len(ks) == 1:
                    special[v] = ks.pop()
            if isinstance(n, ast.Call) and kind_of_class_expr(ctx, fi.module, n.func) == "Literal":
                has_dt = len(n.args) >= 2 or any(k.arg == "datatype" for k in n.keywords)
                if has_dt:
                    default = "Literal"
    if default is None:
        raise AnalysisError("_extract_attributes: cannot find the default Literal(text, datatype) arm")
    return special, default


def xsd_tags_of(ctx: Ctx, arm):
    """xsd datatype constants the arm of the xsi:type inference may choose."""
    if arm is None:
        return []
    xsd = ctx.const(C, "XSD")
    vals = arm_qn_outcomes(ctx, arm)
    if any(v is None or is_unknown(v) for v in vals):
        raise AnalysisError("cannot fold an xsd type chosen by arm %r" % arm)
    return [v for v in vals if isinstance(v, QN) and v.ns.uri == xsd.uri]


@rule("C02", "C02.R3", "PROV-XML xsi:type codec: reader(writer(kind)) = kind for every native value kind", 7,
      decides="bool/int/float/datetime/URI/qualified-name values are typed on write so that the reader rebuilds the same Python kind")
def c02_r3(ctx: Ctx, rule):
    res = RuleResult()
    q, prim, typ = xml_writer_chains(ctx)
    special, default = xml_reader_table(ctx)
    # the always-typed collection: the folded collection tested with `type(<value>) in X`, in the writer or a helper
    always = None
    fi = ctx.fn(q)
    for q2 in ctx.helper_closure(q):
        for n in walk_function(ctx.fn(q2).node):
            if (isinstance(n, ast.Compare) and len(n.ops) == 1 and isinstance(n.ops[0], ast.In) and isinstance(n.left, ast.Call)
                    and call_name(n.left) == "type" and n.left.args):
                try:
                    v = ctx.eval_in(q2, n.comparators[0])
                except AnalysisError:
                    continue
                if isinstance(v, (tuple, list, set)) and v and all(kind_of_value(x) for x in v):
                    always = {kind_of_value(x) for x in v}
    if always is None:
        raise AnalysisError("cannot fold the always-typed collection of the XML writer")
    is_xsi = lambda t: isinstance(t, ast.Subscript) and "xsi" in norm(t.slice)
    for k in ["bool", "int", "float", "datetime", "Identifier"]:
        typed = k in always
        arm = arm_for(typ, k)
        vals = xsd_tags_of(ctx, arm)
        tag = vals[0] if vals else None
        for v in vals:  # every type a helper may choose must read back as the kind
            bk = special[v] if v in special else (model_parser_kind(ctx, v) if default == "Literal" else default)
            if bk != k:
                tag = v
        if tag is None:
            back = "?no tag"
        elif tag in special:
            back = special[tag]
        else:
            back = model_parser_kind(ctx, tag) if default == "Literal" else default
        res.ob("kind %s: always typed=%s; arm %r -> %s -> %s" % (k, typed, arm, getattr(tag, "s", tag), back))
        if not typed:
            res.fail(rule.id, "xml-codec::%s::untyped" % k, ctx.loc(q, fi.node), "%s values are not in the always-typed collection: without force_types they are written as plain text" % k,
                     "an attribute holding a %s reloads as a str" % k)
        if back != k:
            res.fail(rule.id, "xml-codec::%s" % k, ctx.loc(arm.q if arm is not None and arm.q else q, arm.test if arm is not None and arm.test is not None else fi.node),
                     "a %s takes arm %r, is typed %s and read back as %s" % (k, arm, getattr(tag, "s", tag), back),
                     "an attribute holding a %s reloads as a %s" % (k, back))
    # str: typed xsd:string (or untyped text) must come back as str
    arm = arm_for(typ, "str")
    vals = xsd_tags_of(ctx, arm)
    back = model_parser_kind(ctx, vals[0]) if vals else "str"
    res.ob("kind str: arm %r -> %s -> %s" % (arm, vals[0].s if vals else None, back))
    if back != "str":
        res.fail(rule.id, "xml-codec::str", ctx.loc(q, fi.node), "a str typed %s is read back as %s" % (vals[0].s if vals else None, back))
    # QualifiedName values outside reference attributes: chain 1 tags them; the reader special-cases that tag
    arm = arm_for(prim, "QualifiedName")
    tags = [v for v in assigned_consts(ctx, arm.q or q, arm.body, is_xsi) if isinstance(v, str)] if arm else []
    tq = resolve_tag(ctx, tags[0]) if tags else None
    back = special.get(tq, "?not special-cased") if tq is not None else "?no tag"
    res.ob("kind QualifiedName: arm %r -> %r -> %s" % (arm, tags[0] if tags else None, back))
    if back != "QualifiedName":
        res.fail(rule.id, "xml-codec::QualifiedName", ctx.loc(q, arm.test if arm is not None and arm.test is not None else fi.node),
                 "a QualifiedName value takes arm %r, is typed %r and read back as %s" % (arm, tags[0] if tags else None, back),
                 "prov:type / prov:role / custom attributes holding a qualified name reload as a Literal or an Identifier")
    for b, a, kb in shadowed(prim) + shadowed(typ):
        res.notes.append("serialize_bundle: arm %r is shadowed by %r for kind %s" % (b, a, kb))
    check_auto_conversion_wired(ctx, res, rule.id)
    return res


# ------------------------------------------------------------------------------------------ RDF
@rule("C07", "C07.R3", "PROV-O literal codec: the datatype written for each native kind parses back to that kind", 6,
      decides="ints, strings, datetimes, URIs and qualified names keep their kind through the RDF literal mapping")
def c07_r3(ctx: Ctx, rule):
    res = RuleResult()
    q, subject, arms = locate_chain(ctx, RD + ".ProvRDFSerializer.encode_rdf_representation", 4)
    fi = ctx.fn(q)
    for k in ["str", "int", "float", "datetime", "QualifiedName", "Identifier", "Literal"]:
        arm = arm_for(arms, k)
        rets = returned_exprs(arm.body) if arm else []
        if len(rets) != 1:
            raise AnalysisError("encode_rdf_representation: arm for %s has no single return" % k)
        e = rets[0]
        tag = None
        shape = "?"
        if isinstance(e, ast.Call) and call_name(e) == "URIRef":
            shape = "URIRef"
        elif isinstance(e, ast.Call) and call_name(e) == "literal_rdf_representation":
            shape = "literal"
        elif isinstance(e, ast.Call) and call_name(e) in ("RDFLiteral", "Literal"):
            shape = "RDFLiteral"
            for kw in e.keywords:
                if kw.arg == "datatype":
                    tv = kw.value
                    sl = tv.slice if isinstance(tv, ast.Subscript) else None
                    if isinstance(sl, ast.Name):
                        # value_type = type(value) ... TABLE[value_type]
                        from ..mutation import all_assignments
                        ds = [d for d in all_assignments(fi.node, sl.id) if d is not None]
                        if len(ds) == 1 and isinstance(ds[0], ast.Call) and call_name(ds[0]) == "type":
                            sl = ds[0]
                    if isinstance(tv, ast.Subscript) and isinstance(sl, ast.Call) and call_name(sl) == "type":
                        tab = ctx.eval_in(q, tv.value)
                        for key, val in (tab.items() if isinstance(tab, dict) else []):
                            if kind_of_value(key) == k:
                                tag = val
                    else:
                        tag = ctx.eval_in(q, tv)
        tq = resolve_tag(ctx, tag) if tag is not None else None
        if shape == "URIRef":
            back = "QualifiedName"  # decode_rdf_representation: URIRef -> valid_identifier -> QualifiedName
        elif shape == "literal":
            back = "Literal"
        elif tq is not None:
            # decode side: dateTime special-cased, everything else Literal(value, datatype) + model parsers
            back = model_parser_kind(ctx, tq)
        elif shape == "RDFLiteral" and tag is None:
            back = k if k in ("str", "bool", "int", "float") else "?untyped"
        else:
            back = "?%s" % norm(e)
        res.ob("kind %s: arm %r -> %s %s -> %s" % (k, arm, shape, getattr(tq, "s", tag), back))
        if back != k:
            res.fail(rule.id, "rdf-codec::%s" % k, ctx.loc(q, arm.test if arm.test is not None else fi.node),
                     "a %s value is written as %s %s and read back as %s" % (k, shape, getattr(tq, "s", tag), back),
                     "an attribute holding a %s reloads as a %s" % (k, back))
    return res


# ------------------------------------------------------------------------------------------ PROV-N value kinds
def provn_value_chain(ctx: Ctx):
    return locate_chain(ctx, M + ".encoding_provn_value", 3)


def provn_arm_datatype(ctx: Ctx, q, arm: Arm):
    """Datatype suffix printed by an arm: the text after '%%' in the (folded) format string."""
    for e in returned_exprs(arm.body):
        for n in ast.walk(e):
            if isinstance(n, ast.Constant) and isinstance(n.value, str) and "%%" in n.value:
                s = n.value
                is_percent_format = any(isinstance(p, ast.BinOp) and isinstance(p.op, ast.Mod) and p.left is n for p in ast.walk(e))
                if is_percent_format:
                    s = s.replace("%%", "%")  # what the % operator leaves of each escaped percent sign
                elif isinstance(e, ast.Call) and call_name(e) == "format":
                    pass
                # the text that is printed must separate value and datatype with the two-character token %%
                if "%%" not in s:
                    return "<separator %r instead of %%%%>" % s[s.find("%"):][:12]
                return s.split("%%")[-1].strip()
    return None


@rule("C06", "C06.R5", "every native value kind has a PROV-N representation, chosen by an order-correct dispatch", 6,
      decides="True is printed as a boolean (not as the int 1), a float as a double, a datetime as xsd:dateTime")
def c06_r5(ctx: Ctx, rule):
    res = RuleResult()
    q, subject, arms = provn_value_chain(ctx)
    # kinds that have their own provn_representation never reach encoding_provn_value
    own = {}
    for cls, k in (("prov.model.Literal", "Literal"), ("prov.identifier.QualifiedName", "QualifiedName"), ("prov.identifier.Identifier", "Identifier")):
        own[k] = ctx.p.lookup_method(cls, "provn_representation")
        res.ob("%s.provn_representation defined: %s" % (k, bool(own[k])))
        if not own[k]:
            res.fail(rule.id, "provn-kind::%s::no-representation" % k, ctx.loc(cls, ctx.p.cls(cls).node), "%s lost its provn_representation; it would be printed through str()" % k)
    want = {"str": None, "datetime": "xsd:dateTime", "float": ("xsd:double", "xsd:float"), "bool": "xsd:boolean", "int": None}
    for k, dt in want.items():
        arm = arm_for(arms, k)
        got = provn_arm_datatype(ctx, q, arm) if arm and arm.mode != "else" else None
        res.ob("kind %s: arm %r prints datatype %r" % (k, arm, got))
        if arm is None:
            res.fail(rule.id, "provn-kind::%s::no-arm" % k, ctx.loc(q, ctx.fn(q).node), "no arm admits %s" % k)
            continue
        if k == "bool" and not (arm.mode == "isinstance" and "bool" in arm.kinds):
            res.fail(rule.id, "provn-kind::bool::shadowed", ctx.loc(q, arm.test if arm.test is not None else ctx.fn(q).node),
                     "a bool takes arm %r instead of the boolean arm" % arm, "True is printed as the integer 1 (or as a %s)" % (arm.kinds or "bare token"))
        elif isinstance(dt, tuple):
            if got not in dt:
                res.fail(rule.id, "provn-kind::%s::datatype" % k, ctx.loc(q, arm.test), "%s printed with datatype %r" % (k, got))
        elif dt is not None and got != dt:
            res.fail(rule.id, "provn-kind::%s::datatype" % k, ctx.loc(q, arm.test if arm.test is not None else ctx.fn(q).node), "%s printed with datatype %r, expected %r" % (k, got, dt))
        elif dt is None and k == "int" and arm.mode != "else" and got is not None and got not in ("xsd:int", "xsd:long", "xsd:integer"):
            res.fail(rule.id, "provn-kind::int::datatype", ctx.loc(q, arm.test), "int printed with datatype %r" % got)
    # the record printer falls back to encoding_provn_value exactly for values without provn_representation
    rq = M + ".ProvRecord.get_provn"
    rf = ctx.fn(rq)
    cl = ctx.helper_closure(rq)
    uses_rep = any(call_name(c) == "provn_representation" for q2 in cl for c in calls_in(ctx.fn(q2).node))
    uses_enc = any(call_name(c) == "encoding_provn_value" for q2 in cl for c in calls_in(ctx.fn(q2).node))
    res.ob("ProvRecord.get_provn: provn_representation first (%s), encoding_provn_value as fallback (%s)" % (uses_rep, uses_enc))
    if not (uses_rep and uses_enc):
        res.fail(rule.id, "provn-kind::record-printer-dispatch", ctx.loc(rq, rf.node), "ProvRecord.get_provn no longer dispatches between provn_representation and encoding_provn_value")
    # when the choice is made by an isinstance test (instead of trying the method), the test admits every class that has the method
    havers = [c for c in ("prov.model.Literal", "prov.identifier.Identifier", "prov.identifier.QualifiedName") if ctx.p.lookup_method(c, "provn_representation")]
    for q2 in cl:
        f2 = ctx.fn(q2)
        for n in walk_function(f2.node):
            if isinstance(n, (ast.If, ast.IfExp)) and isinstance(n.test, ast.Call) and call_name(n.test) == "isinstance" and len(n.test.args) == 2:
                body = n.body if isinstance(n.body, list) else [n.body]
                if not any(isinstance(c, ast.Call) and call_name(c) == "provn_representation" for b in body for c in ast.walk(b)):
                    continue
                cls_e = n.test.args[1]
                elts = cls_e.elts if isinstance(cls_e, ast.Tuple) else [cls_e]
                admitted = set()
                for e in elts:
                    r = ctx.p.resolve_dotted(f2.module, e)
                    if r and r[0] == "class":
                        admitted.add(r[1])
                missing = [h for h in havers if not any(a in ctx.p.mro(h) for a in admitted)]
                res.ob("%s chooses provn_representation by `%s`: admits every class defining it: %s" % (short(q2), norm(n.test)[:60], not missing))
                for h in missing:
                    res.fail(rule.id, "provn-kind::%s::not-admitted" % h.rsplit(".", 1)[1], ctx.loc(q2, n.test),
                             "%s has its own provn_representation but `%s` does not admit it: it falls through to str()" % (h.rsplit(".", 1)[1], norm(n.test)[:60]),
                             "an xsd:anyURI value is printed bare (ex:homepage=http://example.org/home) instead of \"...\" %% xsd:anyURI")
    return res


@rule("C06", "C06.R4b", "the datatype PROV-N prints for a Python float is the one the other writers use", 3, family="F-SIB",
      decides="sibling writers agree on the datatype of a float")
def c06_r4b(ctx: Ctx, rule):
    res = RuleResult()
    q, subject, arms = provn_value_chain(ctx)
    arm = arm_for(arms, "float")
    provn = provn_arm_datatype(ctx, q, arm) if arm else None
    js = json_writer_tags(ctx).get("float")
    xq, prim, typ = xml_writer_chains(ctx)
    xarm = arm_for(typ, "float")
    xv = xsd_tags_of(ctx, xarm)
    xml = xv[0].s if xv else None
    for name, v in (("PROV-N", provn), ("PROV-JSON", js), ("PROV-XML", xml)):
        res.ob("%s types a float as %r" % (name, v))
    if not (provn == js == xml):
        res.fail(rule.id, "float-datatype-siblings", ctx.loc(q, arm.test if arm and arm.test is not None else ctx.fn(q).node),
                 "a Python float is typed %r in PROV-N, %r in PROV-JSON, %r in PROV-XML" % (provn, js, xml),
                 "an independent PROV-N reader rebuilds a 32-bit float where the other formats give a double")
    return res


@rule("C11", "C11.R5", "the JSON and XML writers give the same datatype (after the model's parser table) to the same Python kind", 5, family="F-SIB",
      decides="JSON text -> document -> XML -> document keeps the kind of every value")
def c11_r5(ctx: Ctx, rule):
    res = RuleResult()
    js = json_writer_tags(ctx)
    xq, prim, typ = xml_writer_chains(ctx)
    for k in ["bool", "int", "float", "datetime", "Identifier"]:
        xarm = arm_for(typ, k)
        xv = xsd_tags_of(ctx, xarm)
        xk = model_parser_kind(ctx, xv[0]) if xv else "?"
        jt = js.get(k)
        jq = resolve_tag(ctx, jt) if isinstance(jt, str) else None
        jk = model_parser_kind(ctx, jq) if jq is not None else (k if jt is None and k in ("bool", "str", "int", "float") else "?")
        res.ob("kind %s: JSON %r -> %s; XML %s -> %s" % (k, jt, jk, xv[0].s if xv else None, xk))
        if jk != xk:
            res.fail(rule.id, "sibling-codec::%s" % k, ctx.loc(xq, xarm.test if xarm is not None and xarm.test is not None else ctx.fn(xq).node),
                     "a %s is re-read as %s through JSON but as %s through XML" % (k, jk, xk),
                     "a value loaded from PROV-JSON changes kind after a pass through PROV-XML")
    return res
