"""F-WRITE / F-PATH / F-DEF / F-NULL rules (who may write a location; what must hold on every path)."""
from __future__ import annotations

import ast

from .. import cfg as cfgmod
from ..ctx import C, JS, M, XM, Ctx, call_name, calls_in, local_names, walk_function
from ..fold import ClassRef, FuncRef, QN, is_unknown
from ..loader import AnalysisError, dotted, norm
from ..mutation import (all_assignments, field_table, is_fresh_expr, mutation_sites, resolve_local, single_assignment)
from ..report import Rule, RuleResult
from .tables import all_formal, membership_branches, record_kinds

RULES = {}

BUNDLE = M + ".ProvBundle"
DOC = M + ".ProvDocument"
RECORD = M + ".ProvRecord"
NSM = M + ".NamespaceManager"


def rule(prop, rid, title, floor, family="F-PATH", decides=""):
    def deco(fn):
        RULES.setdefault(prop, []).append(Rule(rid, title, floor, fn, family, decides))
        return fn

    return deco


def short(q):
    return q.split(".", 2)[2] if q.count(".") >= 2 else q


def get_cfg(ctx: Ctx, qual):
    k = "cfg:" + qual
    if k not in ctx._cache:
        ctx._cache[k] = cfgmod.build(ctx.fn(qual).node)
    return ctx._cache[k]


def node_of(g, astnode):
    ns = g.node_containing(astnode)
    if not ns:
        raise AnalysisError("no CFG node for %s" % norm(astnode))
    return ns[0]


def record_ctor_func(ctx: Ctx, q, call):
    """The callee expression if `call` constructs a record: TABLE[type](...) with TABLE a folded type->record-class table,
    possibly through a local (`cls = TABLE[type]; cls(...)`), or a record class called by name."""
    fi = ctx.fn(q)
    rec_cls = set(record_kinds(ctx).values())
    f = call.func
    if isinstance(f, ast.Name) and f.id in local_names(fi.node):
        d = single_assignment(fi.node, f.id)
        if d is not None:
            f = d
    if isinstance(f, ast.Subscript):
        try:
            t = ctx.eval_in(q, f.value)
        except AnalysisError:
            t = None
        if isinstance(t, dict) and t and all(isinstance(v, ClassRef) and v.qual in rec_cls for v in t.values()):
            return f
        return None
    r = ctx.p.resolve_dotted(fi.module, f) if dotted(f) else None
    if r and r[0] == "class" and r[1] in rec_cls:
        return f
    return None


# ===================================================================================== C18
def bundle_slots(ctx: Ctx):
    """(record-list field, identifier-index field) of ProvBundle, discovered from __init__."""
    ft = field_table(ctx, BUNDLE)
    lists = [f.name for f in ft.values() if f.kind == "OWNED" and f.container == "list"]
    idx = [f.name for f in ft.values() if f.kind == "OWNED" and f.container.startswith("defaultdict(list") or (f.kind == "OWNED" and f.container == "dict")]
    if len(lists) != 1 or len(idx) != 1:
        raise AnalysisError("cannot identify ProvBundle's record list / identifier index (lists=%s index=%s)" % (lists, idx))
    return lists[0], idx[0], ft


def insertion_points(ctx: Ctx):
    rl, ix, ft = bundle_slots(ctx)
    sites = [s for s in mutation_sites(ctx, {rl, ix}) if not (s.func == BUNDLE + ".__init__" and s.how == "rebind")]
    funcs = {}
    for s in sites:
        funcs.setdefault(s.func, []).append(s)
    return rl, ix, sites, funcs


@rule("C18", "C18.R1", "single writer: the record list and the identifier index are mutated only by insertion points", 2, family="F-WRITE",
      decides="no code path can add, remove or reorder records behind the index's back")
def c18_r1(ctx: Ctx, rule):
    res = RuleResult()
    rl, ix, sites, funcs = insertion_points(ctx)
    for s in sites:
        in_class = s.func.startswith(BUNDLE + ".") or s.func.startswith(DOC + ".")
        ok_form = (s.field == rl and s.how == "call:append" and s.depth == 0) or (s.field == ix and s.how == "call:append" and s.depth == 1)
        if s.field == ix and s.how == "call:setdefault" and s.depth == 0 and len(s.node.args) == 2 and norm(s.node.args[1]) in ("[]", "list()"):
            ok_form = True  # index.setdefault(key, []).append(record): the same pairing spelled for a plain dict
        res.ob("%s: %s [%s on %s.%s]" % (short(s.func), s.text, s.how, s.receiver, s.field))
        if not in_class or s.receiver != "self":
            res.fail(rule.id, "foreign-write::%s" % s.key, ctx.loc(s.func, s.node),
                     "%s mutates %s.%s from outside the bundle (%s)" % (short(s.func), s.receiver, s.field, s.text),
                     "after this call get_record()/get_records() and the record list disagree")
        elif not ok_form:
            res.fail(rule.id, "unpaired-mutation::%s" % s.key, ctx.loc(s.func, s.node),
                     "%s changes %s with %s, a form the list/index pairing cannot be shown for" % (short(s.func), s.field, s.how),
                     "records removed, replaced or bulk-added without the matching index update: lookups return stale or missing records")
    # every function that touches one of the two must touch both (checked path-wise by R2)
    for f, ss in funcs.items():
        fields = {s.field for s in ss}
        if fields != {rl, ix} and all(s.receiver == "self" for s in ss):
            res.fail(rule.id, "one-sided-writer::%s" % f, ctx.loc(f, ss[0].node),
                     "%s updates %s but not %s" % (short(f), sorted(fields), sorted({rl, ix} - fields)),
                     "a record added through this path is listed but not found by identifier (or vice versa)")
    res.samples = [{"site": ctx.loc(s.func, s.node), "owner": short(s.func), "text": s.text} for s in sites[:4]]
    return res


@rule("C18", "C18.R2", "pairing: on every path of an insertion point the record is appended to the list, and to the index iff it has an identifier", 2,
      decides="list and index stay in step for identified and anonymous records alike")
def c18_r2(ctx: Ctx, rule):
    res = RuleResult()
    rl, ix, sites, funcs = insertion_points(ctx)
    for f, ss in funcs.items():
        if not f.startswith(BUNDLE + "."):
            continue
        fi = ctx.fn(f)
        g = get_cfg(ctx, f)
        lst = [s for s in ss if s.field == rl and s.how == "call:append"]
        idx = [s for s in ss if s.field == ix and s.how == "call:append"]
        if not lst or not idx:
            continue  # reported by R1
        params = fi.params[1:]
        ln, inn = node_of(g, lst[0].node), node_of(g, idx[0].node)
        # (a) list append on every normal path
        p = g.find_path(g.entry, g.exit, avoid=lambda n: n is ln, labels_excluded=("exc", "raise"))
        res.ob("%s: every normal path appends to %s: %s" % (short(f), rl, p is None))
        if p is not None:
            res.fail(rule.id, "list-append-skipped::%s" % f, ctx.loc(f, lst[0].node),
                     "a path through %s returns without appending the record to %s: %s" % (short(f), rl, " -> ".join(repr(n) for n, _ in p[1:-1])),
                     "the record is returned to the caller / indexed but is not in the bundle's records")
        # (b) index append skipped only when the identifier is None
        recv = idx[0].node.func.value
        key = recv.slice if isinstance(recv, ast.Subscript) else (
            recv.args[0] if isinstance(recv, ast.Call) and call_name(recv) == "setdefault" and recv.args else None)
        keyt = norm(key) if key is not None else "?"

        def guard_false_edge(a, b, lab):
            if a.kind == "test" and a.stmt is not None:
                t = a.stmt.test
                tt = norm(t)
                if tt in ("%s is not None" % keyt, keyt) and lab == "false":
                    return False
                if tt in ("%s is None" % keyt, "not %s" % keyt) and lab == "true":
                    return False
            return True

        p = g.find_path(g.entry, g.exit, avoid=lambda n: n is inn, labels_excluded=("exc", "raise"), edge_ok=guard_false_edge)
        res.ob("%s: %s[%s] is appended unless %s is None: %s" % (short(f), ix, keyt, keyt, p is None))
        if p is not None:
            res.fail(rule.id, "index-append-skipped::%s" % f, ctx.loc(f, idx[0].node),
                     "a path through %s with an identifier present skips the index: %s" % (short(f), " -> ".join(repr(n) for n, _ in p[1:-1])),
                     "an identified record is in records but get_record(its identifier) does not return it")
        # (c) the key is the record's identifier and the appended value is the record parameter
        kexpr = resolve_local(fi.node, key) if key is not None else None
        key_ok = kexpr is not None and isinstance(kexpr, ast.Attribute) and kexpr.attr in ("identifier", "_identifier") and norm(kexpr.value) in params
        val_ok = all(len(s.node.args) == 1 and norm(s.node.args[0]) in params and norm(s.node.args[0]) == (norm(kexpr.value) if key_ok else norm(s.node.args[0])) for s in lst + idx)
        res.ob("%s: index key is the record's own identifier (%s) and both appends store the record parameter: %s" % (short(f), norm(kexpr) if kexpr is not None else None, key_ok and val_ok))
        if not (key_ok and val_ok):
            res.fail(rule.id, "wrong-key-or-value::%s" % f, ctx.loc(f, idx[0].node),
                     "%s indexes under %s / stores %s" % (short(f), norm(kexpr) if kexpr is not None else keyt, [norm(s.node.args[0]) for s in lst + idx if s.node.args]),
                     "get_record returns records filed under another identifier")
    return res


@rule("C18", "C18.R3", "every record constructed for a bundle reaches the insertion point before the constructing method returns", 1,
      decides="no factory path hands out a record that is not in the bundle")
def c18_r3(ctx: Ctx, rule):
    res = RuleResult()
    rl, ix, sites, funcs = insertion_points(ctx)
    ins_names = {f.rsplit(".", 1)[1] for f in funcs if f.startswith(BUNDLE + ".")}
    rec_cls = set(record_kinds(ctx).values())
    for q, fi in ctx.p.functions.items():
        if not (fi.cls and ctx.p.is_subclass(fi.cls, BUNDLE)):
            continue
        for c in calls_in(fi.node):
            is_ctor = record_ctor_func(ctx, q, c) is not None
            if not is_ctor or not c.args or norm(c.args[0]) != "self":
                continue
            g = get_cfg(ctx, q)
            cn = node_of(g, c)
            var = None
            if isinstance(cn.stmt, ast.Assign) and isinstance(cn.stmt.targets[0], ast.Name):
                var = cn.stmt.targets[0].id

            def inserts(n):
                if n.stmt is None:
                    return False
                for e in cfgmod.header_exprs(n.stmt):
                    for x in ast.walk(e):
                        if isinstance(x, ast.Call) and call_name(x) in ins_names and x.args and (norm(x.args[0]) == var or any(y is c for y in ast.walk(x.args[0]))):
                            return True
                return False

            direct = inserts(cn)
            p = None if direct else g.find_path(cn, g.exit, avoid=inserts, labels_excluded=("exc", "raise"))
            res.ob("%s: record built by %s reaches %s on every normal path: %s" % (short(q), norm(c.func), sorted(ins_names), p is None))
            if p is not None:
                res.fail(rule.id, "record-not-inserted::%s" % q, ctx.loc(q, c),
                         "%s constructs a record for this bundle and can return without inserting it: %s" % (short(q), " -> ".join(repr(n) for n, _ in p[1:-1])),
                         "the factory returns a record that records/get_record never show")
    return res


@rule("C18", "C18.R4", "records / get_records hand out fresh lists and filter by isinstance on the caller's class", 3, family="F-OWN",
      decides="callers cannot reach the bundle's own list; typed listing is exactly an isinstance filter")
def c18_r4(ctx: Ctx, rule):
    res = RuleResult()
    rl, ix, ft = bundle_slots(ctx)
    for name in ("records", "get_records"):
        q = ctx.p.lookup_method(BUNDLE, name)
        if not q:
            raise AnalysisError("ProvBundle.%s vanished" % name)
        fi = ctx.fn(q)
        for n in walk_function(fi.node):
            if isinstance(n, ast.Return) and n.value is not None:
                e = resolve_local(fi.node, n.value)
                bare = isinstance(e, ast.Attribute) and e.attr == rl
                fresh = is_fresh_expr(fi.node, n.value)
                res.ob("%s returns %s: fresh=%s" % (short(q), norm(n.value), fresh and not bare))
                if bare or not fresh:
                    res.fail(rule.id, "internal-list-returned::%s::%s" % (q, norm(e)), ctx.loc(q, n),
                             "%s returns %s, which is (or aliases) the bundle's own record list" % (short(q), norm(e)),
                             "a caller appending to / sorting the result changes the bundle without updating the index")
    q = ctx.p.lookup_method(BUNDLE, "get_records")
    fi = ctx.fn(q)
    par = fi.params[1] if len(fi.params) > 1 else None
    filt = [c for c in ast.walk(fi.node) if isinstance(c, ast.Call) and call_name(c) == "isinstance" and len(c.args) == 2 and norm(c.args[1]) == par]
    neg = [c for c in filt if any(isinstance(p, ast.UnaryOp) and isinstance(p.op, ast.Not) and p.operand is c for p in ast.walk(fi.node))]
    res.ob("get_records filters with isinstance(record, %s): %s" % (par, bool(filt) and not neg))
    if not filt or neg:
        res.fail(rule.id, "class-filter::%s" % q, ctx.loc(q, fi.node), "get_records(cls) no longer selects exactly the records that are instances of cls",
                 "typed listing returns records of other kinds or misses subclasses")
    return res


@rule("C18", "C18.R5", "lookup resolves its argument through the namespace resolver before consulting the index", 1,
      decides="every accepted spelling of an identifier reaches the same index key")
def c18_r5(ctx: Ctx, rule):
    res = RuleResult()
    rl, ix, ft = bundle_slots(ctx)
    q = ctx.p.lookup_method(BUNDLE, "get_record")
    fi = ctx.fn(q)
    subs = [n for n in walk_function(fi.node) if isinstance(n, ast.Subscript) and isinstance(n.value, ast.Attribute) and n.value.attr == ix]
    gets = [c for c in calls_in(fi.node) if call_name(c) == "get" and isinstance(c.func.value, ast.Attribute) and c.func.value.attr == ix]
    keys = [n.slice for n in subs] + [c.args[0] for c in gets if c.args]
    if not keys:
        raise AnalysisError("get_record does not consult the identifier index")
    for k in keys:
        e = resolve_local(fi.node, k)
        ok = isinstance(e, ast.Call) and call_name(e) == "valid_qualified_name" and e.args and norm(e.args[0]) == fi.params[1]
        res.ob("get_record key %s = %s: resolved through valid_qualified_name: %s" % (norm(k), norm(e), ok))
        if not ok:
            res.fail(rule.id, "lookup-not-normalised::%s" % norm(e), ctx.loc(q, k),
                     "get_record looks %s up in the index without resolving it through valid_qualified_name" % norm(e),
                     "get_record('ex:e1') / get_record(full URI) miss records that get_record(QualifiedName) finds")
    return res


@rule("C18", "C18.R6", "lookup answers from this container's index only", 1,
      decides="get_record never returns records of another container (parent document, sibling bundle)")
def c18_r6(ctx: Ctx, rule):
    res = RuleResult()
    rl, ix, ft = bundle_slots(ctx)
    q = ctx.p.lookup_method(BUNDLE, "get_record")
    fi = ctx.fn(q)
    index_is_defaultdict = ft[ix].container.startswith("defaultdict")
    for n in walk_function(fi.node):
        if not (isinstance(n, ast.Return) and n.value is not None):
            continue
        deleg = [c for c in ast.walk(n.value) if isinstance(c, ast.Call) and call_name(c) in ("get_record", "get_records") and norm(c.func.value if isinstance(c.func, ast.Attribute) else c.func) != "self"]
        uses_index = any(isinstance(x, ast.Attribute) and x.attr == ix and norm(x.value) == "self" for x in ast.walk(resolve_local(fi.node, n.value)))
        const = isinstance(n.value, (ast.Constant, ast.List, ast.Tuple)) or (isinstance(n.value, ast.Call) and call_name(n.value) == "list" and not n.value.args)
        dead = False
        if deleg:
            # reachable unless it sits in an `except KeyError` whose try body only subscripts a defaultdict index (which never raises KeyError)
            for t in walk_function(fi.node):
                if isinstance(t, ast.Try):
                    for h in t.handlers:
                        if any(x is n for x in ast.walk(h)) and h.type is not None and norm(h.type) == "KeyError" and index_is_defaultdict:
                            body_subs = [x for b in t.body for x in ast.walk(b) if isinstance(x, (ast.Subscript, ast.Call))]
                            if all(isinstance(x, ast.Subscript) and isinstance(x.value, ast.Attribute) and x.value.attr == ix for x in body_subs):
                                dead = True
        res.ob("get_record returns %s: own index=%s constant=%s delegates=%s (dead=%s)" % (norm(n.value), uses_index, const, bool(deleg), dead))
        if deleg and not dead:
            res.fail(rule.id, "lookup-delegates::%s" % norm(deleg[0]), ctx.loc(q, n),
                     "get_record can answer with %s, records that are not in this container" % norm(deleg[0]),
                     "bundle.get_record(x) for an x absent from the bundle but present in the document returns the document's records, which bundle.records does not contain")
        elif not deleg and not uses_index and not const:
            res.fail(rule.id, "lookup-foreign-source::%s" % norm(n.value), ctx.loc(q, n), "get_record returns %s, which is not read from this container's index" % norm(n.value))
    return res


# ===================================================================================== C05
def attr_slot(ctx: Ctx):
    ft = field_table(ctx, RECORD)
    mm = [f.name for f in ft.values() if f.kind == "OWNED" and f.container.startswith("defaultdict(set")]
    if len(mm) != 1:
        raise AnalysisError("cannot identify ProvRecord's attribute multimap (%s)" % mm)
    return mm[0]


def find_normaliser(ctx: Ctx):
    """The ProvRecord method whose store into the multimap is reached through the three-way partition
    (reference attributes -> resolver, time attributes -> datetime, others -> literal conversion)."""
    mm = attr_slot(ctx)
    cands = []
    for s in mutation_sites(ctx, {mm}):
        if s.how.startswith("call:add") and s.depth == 1 and s.func.startswith(RECORD + "."):
            calls = set()
            for q2 in ctx.helper_closure(s.func, depth=2):
                if q2.startswith(RECORD + ".") or q2.startswith(M + "."):
                    calls |= {call_name(c) for c in calls_in(ctx.fn(q2).node)}
            if "valid_qualified_name" in calls and any("literal" in c.lower() or c == "parse_xsd_types" for c in calls):
                cands.append(s)
    if len({s.func for s in cands}) != 1:
        raise AnalysisError("cannot identify the attribute normaliser (candidates: %s)" % sorted({s.func for s in cands}))
    return cands[0].func, cands, mm


def datetime_coercers(ctx: Ctx):
    """Functions whose str path returns dateutil.parser.parse(arg): discovered by summary."""
    out = set()
    for q, fi in ctx.p.functions.items():
        if fi.module != M or fi.cls or fi.parent:
            continue
        for n in walk_function(fi.node):
            if isinstance(n, ast.Return) and isinstance(n.value, ast.Call) and (dotted(n.value.func) or "").endswith("parser.parse"):
                if n.value.args and len(fi.params) >= 1 and norm(n.value.args[0]) == fi.params[0]:
                    out.add(fi.name)
    return out


def _loop_table_values(ctx, q, name, inside):
    """Values a loop variable takes when the enclosing `for` walks a literal tuple/list of tuples (or of plain values)."""
    f = ctx.fn(q)
    for lp in walk_function(f.node):
        if not isinstance(lp, ast.For) or not any(x is inside for b in lp.body for x in ast.walk(b)):
            continue
        if not isinstance(lp.iter, (ast.Tuple, ast.List)) or not lp.iter.elts:
            continue
        tg = lp.target
        if isinstance(tg, ast.Name) and tg.id == name:
            exprs = list(lp.iter.elts)
        elif isinstance(tg, ast.Tuple) and any(isinstance(e, ast.Name) and e.id == name for e in tg.elts):
            k = [i for i, e in enumerate(tg.elts) if isinstance(e, ast.Name) and e.id == name][0]
            if not all(isinstance(row, (ast.Tuple, ast.List)) and len(row.elts) == len(tg.elts) for row in lp.iter.elts):
                return None
            exprs = [row.elts[k] for row in lp.iter.elts]
        else:
            continue
        try:
            return [ctx.eval_in(q, e) for e in exprs]
        except AnalysisError:
            return None
    return None


@rule("C05", "C05.R1", "who may write the attribute multimap: the normaliser, or a store whose value satisfies the partition for its key", 3, family="F-WRITE",
      decides="no entry path can put an un-normalised value (raw string time, unresolved name) into a record")
def c05_r1(ctx: Ctx, rule):
    res = RuleResult()
    norm_q, norm_sites, mm = find_normaliser(ctx)
    coercers = datetime_coercers(ctx)
    lit = ctx.const(C, "PROV_ATTRIBUTE_LITERALS")
    qn = ctx.const(C, "PROV_ATTRIBUTE_QNAMES")
    res.exceptions.append("normaliser = %s (discovered: the only multimap writer behind the 3-way partition); datetime coercers = %s" % (short(norm_q), sorted(coercers)))
    if len(coercers) < 2:
        raise AnalysisError("datetime coercers not found (%s)" % coercers)
    for s in mutation_sites(ctx, {mm}):
        if s.func == RECORD + ".__init__" and s.how == "rebind":
            res.ob("%s: initialisation %s" % (short(s.func), s.text), nontrivial=False)
            continue
        res.ob("%s: %s" % (short(s.func), s.text))
        if s.func == norm_q and s.receiver == "self":
            continue
        ok = False
        why = "stores a value that did not pass the normaliser"
        if s.how == "setitem" and s.depth == 0 and isinstance(s.node, ast.Assign):
            key = ctx.eval_in(s.func, s.node.targets[0].slice)
            val = s.node.value
            elems = val.elts if isinstance(val, (ast.Set, ast.List, ast.Tuple)) else None
            if not isinstance(key, QN) and isinstance(s.node.targets[0].slice, ast.Name):
                # `for key, v in ((K1, a), (K2, b)): self._attributes[key] = {..}`: the key ranges over a literal table
                keys = _loop_table_values(ctx, s.func, s.node.targets[0].slice.id, s.node)
                if keys and all(isinstance(k, QN) for k in keys) and (all(k in lit for k in keys) or all(k in qn for k in keys)):
                    key = keys[0]
            if isinstance(key, QN) and elems is not None:
                if key in lit:
                    ok = all(isinstance(e, ast.Call) and call_name(e) in coercers for e in elems)
                    why = "stores %s under the time attribute %s without a datetime coercion (%s)" % (norm(val), key.s, sorted(coercers))
                elif key in qn:
                    ok = all(isinstance(e, ast.Call) and call_name(e) == "valid_qualified_name" for e in elems)
                    why = "stores %s under the reference attribute %s without resolving it" % (norm(val), key.s)
                else:
                    ok = all(isinstance(e, ast.Call) and call_name(e) == ctx.literal_converter() for e in elems)
                    why = "stores %s under %s without literal normalisation" % (norm(val), key.s)
        if not ok:
            res.fail(rule.id, "raw-attribute-store::%s" % s.key, ctx.loc(s.func, s.node),
                     "%s %s: %s" % (short(s.func), why, s.text),
                     "a value supplied as an ISO string / 'prefix:local' string / typed literal is stored as given; serializers then call isoformat()/str() on it or print an undeclared prefix")
    return res


@rule("C05", "C05.R2", "single-value guard: a second, different value for any formal attribute reaches `raise`, never the store", 26,
      decides="formal attributes hold at most one value; the same value again is a no-op")
def c05_r2(ctx: Ctx, rule):
    res = RuleResult()
    norm_q, norm_sites, mm = find_normaliser(ctx)
    fi = ctx.fn(norm_q)
    g = get_cfg(ctx, norm_q)
    formal = set(all_formal(ctx))
    store = node_of(g, norm_sites[0].node)
    # guard tests: `... and attr in S and self._attributes[attr]`
    guards = []
    for subj, s, text, tc, fc, node in membership_branches(ctx, norm_q):
        if isinstance(node, ast.If) and any(isinstance(x, ast.Raise) for x in ast.walk(node)) and any(
                isinstance(x, ast.Subscript) and isinstance(x.value, ast.Attribute) and x.value.attr == mm for x in ast.walk(node.test)):
            guards.append((s, text, node))
    if len(guards) == 0:
        # the guard as a helper of its own: a function in the closure that tests membership in a set of formal attributes
        # together with the live multimap entry, and raises
        for q2 in ctx.helper_closure(norm_q):
            if q2 == norm_q:
                continue
            f2 = ctx.fn(q2)
            if not any(isinstance(x, ast.Raise) for x in walk_function(f2.node)):
                continue
            for n in walk_function(f2.node):
                if isinstance(n, ast.If) and any(isinstance(x, ast.Subscript) and isinstance(x.value, ast.Attribute) and x.value.attr == mm for x in ast.walk(n.test)):
                    for c in ast.walk(n.test):
                        if isinstance(c, ast.Compare) and isinstance(c.ops[0], ast.In):
                            try:
                                sv = ctx.eval_in(q2, c.comparators[0])
                            except AnalysisError:
                                continue
                            if isinstance(sv, (set, frozenset)) and len(set(sv) & formal) >= 3:
                                guards.append((set(sv), norm(c.comparators[0]), n))
            if guards:
                break
    if len(guards) != 1:
        # a guard that raises but no longer consults the live multimap?
        stale = []
        for n in walk_function(fi.node):
            if isinstance(n, ast.If) and any(isinstance(x, ast.Raise) for x in ast.walk(n)) and any(isinstance(x, ast.Compare) and isinstance(x.ops[0], ast.In) for x in ast.walk(n.test)):
                in_loop = any(isinstance(l, ast.For) and any(x is n for x in ast.walk(l)) for l in walk_function(fi.node))
                reads_live = any(isinstance(x, ast.Subscript) and isinstance(x.value, ast.Attribute) and x.value.attr == mm for x in ast.walk(n.test))
                if in_loop and not reads_live and any("value" in norm(x) for x in ast.walk(n) if isinstance(x, ast.Compare)):
                    stale.append(n)
        if len(guards) == 0 and len(stale) == 1:
            n = stale[0]
            for a in sorted(formal, key=lambda x: x.local):
                res.ob("formal %s: guard `%s` consults the live attribute map: False" % (a.s, norm(n.test)[:50]))
            res.fail(rule.id, "guard-not-live", ctx.loc(norm_q, n),
                     "the single-value guard `%s` does not read %s[attr] in the iteration that stores: it decides on a snapshot taken before the loop" % (norm(n.test)[:60], mm),
                     "one call supplying two different values for a formal attribute the record did not hold before ([(prov:time, t1), (prov:time, t2)]) stores both")
            return res
        raise AnalysisError("cannot identify the single-value guard in %s (found %d)" % (short(norm_q), len(guards)))
    gset, gtext, gnode = guards[0]
    guard_fn = next((q2 for q2 in ctx.helper_closure(norm_q) if any(x is gnode for x in ast.walk(ctx.fn(q2).node))), norm_q)
    if guard_fn != norm_q:
        for a in sorted(formal, key=lambda x: x.local):
            res.ob("formal %s covered by guard set %s (guard in helper %s): %s" % (a.s, gtext, short(guard_fn), a in gset))
            if a not in gset:
                res.fail(rule.id, "guard-misses::%s" % a.local, ctx.loc(guard_fn, gnode), "the single-value guard tests membership in %s, which does not contain %s" % (gtext, a.s),
                         "add_attributes({%s: x}) twice with different x leaves two values" % a.s)
        raises_h = any(isinstance(x, ast.Raise) for x in ast.walk(ctx.fn(guard_fn).node))
        used = any(call_name(c) == guard_fn.rsplit(".", 1)[1] for c in calls_in(fi.node))
        res.ob("guard helper raises on a differing value: %s; the normaliser consults it before storing: %s" % (raises_h, used))
        if not raises_h or not used:
            res.fail(rule.id, "guard-does-not-raise", ctx.loc(guard_fn, gnode), "the single-value guard helper no longer raises / is no longer consulted")
        res.notes.append("single-value guard lives in helper %s: the fall-through-to-store path check is not applied across the call" % short(guard_fn))
        return res
    for a in sorted(formal, key=lambda x: x.local):
        res.ob("formal %s covered by guard set %s: %s" % (a.s, gtext, a in gset))
        if a not in gset:
            res.fail(rule.id, "guard-misses::%s" % a.local, ctx.loc(norm_q, gnode),
                     "the single-value guard tests membership in %s, which does not contain %s" % (gtext, a.s),
                     "add_attributes({%s: x}) twice with different x leaves two values; serializers print an arbitrary one" % a.s)
    # inside the guard: the differing-value arm raises, the same-value arm does not store
    gn = g.nodes_of(gnode)[0]
    raises = [n for n in g.nodes if isinstance(n.stmt, ast.Raise) and any(x is n.stmt for x in ast.walk(gnode))]
    res.ob("guard body contains a raise: %s" % bool(raises))
    true_succ = [m for m, lab in gn.succ if lab == "true"]
    reach_store = bool(true_succ) and (true_succ[0] is store or g.exists_path(true_succ[0], store, labels_excluded=("exc", "back", "continue")))
    res.ob("store reachable from inside the guard without leaving the iteration: %s" % reach_store)
    if not raises:
        res.fail(rule.id, "guard-does-not-raise", ctx.loc(norm_q, gnode), "the single-value guard no longer raises", "conflicting values are silently dropped or accumulated")
    if reach_store:
        res.fail(rule.id, "guard-falls-through-to-store", ctx.loc(norm_q, gnode), "a path from inside the single-value guard reaches the store of the same iteration",
                 "a second value is added to a formal attribute")
    # extra conjuncts that switch the guard off must be call-local facts (today: the membership multi-entity path)
    conj = gnode.test.values if isinstance(gnode.test, ast.BoolOp) and isinstance(gnode.test.op, ast.And) else [gnode.test]
    extra = [c for c in conj if not (isinstance(c, ast.Compare) and isinstance(c.ops[0], ast.In)) and not any(isinstance(x, ast.Attribute) and x.attr == mm for x in ast.walk(c))]
    for c in extra:
        root_names = {x.id for x in ast.walk(c) if isinstance(x, ast.Name)}
        selfish = any(isinstance(x, ast.Attribute) and isinstance(x.value, ast.Name) and x.value.id == "self" for x in ast.walk(c))
        res.ob("guard escape conjunct %s depends on record state: %s" % (norm(c), selfish))
        if selfish:
            res.fail(rule.id, "guard-escape-on-record-state::%s" % norm(c), ctx.loc(norm_q, c),
                     "the single-value guard is switched off by %s, a property of the record rather than of the call" % norm(c),
                     "every later add_attributes on such a record accepts a second value for a formal attribute")
        else:
            for nm in root_names:
                defs = all_assignments(fi.node, nm)
                src = " ".join(norm(d) for d in defs if d is not None)
                if "self." in src or ctx.type_field() in src or "get_type" in src:
                    res.fail(rule.id, "guard-escape-on-record-state::%s" % nm, ctx.loc(norm_q, c),
                             "the guard escape %s is derived from the record (%s), not from the attributes of this call" % (nm, src),
                             "a membership record accepts a second prov:entity through a later add_attributes call")
    return res


@rule("C05", "C05.R3", "coercion partition: references -> resolver, times -> datetime, others -> literal conversion; None is refused before the store", 4,
      decides="whatever representation a value is supplied in, what is stored has the normal form of its attribute")
def c05_r3(ctx: Ctx, rule):
    res = RuleResult()
    norm_q, norm_sites, mm = find_normaliser(ctx)
    fi = ctx.fn(norm_q)
    lit = ctx.const(C, "PROV_ATTRIBUTE_LITERALS")
    qn = ctx.const(C, "PROV_ATTRIBUTE_QNAMES")
    coercers = datetime_coercers(ctx)
    ref_arm = time_arm = None
    for subj, s, text, tc, fc, node in membership_branches(ctx, norm_q):
        if "valid_qualified_name" in tc and not any(isinstance(x, ast.Raise) for b in node.body for x in ast.walk(b)):
            ref_arm = (s, text, node)
        elif tc & coercers and isinstance(node, ast.If):
            time_arm = (s, text, node, tc)
    if not ref_arm:
        for subj, s, text, tc, fc, node in membership_branches(ctx, norm_q):
            if s == set(qn) and isinstance(node, ast.If) and not any(isinstance(x, ast.Raise) for b in node.body for x in ast.walk(b)):
                res.ob("reference attributes (%s) are resolved through valid_qualified_name: False" % text)
                res.fail(rule.id, "partition::references-not-resolved", ctx.loc(norm_q, node), "the arm for reference attributes (%s) no longer resolves the value through valid_qualified_name" % text,
                         "a reference given as 'prefix:local' string or record object is stored as given; exporters print str(record) or an undeclared prefix")
                for a in all_formal(ctx)[:3]:
                    res.ob("%s: not examined further (reference arm broken)" % a.s, nontrivial=False)
                return res
    if not ref_arm or not time_arm:
        raise AnalysisError("cannot extract the reference/time arms of %s" % short(norm_q))
    formal = all_formal(ctx)
    for a in formal:
        want = "reference" if a in qn else "time" if a in lit else "other"
        got = "reference" if a in ref_arm[0] else "time" if a in time_arm[0] else "other"
        res.ob("%s: constants say %s, normaliser treats it as %s" % (a.s, want, got))
        if want != got:
            res.fail(rule.id, "partition::%s" % a.local, ctx.loc(norm_q, ref_arm[2]), "%s is coerced as %s but classified %s" % (a.s, got, want),
                     "values of %s are stored un-resolved / un-parsed" % a.s)
    # the time arm keeps datetimes and parses everything else
    tnode = time_arm[2]
    has_isinstance = any(isinstance(x, ast.Call) and call_name(x) == "isinstance" and "datetime" in norm(x) for x in ast.walk(tnode))
    res.ob("time arm: datetime kept as is, other values parsed by %s: %s" % (sorted(time_arm[3] & coercers), has_isinstance))
    # else arm
    else_calls = set()
    cur = ref_arm[2]
    while isinstance(cur, ast.If) and len(cur.orelse) == 1 and isinstance(cur.orelse[0], ast.If):
        cur = cur.orelse[0]
    for b in (cur.orelse if isinstance(cur, ast.If) else []):
        else_calls |= {call_name(c) for c in ast.walk(b) if isinstance(c, ast.Call)}
    conv = ctx.literal_converter()
    if conv not in else_calls:
        # early-return form: `if refs: return ..; if times: return ..; return self._auto_literal_conversion(v)`
        host = next((q2 for q2 in ctx.helper_closure(norm_q) if any(x is ref_arm[2] for x in ast.walk(ctx.fn(q2).node))), norm_q)
        tail = [r for r in walk_function(ctx.fn(host).node) if isinstance(r, ast.Return) and r.value is not None and not any(x is r for arm_ in (ref_arm[2], time_arm[2]) for x in ast.walk(arm_))]
        for r in tail:
            else_calls |= {call_name(c) for c in ast.walk(r) if isinstance(c, ast.Call)}
    res.ob("remaining attributes go through _auto_literal_conversion: %s" % (conv in else_calls))
    if conv not in else_calls:
        res.fail(rule.id, "partition::others-not-normalised", ctx.loc(norm_q, cur), "non-formal values are stored without _auto_literal_conversion",
                 "Literal('1', xsd:int) and 1 are stored as different values")
    # None => raise dominates the store
    g = get_cfg(ctx, norm_q)
    store = node_of(g, norm_sites[0].node)
    none_tests = [n for n in g.nodes if n.kind == "test" and norm(n.stmt.test) in ("value is None",) and any(isinstance(x, ast.Raise) for x in ast.walk(n.stmt))]
    dom = g.dominators(labels_excluded=("exc",))
    ok = any(t.id in dom.get(store.id, set()) for t in none_tests)
    res.ob("`value is None -> raise` dominates the store: %s" % ok)
    if not ok:
        res.fail(rule.id, "none-check-missing", ctx.loc(norm_q, norm_sites[0].node), "a failed coercion (None) can reach the store",
                 "an unparsable time / unresolvable name is stored as None")
    return res


# ------------------------------------------------------------------------------------------ lexical pass-through (C05.R10 / C02.R9 / C11.R10)
LOSSY_STR_METHODS = {"strip", "lstrip", "rstrip", "lower", "upper", "casefold", "title", "capitalize", "swapcase", "replace", "split", "rsplit", "partition",
                     "rpartition", "splitlines", "expandtabs", "translate", "removeprefix", "removesuffix", "zfill", "center", "ljust", "rjust", "format", "join"}


def _is_dateutil_parse(ctx, fi, call):
    d = dotted(call.func) or ""
    if d.endswith("parser.parse"):
        return True
    r = ctx.p.resolve_dotted(fi.module, call.func)
    return bool(r and r[0] == "ext" and r[1].endswith("dateutil.parser.parse"))


def _unmodified_param(fi, expr):
    """expr is a bare parameter of fi that is never rebound in fi."""
    if not (isinstance(expr, ast.Name) and expr.id in fi.params):
        return False
    for n in walk_function(fi.node):
        if isinstance(n, (ast.Assign, ast.AugAssign, ast.AnnAssign, ast.NamedExpr)):
            tg = n.targets if isinstance(n, ast.Assign) else [n.target]
            if any(isinstance(x, ast.Name) and x.id == expr.id for t in tg for x in ast.walk(t)):
                return False
    return True


def lexical_passthrough(ctx: Ctx, rule):
    """A typed value's lexical form reaches its datatype's parser exactly as it was given: the parser table contains the identity
    (xsd:string -> str, xsd:anyURI -> Identifier), so any transformation applied before the table dispatch changes strings; and the
    datetime coercers are siblings that must compute the same function of a string (equal information, one representation)."""
    res = RuleResult()
    table = ctx.const(M, "XSD_DATATYPE_PARSERS")
    ident = sorted(k.local if isinstance(k, QN) else str(k) for k, v in table.items() if isinstance(v, ClassRef) or getattr(v, "name", None) in ("str",) or "str" in repr(v))
    res.ob("XSD_DATATYPE_PARSERS holds %d parsers; identity-like entries (the value itself must arrive unchanged): %s" % (len(table), ident))
    # (1) every call through the table
    sites = 0
    for q, fi in ctx.p.functions.items():
        if fi.module != M or isinstance(fi.node, ast.Lambda):
            continue
        tnames = {"XSD_DATATYPE_PARSERS"}
        for a in walk_function(fi.node):
            if isinstance(a, ast.Assign) and len(a.targets) == 1 and isinstance(a.targets[0], ast.Name) and any(isinstance(x, ast.Name) and x.id == "XSD_DATATYPE_PARSERS" for x in ast.walk(a.value)):
                tnames.add(a.targets[0].id)
        for c in calls_in(fi.node):
            f = c.func
            through = (isinstance(f, ast.Subscript) and isinstance(f.value, ast.Name) and f.value.id == "XSD_DATATYPE_PARSERS") or \
                      (isinstance(f, ast.Call) and call_name(f) == "get" and isinstance(f.func, ast.Attribute) and isinstance(f.func.value, ast.Name) and f.func.value.id == "XSD_DATATYPE_PARSERS") or \
                      (isinstance(f, ast.Name) and f.id in tnames - {"XSD_DATATYPE_PARSERS"})
            if not through or not c.args:
                continue
            sites += 1
            ok = _unmodified_param(fi, c.args[0])
            res.ob("%s: %s is applied to the function's own, never rebound, parameter: %s" % (short(q), norm(c)[:60], ok))
            if not ok:
                how = [norm(x)[:50] for x in walk_function(fi.node) if isinstance(x, ast.Call) and isinstance(x.func, ast.Attribute) and x.func.attr in LOSSY_STR_METHODS]
                res.fail(rule.id, "lexical-form-rewritten::%s" % q, ctx.loc(q, c),
                         "%s hands the datatype's parser something other than the value it was given (%s): xsd:string and xsd:anyURI values are stored changed" % (short(q), "; ".join(how) or norm(c.args[0])),
                         "PROV-XML/JSON text with <ex:code xsi:type=\"xsd:string\">  indented\\n</ex:code>: the loaded value is 'indented'; writing and loading again cannot give the original text's value")
    if not sites:
        raise AnalysisError("no dispatch through XSD_DATATYPE_PARSERS found in prov.model")
    # (1b) a parser written in the repository is one exact conversion of its argument: every return is a constant, the argument
    # itself, or ONE call applied to the unmodified argument - never a chain such as int(float(value)) that goes through another type
    for k, v in sorted(table.items(), key=lambda kv: str(kv[0])):
        pq = getattr(v, "qual", None)
        if not isinstance(v, FuncRef) or pq not in ctx.p.functions:
            continue
        pf = ctx.fn(pq)
        if not pf.params:
            continue
        for n in walk_function(pf.node):
            if not isinstance(n, ast.Return) or n.value is None:
                continue
            e = resolve_local(pf.node, n.value)
            branches = [e.body, e.orelse] if isinstance(e, ast.IfExp) else [e]
            for b in branches:
                b = resolve_local(pf.node, b)
                okb = isinstance(b, ast.Constant) or (isinstance(b, ast.Name) and b.id in pf.params) or (
                    isinstance(b, ast.Call) and len(b.args) >= 1 and _unmodified_param(pf, b.args[0]) and not any(isinstance(a, ast.Call) for a in b.args))
                res.ob("parser %s for %s returns %s: one exact conversion of the argument: %s" % (pf.name, k.local if isinstance(k, QN) else k, norm(b)[:40], okb))
                if not okb:
                    res.fail(rule.id, "parser-goes-through-another-type::%s" % pf.name, ctx.loc(pq, n),
                             "%s, the parser registered for %s, returns %s: the lexical form is converted through another type on the way" % (pf.name, k.local if isinstance(k, QN) else k, norm(b)[:50]),
                             "Literal('9007199254740993', xsd:long) is stored as 9007199254740992 (int(float(..)) rounds through a double): a direct assignment and the JSON/XML reload store different ints")
    # (2) datetime coercers are siblings: on a string they return dateutil's parse of the unmodified string, the value itself, or None
    coercers = set(datetime_coercers_loose(ctx))
    # the parser registered for xsd:dateTime in the datatype table is a coercer whatever it calls
    try:
        tbl = ctx.const(M, "XSD_DATATYPE_PARSERS")
    except AnalysisError:
        tbl = {}
    for k, v in (tbl.items() if isinstance(tbl, dict) else []):
        if isinstance(k, QN) and k.local == "dateTime" and isinstance(v, FuncRef) and v.qual.startswith(M + ".") and v.qual.count(".") == 2:
            coercers.add(v.qual.rsplit(".", 1)[1])
    coercers = sorted(coercers)
    if len(coercers) < 2:
        raise AnalysisError("datetime coercers not found (%s)" % coercers)
    for name in coercers:
        q = M + "." + name
        fi = ctx.fn(q)
        for n in walk_function(fi.node):
            if not isinstance(n, ast.Return) or n.value is None:
                continue
            v = resolve_local(fi.node, n.value)
            kind = None
            if isinstance(v, ast.Constant) and v.value is None:
                kind = "None"
            elif isinstance(v, ast.Name) and v.id in fi.params:
                kind = "the argument itself"
            elif isinstance(v, ast.Call) and _is_dateutil_parse(ctx, fi, v) and v.args and _unmodified_param(fi, v.args[0]) and not v.keywords:
                kind = "dateutil's parse of the unmodified argument"
            res.ob("%s returns %s: %s" % (name, norm(n.value)[:60], kind or "SOMETHING ELSE"))
            if kind is None:
                res.fail(rule.id, "datetime-coercers-disagree::%s::%s" % (name, norm(n.value)[:40]), ctx.loc(q, n),
                         "%s can return %s, which its sibling coercers (%s) never compute for the same string" % (name, norm(n.value)[:60], ", ".join(c for c in coercers if c != name)),
                         "the same instant given as '2012-03-02T10:30:00Z' through add_attributes and through a factory is stored as two different datetimes: re-adding it is refused")
    return res


def datetime_coercers_loose(ctx: Ctx):
    """Module-level functions of prov.model that call dateutil's parser on their first parameter somewhere."""
    out = set()
    for q, fi in ctx.p.functions.items():
        if fi.module != M or fi.cls or fi.parent or isinstance(fi.node, ast.Lambda) or not fi.params:
            continue
        for c in calls_in(fi.node):
            if _is_dateutil_parse(ctx, fi, c) and c.args and any(isinstance(x, ast.Name) and x.id == fi.params[0] for x in ast.walk(c.args[0])):
                out.add(fi.name)
    return out


for _p, _r, _d in (("C05", "C05.R10", "a typed literal is stored as the value a direct assignment would store; every entry path parses times alike"),
                   ("C02", "C02.R9", "xsi:type'd strings reload unchanged (leading/trailing white space included)"),
                   ("C11", "C11.R10", "loading never alters a string value on its way through the datatype table"),
                   ("C01", "C01.R10", "typed literal objects reload unchanged through the datatype table")):
    RULES.setdefault(_p, []).append(Rule(_r, "lexical forms reach their datatype's parser unmodified; the datetime coercers compute one function", 4, lexical_passthrough, "F-PATH", _d))


# ------------------------------------------------------------------------------------------ formal/extra partition (C04.R9 / C09.R9 / C08.R10)
def attribute_partition(ctx: Ctx, rule):
    """add_record() re-creates a record from formal_attributes + extra_attributes.  The two views partition the attributes exactly
    iff the name set the formal view walks is the name set the extra view filters out - for every record class."""
    res = RuleResult()
    RECORD_ = M + ".ProvRecord"
    fq, eq_ = ctx.p.lookup_method(RECORD_, "formal_attributes"), ctx.p.lookup_method(RECORD_, "extra_attributes")
    if not fq or not eq_:
        raise AnalysisError("anchor vanished: ProvRecord.formal_attributes / extra_attributes")
    ffi, efi = ctx.fn(fq), ctx.fn(eq_)
    walked = [n.iter for n in walk_function(ffi.node) if isinstance(n, (ast.For, ast.comprehension))]
    walked = [w for w in walked if not (isinstance(w, ast.Call) and call_name(w) in ("items", "values"))]
    filt = []
    for q2 in ctx.helper_closure(eq_, 1):
        for n in walk_function(ctx.fn(q2).node):
            if isinstance(n, ast.Compare) and len(n.ops) == 1 and isinstance(n.ops[0], (ast.NotIn, ast.In)):
                filt.append((n.comparators[0], isinstance(n.ops[0], ast.NotIn)))
    if len(walked) != 1 or len(filt) != 1:
        raise AnalysisError("cannot identify the name sets of formal_attributes (%s) / extra_attributes (%s)" % ([norm(w) for w in walked], [norm(f[0]) for f in filt]))
    w, (f, negated) = walked[0], filt[0]

    def value_for(cls, expr):
        while isinstance(expr, ast.Call) and call_name(expr) in ("set", "frozenset", "tuple", "list") and len(expr.args) == 1:
            expr = expr.args[0]
        if isinstance(expr, ast.Attribute) and isinstance(expr.value, ast.Name) and expr.value.id == "self":
            v = ctx.f.class_attr(cls, expr.attr)
        else:
            v = ctx.f.eval(expr, M, {})
        if is_unknown(v) or not isinstance(v, (tuple, list, set, frozenset)):
            raise AnalysisError("cannot fold %s for %s" % (norm(expr), cls))
        return set(v)

    kinds = record_kinds(ctx)
    bad = []
    for t, cls in sorted(kinds.items(), key=lambda kv: kv[1]):
        a, b = value_for(cls, w), value_for(cls, f)
        same = (a == b) and negated
        res.ob("%s: formal view walks %d names, extra view filters %s %d names: exact partition: %s" % (cls.rsplit(".", 1)[1], len(a), "out" if negated else "IN", len(b), same))
        if not same:
            bad.append((cls, sorted(x.local if isinstance(x, QN) else str(x) for x in (a ^ b))))
    if bad:
        cls, diff = bad[0]
        res.fail(rule.id, "views-do-not-partition", ctx.loc(eq_, efi.node),
                 "formal_attributes walks `%s` but extra_attributes filters on `%s`: for %d record classes some attribute is in neither (or both) views, e.g. %s: %s" % (norm(w), norm(f), len(bad), cls.rsplit(".", 1)[1], diff[:4]),
                 "wasInformedBy carrying prov:time (not one of its formal attributes): ProvDocument(records=d.records), d.update(..), flattened(), unified() drop it, so d != rebuilt(d)")
    return res


for _p, _r, _d in (("C04", "C04.R9", "rebuilding a document from its records preserves content, so d == rebuilt(d)"),
                   ("C09", "C09.R9", "records re-created by flattened/update/add_bundle keep every attribute"),
                   ("C08", "C08.R10", "records re-created by unified() keep every attribute"),
                   ("C12", "C12.R7", "the copy made by add_record carries every attribute of its source")):
    RULES.setdefault(_p, []).append(Rule(_r, "formal_attributes and extra_attributes partition a record's attributes exactly (same name set, for every record class)", 18, attribute_partition, "F-TABLE", _d))


# ------------------------------------------------------------------------------------------ datetimes are written as they are
TZ_APIS = {"astimezone", "utcoffset", "timestamp", "utcfromtimestamp", "fromtimestamp", "strftime", "strptime", "utctimetuple", "timetuple", "tzname", "dst"}


def datetime_as_is(ctx: Ctx, rule):
    """A datetime value is an instant *with its offset* (or a naive wall-clock time): the writers print `value.isoformat()` and the
    readers parse that text back.  No code in the package converts between time zones, re-labels tzinfo, or formats through
    strftime - any such step changes the value for offsets other than +00:00 (replace(tzinfo=utc) re-labels, it does not convert)."""
    res = RuleResult()
    n_iso = 0
    for q, fi in ctx.p.functions.items():
        if fi.module.startswith("scripts.") or isinstance(fi.node, ast.Lambda):
            continue
        for c in calls_in(fi.node):
            name = call_name(c)
            if name == "isoformat":
                n_iso += 1
                bad_args = [k.arg for k in c.keywords if k.arg in ("timespec",)] + (["sep"] if c.args else [])
                res.ob("%s prints a datetime with %s" % (short(q) if q.count(".") > 2 else q, norm(c)[:50]), nontrivial=not bad_args)
                if any(k.arg == "timespec" for k in c.keywords):
                    res.fail(rule.id, "datetime-truncated::%s" % q, ctx.loc(q, c), "%s limits the printed precision (%s)" % (short(q), norm(c)[:50]), "microseconds are lost on the round trip")
            tz = name in TZ_APIS and isinstance(c.func, ast.Attribute)
            relabel = name == "replace" and any(k.arg in ("tzinfo", "microsecond", "second", "minute", "hour") for k in c.keywords)
            if tz or relabel:
                res.ob("%s: %s" % (short(q) if q.count(".") > 2 else q, norm(c)[:60]))
                res.fail(rule.id, "datetime-rewritten::%s::%s" % (q, name), ctx.loc(q, c),
                         "%s applies %s to a datetime: the value is written (or stored) as another instant / another wall-clock time than the one given" % (short(q) if q.count(".") > 2 else q, norm(c)[:50]),
                         "09:21:00+01:00 is written as 09:21:00Z: the reloaded document differs from the original, and two documents differing only by offset reload as equal")
    res.ob("isoformat() sites: %d; time-zone / strftime conversions in the package: none allowed" % n_iso)
    if n_iso < 3:
        raise AnalysisError("fewer than 3 isoformat() sites: the writers no longer print datetimes the way this rule was confirmed on")
    return res


for _p, _r, _d in (("C02", "C02.R11", "times survive the XML round trip with their offset"), ("C01", "C01.R13", "times survive the JSON round trip with their offset"),
                   ("C04", "C04.R10", "a serialisation round trip is content-preserving for aware datetimes; different instants stay different"),
                   ("C05", "C05.R11", "a datetime is stored as given"), ("C06", "C06.R11", "PROV-N prints the datetime as held"), ("C07", "C07.R10", "times are unchanged by the RDF round trip"),
                   ("C10", "C10.R12", "the emitted xsd:dateTime lexical denotes the in-memory instant"), ("C11", "C11.R14", "loaded datetimes re-serialise to the same instant")):
    RULES.setdefault(_p, []).append(Rule(_r, "datetimes are printed with isoformat() of the value itself: no time-zone conversion, tzinfo re-labelling or strftime anywhere in the package", 3, datetime_as_is, "F-WRITE", _d))


# ------------------------------------------------------------------------------------------ C05.R12 / C08.R12: a literal's lexical form is never resolved against the scope
def literal_not_resolved(ctx: Ctx, rule):
    """Which URI a *string* denotes depends on the prefixes declared at that moment.  The normaliser resolves strings only where the
    data model says the value is a name (attribute names, values of the reference-valued PROV attributes).  The literal converter
    (_auto_literal_conversion) may re-home a QualifiedName object (URI-preserving) but never resolves a string or a Literal's lexical
    form: that would make the stored value depend on the order of add_namespace and add_attributes calls."""
    res = RuleResult()
    q = M + ".ProvRecord." + ctx.literal_converter()
    if q not in ctx.p.functions:
        raise AnalysisError("anchor vanished: function %s" % q)
    n = 0
    for q2 in ctx.helper_closure(q, 2):
        fi = ctx.fn(q2)
        if fi.cls != M + ".ProvRecord":
            continue
        g = get_cfg(ctx, q2)
        for c in calls_in(fi.node):
            if call_name(c) != "valid_qualified_name" or not c.args:
                continue
            n += 1
            a = c.args[0]
            ok = False
            if isinstance(a, ast.Name):
                nd = node_of(g, c)
                dom = g.dominators(labels_excluded=("exc",))
                for i in dom.get(nd.id, set()):
                    t = g.nodes[i]
                    if t.kind != "test":
                        continue
                    tt, negated = t.stmt.test, False
                    if isinstance(tt, ast.UnaryOp) and isinstance(tt.op, ast.Not):
                        tt, negated = tt.operand, True
                    if isinstance(tt, ast.Call) and call_name(tt) == "isinstance" and len(tt.args) == 2 and norm(tt.args[0]) == a.id and "QualifiedName" in norm(tt.args[1]) and "str" not in norm(tt.args[1]):
                        # the call is reached only along the edge on which the value *is* a QualifiedName
                        pos = "false" if negated else "true"
                        others = [m for m, lab in t.succ if lab in ("true", "false") and lab != pos]
                        if not any(m is nd or g.exists_path(m, nd, avoid=lambda x, t=t: x is t) for m in others):
                            ok = True
            res.ob("%s: %s resolves a value known to be a QualifiedName object: %s" % (short(q2), norm(c)[:50], ok))
            if not ok:
                res.fail(rule.id, "literal-resolved-against-scope::%s" % norm(a)[:30], ctx.loc(q2, c),
                         "%s resolves %s through the bundle's namespaces although it is not known to be a QualifiedName object: a string's meaning depends on the prefixes declared at that moment" % (short(q2), norm(a)[:40]),
                         "a record given Literal('voc:Report', xsd:QName) before add_namespace('voc', ..): unified() (which re-adds records after the namespaces) turns the literal into the name voc:Report - the unified attributes are not the union of the originals")
    res.ob("name resolutions inside the literal converter: %d" % n, nontrivial=False)
    return res


for _p, _r, _d in (("C05", "C05.R12", "the stored value of a literal does not depend on when namespaces were declared"),
                   ("C08", "C08.R12", "re-adding a record in unified() reproduces its values (the merged attributes are the union of the originals)"),
                   ("C09", "C09.R12", "re-adding a record in flattened/update reproduces its values")):
    RULES.setdefault(_p, []).append(Rule(_r, "the literal converter resolves only QualifiedName objects, never a string or a literal's lexical form", 1, literal_not_resolved, "F-PATH", _d))

RULES.setdefault("C07", []).append(Rule("C07.R11", "lexical forms reach their datatype's parser unmodified (shared with C05.R10): the RDF reader hands typed literals to the same table", 4, lexical_passthrough, "F-PATH",
                                        "xsd:string values keep leading and trailing white space through the RDF round trip"))


# ------------------------------------------------------------------------------------------ literal datatypes are homed like every other name
def literal_datatype_homed(ctx: Ctx, rule):
    """Every qualified name a record holds is printed with a prefix, so its namespace must be declared in the record's container.
    Attribute names and name-valued attributes go through valid_qualified_name (which registers the namespace); a Literal kept as a
    Literal carries one more qualified name - its datatype.  The literal converter must home that one too."""
    res = RuleResult()
    q = M + ".ProvRecord." + ctx.literal_converter()
    if q not in ctx.p.functions:
        raise AnalysisError("anchor vanished: function %s" % q)
    homed = []
    for q2 in ctx.helper_closure(q, 2):
        fi = ctx.fn(q2)
        for c in calls_in(fi.node):
            if call_name(c) == "valid_qualified_name" and c.args:
                a = resolve_local(fi.node, c.args[0])
                if isinstance(a, ast.Attribute) and ctx.canon_field(M + ".Literal", a.attr) == "datatype":
                    homed.append((q2, c))
    returns_literal = any(isinstance(n, ast.Return) and isinstance(n.value, ast.Name) for n in walk_function(ctx.fn(q).node))
    res.ob("the literal converter can hand back a Literal unchanged: %s; it homes the literal's datatype through valid_qualified_name: %s" % (returns_literal, bool(homed)))
    if returns_literal and not homed:
        res.fail(rule.id, "literal-datatype-not-homed", ctx.loc(q, ctx.fn(q).node),
                 "_auto_literal_conversion keeps a Literal whose datatype's namespace was never registered in the record's container",
                 "entity with ex:v = Literal('abc', datatype=foo:T), foo declared nowhere: JSON is written with 'type': 'foo:T' and no prefix foo - the reload drops the datatype; the XML reload raises; PROV-N prints an undeclared prefix")
    return res


for _p, _r, _d in (("C01", "C01.R14", "the JSON text declares every prefix it uses, datatypes of literals included"), ("C02", "C02.R13", "the XML text declares every prefix it uses (xsi:type values included)"),
                   ("C05", "C05.R13", "a stored Literal's datatype is a name of the record's own container"), ("C06", "C06.R13", "every prefix printed in PROV-N is declared"),
                   ("C10", "C10.R14", "an independent reader can resolve the datatype of every literal")):
    RULES.setdefault(_p, []).append(Rule(_r, "the datatype of a Literal that stays a Literal is homed in the container like any other qualified name", 1, literal_datatype_homed, "F-OWN", _d))


# C05.R2 reasons about paths inside the normaliser (guard -> raise / store): show it ProvRecord with the private helpers of
# add_attributes inlined (sa/inline.py); the literal converter stays a call (other rules are anchored on it, and it is recursive)
def _with_inlined_record(fn):
    def run(ctx, rule):
        from ..inline import inlined_view

        return fn(inlined_view(ctx, M + ".ProvRecord", exclude=frozenset({ctx.literal_converter()})), rule)

    run.__name__ = getattr(fn, "__name__", "rule")
    return run


for _r in RULES.get("C05", []):
    if _r.id == "C05.R2":
        _r.fn = _with_inlined_record(_r.fn)


# ------------------------------------------------------------------------------------------ round-6 micro rules on the normaliser and the datatype helpers
def normaliser_micro(ctx: Ctx, rule):
    """(a) The normaliser walks *all* the attributes it is given: its loop has no `break` (the same-value arm `continue`s).
    (b) parse_boolean implements the lexical space of xsd:boolean: {true, 1} and {false, 0}.
    (c) The literal converter *uses* the re-homed datatype: the Literal it rebuilds takes the name valid_qualified_name returned."""
    res = RuleResult()
    norm_q, norm_sites, mm = find_normaliser(ctx)
    from ..inline import inlined_function

    nf = inlined_function(ctx, norm_q, exclude=frozenset({ctx.literal_converter()}))
    loops = [l for l in walk_function(nf.node) if isinstance(l, ast.For) and any(isinstance(x, ast.Attribute) and x.attr == mm for b in l.body for x in ast.walk(b))]
    if not loops:
        raise AnalysisError("the attribute loop of %s was not found" % short(norm_q))
    for l in loops:
        brk = [b for st in l.body for b in ast.walk(st) if isinstance(b, ast.Break)]
        # a break inside a nested loop belongs to that loop
        nested = [x for st in l.body for x in ast.walk(st) if isinstance(x, (ast.For, ast.While))]
        brk = [b for b in brk if not any(b in list(ast.walk(nl)) for nl in nested)]
        res.ob("%s: the attribute loop processes every pair it is given (no break): %s" % (short(norm_q), not brk))
        for b in brk:
            res.fail(rule.id, "normaliser-loop-left-early", ctx.loc(norm_q, b), "%s leaves its attribute loop with `break`: the pairs after that point are silently dropped" % short(norm_q),
                     "add_attributes([(prov:activity, same-as-before), (prov:role, r)]): the role is not stored; unified() of two agreeing generations loses time and role of the second")
    # (b)
    pq = M + ".parse_boolean"
    if pq in ctx.p.functions:
        pf = ctx.fn(pq)
        arms = {}
        for n in walk_function(pf.node):
            if isinstance(n, ast.If) and isinstance(n.test, ast.Compare) and isinstance(n.test.ops[0], ast.In):
                try:
                    v = ctx.eval_in(pq, n.test.comparators[0])
                except AnalysisError:
                    v = None
                ret = next((r.value.value for r in n.body if isinstance(r, ast.Return) and isinstance(r.value, ast.Constant)), "?")
                if isinstance(v, (tuple, list, set, frozenset)):
                    arms[ret] = set(v)
        want = {True: {"true", "1"}, False: {"false", "0"}}
        for k, w in want.items():
            okb = arms.get(k) == w
            res.ob("parse_boolean: lexical forms of %s are %s: %s" % (k, sorted(arms.get(k, [])), okb))
            if not okb:
                res.fail(rule.id, "boolean-lexical-space::%s" % k, ctx.loc(pq, pf.node), "parse_boolean recognises %s as the lexical forms of %s (xsd:boolean: %s)" % (sorted(arms.get(k, [])), k, sorted(w)),
                         "Literal('1', xsd:boolean) stays a Literal instead of being stored as True")
    else:
        raise AnalysisError("anchor vanished: function %s" % pq)
    # (c)
    cq = M + ".ProvRecord." + ctx.literal_converter()
    for q2 in ctx.helper_closure(cq, 2):
        fi = ctx.fn(q2)
        for a in walk_function(fi.node):
            if isinstance(a, ast.Assign) and len(a.targets) == 1 and isinstance(a.targets[0], ast.Name) and isinstance(a.value, ast.Call) and call_name(a.value) == "valid_qualified_name" and a.value.args:
                src = resolve_local(fi.node, a.value.args[0])
                if not (isinstance(src, ast.Attribute) and ctx.canon_field(M + ".Literal", src.attr) == "datatype"):
                    continue
                homed = a.targets[0].id
                ctors = [c for c in calls_in(fi.node) if (ctx.p.resolve_dotted(fi.module, c.func) or (None, None))[1] == M + ".Literal"]
                uses = [c for c in ctors if any(isinstance(x, ast.Name) and x.id == homed for arg in list(c.args) + [k.value for k in c.keywords] for x in ast.walk(arg))]
                res.ob("%s: the Literal rebuilt after homing its datatype takes the homed name `%s`: %s" % (short(q2), homed, bool(uses) or not ctors))
                if ctors and not uses:
                    res.fail(rule.id, "homed-datatype-unused", ctx.loc(q2, ctors[0]), "%s homes the datatype into `%s` but rebuilds the Literal with another name (%s)" % (short(q2), homed, norm(ctors[0])[:60]),
                             "a datatype ex:metre whose prefix ex is bound to another URI in the document: it is registered as ex_1 but written as ex:metre, and reloads with the document's URI for ex")
    return res


for _p, _r, _d in (("C05", "C05.R15", "every supplied attribute is stored; xsd:boolean lexicals are parsed; a kept Literal carries the homed datatype"),
                   ("C08", "C08.R14", "merging processes every attribute of every record"), ("C01", "C01.R16", "a kept Literal's datatype is written under a prefix its container declares for it")):
    RULES.setdefault(_p, []).append(Rule(_r, "the normaliser processes every pair (no break); parse_boolean covers {true,1}/{false,0}; the rebuilt Literal uses the homed datatype", 4, normaliser_micro, "F-PATH", _d))



# ------------------------------------------------------------------------------------------ C11.R22 / C05.R16: a typed time reaches the time arm
def typed_time_rule(ctx: Ctx, rule):
    """The readers hand `add_attributes` what they found: the PROV-XML reader builds `Literal(text, xsd:dateTime)` for
    `<prov:time xsi:type="xsd:dateTime">`, a form the schema allows.  On the time arm of the normaliser the value goes to a string
    parser (dateutil), which raises a built-in TypeError for anything but a string.  Necessary for "a library error or a document":
    before a coercer is called on that arm, a Literal is unwrapped or refused (an `isinstance(value, Literal)` test on the coerced
    name in the normaliser), or the coercer itself turns TypeError into its None answer."""
    from ..inline import inlined_function
    res = RuleResult()
    norm_q, _sites, _mm = find_normaliser(ctx)
    nf = inlined_function(ctx, norm_q, exclude=frozenset({ctx.literal_converter()}))
    coercers = set(datetime_coercers_loose(ctx))
    try:
        tbl = ctx.const(M, "XSD_DATATYPE_PARSERS")
    except AnalysisError:
        tbl = {}
    for k, v in (tbl.items() if isinstance(tbl, dict) else []):
        if isinstance(k, QN) and k.local == "dateTime" and isinstance(v, FuncRef):
            coercers.add(v.qual.rsplit(".", 1)[1])
    calls = [c for c in calls_in(nf.node) if isinstance(c.func, ast.Name) and c.func.id in coercers and c.args]
    if not calls:
        raise AnalysisError("the normaliser calls none of the datetime coercers %s" % sorted(coercers))
    lit_cls = M + ".Literal"
    for c in calls:
        arg = c.args[0]
        an = arg.id if isinstance(arg, ast.Name) else None
        # (i) a Literal test on that name in the normaliser
        tested = False
        for t in walk_function(nf.node):
            if isinstance(t, ast.Call) and call_name(t) == "isinstance" and len(t.args) == 2 and an and isinstance(t.args[0], ast.Name) and t.args[0].id == an:
                types = t.args[1].elts if isinstance(t.args[1], ast.Tuple) else [t.args[1]]
                for ty in types:
                    r = ctx.p.resolve_dotted(nf.module, ty) if dotted(ty) else None
                    if r and r[0] == "class" and r[1] == lit_cls:
                        tested = True
        # (ii) the coercer answers None for a non-string
        cq = M + "." + c.func.id
        cf = ctx.p.functions.get(cq)
        tolerant = False
        if cf is not None:
            for tr in walk_function(cf.node):
                if isinstance(tr, ast.Try):
                    for h in tr.handlers:
                        names = [norm(x) for x in (h.type.elts if isinstance(h.type, ast.Tuple) else [h.type])] if h.type is not None else ["<bare>"]
                        if any(nm in ("<bare>", "Exception", "TypeError", "BaseException") for nm in names):
                            tolerant = True
            if any(isinstance(t, ast.Call) and call_name(t) == "isinstance" and len(t.args) == 2 and "str" in norm(t.args[1]) for t in walk_function(cf.node)) and not any(isinstance(x, ast.Return) and isinstance(x.value, ast.Call) and _is_dateutil_parse(ctx, cf, x.value) and not any(isinstance(t, ast.If) and any(y is x for b in t.body for y in ast.walk(b)) for t in walk_function(cf.node)) for x in walk_function(cf.node)):
                tolerant = True  # parses only under an isinstance(.., str) test
        ok = tested or tolerant
        res.ob("time arm: %s - a Literal is unwrapped / refused before it: %s; the coercer answers a non-string without a built-in error: %s" % (norm(c)[:50], tested, tolerant))
        if not ok:
            res.fail(rule.id, "typed-time-reaches-string-parser::%s" % c.func.id, ctx.loc(norm_q, c),
                     "a Literal given for a time-valued PROV attribute reaches %s, whose string parser raises a built-in TypeError for it" % norm(c)[:50],
                     '<prov:time xsi:type="xsd:dateTime">2012-03-02T10:30:00</prov:time> inside <prov:wasGeneratedBy>: loading raises a built-in TypeError (Parser must be a string or character stream, not Literal), not a library error')
    return res


RULES.setdefault("C11", []).append(Rule("C11.R22", "a typed literal given for a time-valued PROV attribute is unwrapped or refused before the string parser", 1, typed_time_rule, "F-NULL",
                                        "xsi:type on a time element loads as that time, or is refused with a library error - never a built-in TypeError"))
RULES.setdefault("C05", []).append(Rule("C05.R16", "a typed literal given for a time-valued PROV attribute is unwrapped or refused before the string parser (shared with C11.R22)", 1, typed_time_rule, "F-NULL",
                                        "time-valued attributes hold datetimes however the value was supplied"))
