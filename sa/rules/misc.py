"""C14 graph conversion structure; C05.R5/R6 factories, forwarders and aliases (F-FWD)."""
from __future__ import annotations

import ast

from ..ctx import C, GR, M, Ctx, call_name, calls_in, walk_function
from ..fold import ClassRef, QN, is_unknown
from ..loader import AnalysisError, dotted, norm
from ..mutation import all_assignments, resolve_local
from ..report import Rule, RuleResult
from .paths import BUNDLE, get_cfg, node_of, short
from .tables import factory_type, provn_name_table, record_kinds, relation_kinds

RULES = {}


def rule(prop, rid, title, floor, family="F-PATH", decides=""):
    def deco(fn):
        RULES.setdefault(prop, []).append(Rule(rid, title, floor, fn, family, decides))
        return fn

    return deco


def unpack_source(fnode, name):
    """(source expression, index) if `name` is bound by a tuple-unpacking assignment  a, b = <src>  /  a, b = x, y;
    for the nested form  (k1, v1), (k2, v2) = <src>  the index is a tuple (outer, inner)."""
    for n in walk_function(fnode):
        if isinstance(n, ast.Assign) and len(n.targets) == 1 and isinstance(n.targets[0], (ast.Tuple, ast.List)):
            for i, t in enumerate(n.targets[0].elts):
                if isinstance(t, ast.Name) and t.id == name:
                    if isinstance(n.value, (ast.Tuple, ast.List)) and len(n.value.elts) == len(n.targets[0].elts):
                        return n.value.elts[i], None
                    return n.value, i
                if isinstance(t, (ast.Tuple, ast.List)):
                    for j, t2 in enumerate(t.elts):
                        if isinstance(t2, ast.Name) and t2.id == name:
                            return n.value, (i, j)
    return None, None


def formal_position_name(fi, e):
    """Formal position whose attribute *name* the expression denotes: attr_pair_1[0] -> 0 (the name half of pair 1)."""
    if isinstance(e, ast.Subscript) and isinstance(e.slice, ast.Constant) and e.slice.value == 0:
        inner = e.value
        # treat the pair as its value half to reuse the tracer
        fake = ast.copy_location(ast.Subscript(value=inner, slice=ast.Constant(value=1), ctx=ast.Load()), e)
        return formal_position(fi, fake)
    if isinstance(e, ast.Name):
        src, idx = unpack_source(fi.node, e.id)
        if isinstance(src, (ast.Tuple, ast.List)) and idx is not None:
            cur = src
            for i in (idx if isinstance(idx, tuple) else (idx,)):
                if isinstance(cur, (ast.Tuple, ast.List)) and isinstance(i, int) and i < len(cur.elts):
                    cur = cur.elts[i]
                else:
                    return None
            return formal_position_name(fi, cur)
        if isinstance(src, ast.Name) and idx == 0:
            # name, value = <pair local>: the name half of that pair
            return formal_position(fi, src)
        d = [x for x in all_assignments(fi.node, e.id) if x is not None]
        if len(d) == 1:
            return formal_position_name(fi, d[0])
    return None


def formal_position(fi, e, depth=0):
    """Formal-attribute position (0-based) the expression ultimately denotes, following tuple unpackings:
    qn1 <- attr_pair_1[1] <- (relation.formal_attributes[:2])[0]  => 0."""
    if depth > 6:
        return None
    if isinstance(e, ast.Subscript):
        if isinstance(e.value, ast.Attribute) and e.value.attr in ("formal_attributes", "args") and isinstance(e.slice, ast.Constant):
            return e.slice.value
        if isinstance(e.slice, ast.Constant) and e.slice.value == 1:  # the value half of a (name, value) pair
            return formal_position(fi, e.value, depth + 1)
        if isinstance(e.value, ast.Subscript):
            return formal_position(fi, e.value, depth + 1)
        return formal_position(fi, e.value, depth + 1) if isinstance(e.slice, ast.Constant) and e.slice.value == 0 else None
    if isinstance(e, ast.Name):
        src, idx = unpack_source(fi.node, e.id)
        if src is not None:
            if idx is None:
                return formal_position(fi, src, depth + 1)
            if isinstance(src, (ast.Tuple, ast.List)):
                # unpacking of a literal tuple: follow the path into it
                cur = src
                for i in (idx if isinstance(idx, tuple) else (idx,)):
                    if isinstance(cur, (ast.Tuple, ast.List)) and isinstance(i, int) and i < len(cur.elts):
                        cur = cur.elts[i]
                    else:
                        return None
                return formal_position(fi, cur, depth + 1)
            # a, b = X.formal_attributes[:2]  -> position idx ;  (k1, v1), (k2, v2) = X.formal_attributes[:2] -> outer index
            if isinstance(src, ast.Subscript) and isinstance(src.value, ast.Attribute) and src.value.attr in ("formal_attributes", "args"):
                lo = src.slice.lower.value if isinstance(src.slice, ast.Slice) and src.slice.lower is not None and isinstance(src.slice.lower, ast.Constant) else 0
                if isinstance(idx, tuple):
                    return lo + idx[0] if idx[1] == 1 else None
                return lo + idx
            # name, value = <a (name, value) pair held in a local>: the value half stands at the pair's position
            if isinstance(src, ast.Name) and idx == 1:
                return formal_position(fi, src, depth + 1)
            return None
        d = [x for x in all_assignments(fi.node, e.id) if x is not None]
        if len(d) == 1:
            return formal_position(fi, d[0], depth + 1)
    return None


@rule("C14", "C14.R2", "the inferred-node sentinel set at creation is the one graph_to_prov filters on", 2,
      decides="inferred endpoint nodes never leak into the document rebuilt from the graph")
def c14_r2(ctx: Ctx, rule):
    res = RuleResult()
    q = GR + ".prov_to_graph"
    fi = ctx.fn(q)
    ctors = []
    for q2 in ctx.helper_closure(q):
        ctors += [c for c in calls_in(ctx.fn(q2).node) if isinstance(c.func, ast.Subscript) and len(c.args) == 2]
    if not ctors:
        raise AnalysisError("prov_to_graph: inferred-node constructions not found")
    for c in ctors:
        # the class of an inferred node is looked up under the attribute name of the SAME end as the name it is created for
        hold = next((q2 for q2 in ctx.helper_closure(q) if any(x is c for x in ast.walk(ctx.fn(q2).node))), q)
        hf = ctx.fn(hold)
        kpos = formal_position_name(hf, c.func.slice)
        vpos = formal_position(hf, c.args[1])
        if kpos is not None and vpos is not None:
            res.ob("inferred node %s: class looked up under the attribute name of formal position %s, created for the value of position %s" % (norm(c)[:50], kpos, vpos))
            if kpos != vpos:
                res.fail(rule.id, "inferred-kind-from-other-end::%s" % norm(c)[:40], ctx.loc(hold, c), "the node for formal position %d is given the element kind of position %d" % (vpos, kpos),
                         "wasGeneratedBy(e, a0) with a0 undeclared: the inferred node for a0 is an entity")
        ok = isinstance(c.args[0], ast.Constant) and c.args[0].value is None
        res.ob("inferred node %s is created with bundle=None: %s" % (norm(c)[:60], ok))
        if not ok:
            res.fail(rule.id, "inferred-sentinel::creation::%s" % norm(c.args[0]), ctx.loc(q, c), "inferred nodes are created with bundle %s instead of None" % norm(c.args[0]),
                     "graph_to_prov takes inferred endpoint nodes for declared records: the round trip invents elements")
    # the constructors carry the sentinel through unchanged: in every __init__ of the element classes' MRO the bundle parameter is
    # never rebound, is handed on to the next __init__ as it is, and is what ends up in the field the `bundle` property returns
    ELEM = M + ".ProvElement"
    chain = []
    for c in ctx.p.mro(ELEM):
        iq = ctx.p.classes[c].methods.get("__init__") if c in ctx.p.classes else None
        if iq:
            chain.append(iq)
    if not chain:
        raise AnalysisError("no __init__ in the MRO of ProvElement")
    stored = False
    bundle_field = ctx.field_named(M + ".ProvRecord", "bundle", "_bundle")  # the field the public `bundle` property returns
    for iq in chain:
        ifi = ctx.fn(iq)
        bp = ifi.params[1] if len(ifi.params) > 1 else None
        rebound = [n for n in walk_function(ifi.node) if isinstance(n, (ast.Assign, ast.AugAssign, ast.AnnAssign, ast.NamedExpr))
                   and any(isinstance(x, ast.Name) and x.id == bp for t in (n.targets if isinstance(n, ast.Assign) else [n.target]) for x in ast.walk(t))]
        forwards = [c for c in calls_in(ifi.node) if call_name(c) == "__init__" and any(isinstance(a, ast.Name) and a.id == bp for a in list(c.args) + [k.value for k in c.keywords])]
        stores = [n for n in walk_function(ifi.node) if isinstance(n, ast.Assign) and isinstance(n.value, ast.Name) and n.value.id == bp and any(isinstance(t, ast.Attribute) and t.attr == bundle_field for t in n.targets)]
        stored = stored or bool(stores)
        ok = bp is not None and not rebound and (forwards or stores)
        res.ob("%s: the bundle parameter `%s` is never rebound and is %s: %s" % (short(iq), bp, "stored in the field" if stores else "handed to the next __init__", bool(ok)))
        if not ok:
            res.fail(rule.id, "inferred-sentinel::constructor::%s" % iq, ctx.loc(iq, (rebound or [ifi.node])[0]),
                     "%s replaces or drops the bundle it was given (%s): a node created with bundle=None no longer has bundle None" % (short(iq), norm(rebound[0])[:50] if rebound else "not forwarded"),
                     "used(a, ex:undeclared): graph_to_prov(prov_to_graph(d)) contains entity(ex:undeclared), which unified d never had")
    if not stored:
        raise AnalysisError("no __init__ in the MRO of ProvElement stores the bundle parameter")
    gq = GR + ".graph_to_prov"
    gf = ctx.fn(gq)
    tests = []
    for n in walk_function(gf.node):
        if isinstance(n, ast.Compare) and isinstance(n.ops[0], (ast.IsNot, ast.Is)) and isinstance(n.comparators[0], ast.Constant) and n.comparators[0].value is None and isinstance(n.left, ast.Attribute) and n.left.attr in ("bundle", bundle_field):
            if isinstance(n.ops[0], ast.IsNot):
                tests.append(n)
            else:
                # inverted guard: `if ... or node.bundle is None: continue`
                for t in walk_function(gf.node):
                    if isinstance(t, ast.If) and any(x is n for x in ast.walk(t.test)) and any(isinstance(b, (ast.Continue, ast.Return)) for b in t.body):
                        tests.append(n)
    res.ob("graph_to_prov keeps only nodes whose bundle is not None: %s" % bool(tests))
    # the test must be a *necessary* condition of re-adding a node: the guard of add_record implies it (truth table over its atoms)
    from .codecs import _bool_leaves, _bool_eval

    for t in walk_function(gf.node):
        if isinstance(t, ast.If) and any(isinstance(c, ast.Call) and call_name(c) == "add_record" for b in t.body for c in ast.walk(b)):
            leaves = {}
            _bool_leaves(t.test, leaves)
            gname = next((k for k, e in leaves.items() if isinstance(e, ast.Compare) and isinstance(e.ops[0], ast.IsNot) and isinstance(e.left, ast.Attribute) and e.left.attr in ("bundle", "_bundle")), None)
            if gname is None or len(leaves) > 10:
                continue
            names = sorted(leaves)
            bad = None
            for bits in range(1 << len(names)):
                env = {nm: bool(bits >> i & 1) for i, nm in enumerate(names)}
                if _bool_eval(t.test, env) and not env[gname]:
                    bad = env
            res.ob("the guard of add_record (`%s`) implies `%s`: %s" % (norm(t.test)[:50], gname, bad is None))
            if bad is not None:
                res.fail(rule.id, "inferred-sentinel::filter-not-necessary", ctx.loc(gq, t), "nodes are re-added under `%s`, which does not require `%s`" % (norm(t.test)[:60], gname),
                         "inferred endpoint nodes come back as declared, attribute-free elements")
    # `.bundle` of a graph node is Optional (None marks an inferred node; a graph may hold nothing else, or nothing at all):
    # it is never dereferenced without a None test
    gg2 = get_cfg(ctx, gq)
    opt_names = {}
    for a in walk_function(gf.node):
        if isinstance(a, ast.Assign) and len(a.targets) == 1 and isinstance(a.targets[0], ast.Name) and isinstance(a.value, ast.Attribute) and a.value.attr in ("bundle", "_bundle"):
            opt_names[a.targets[0].id] = a
    derefs = []
    for n in walk_function(gf.node):
        if isinstance(n, ast.Attribute) and isinstance(n.ctx, ast.Load):
            v = n.value
            if isinstance(v, ast.Attribute) and v.attr in ("bundle", "_bundle"):
                derefs.append((n, norm(v)))
            elif isinstance(v, ast.Name) and v.id in opt_names:
                derefs.append((n, v.id))
    for n, what in derefs:
        nd = node_of(gg2, n)
        dom = gg2.dominators(labels_excluded=("exc",))
        guarded = any(gg2.nodes[i].kind == "test" and what in norm(gg2.nodes[i].stmt.test) and ("None" in norm(gg2.nodes[i].stmt.test) or norm(gg2.nodes[i].stmt.test) == what) for i in dom.get(nd.id, set()))
        res.ob("graph_to_prov dereferences %s (%s) under a None test: %s" % (what, norm(n)[:40], guarded))
        if not guarded:
            res.fail(rule.id, "inferred-sentinel::dereferenced::%s" % norm(n)[:40], ctx.loc(gq, n), "graph_to_prov uses %s although the bundle of a node is None for inferred nodes" % norm(n)[:50],
                     "a document that only states relations between undeclared endpoints (or the empty document): graph_to_prov(prov_to_graph(d)) raises")
    if not tests:
        res.fail(rule.id, "inferred-sentinel::filter", ctx.loc(gq, gf.node), "graph_to_prov no longer filters nodes on `bundle is not None`", "inferred nodes are added to the rebuilt document")
    return res


@rule("C14", "C14.R3", "edge direction: the edge runs from the node of formal position 0 to the node of formal position 1 and carries the relation", 1,
      decides="every edge points from the first to the second formal argument")
def c14_r3(ctx: Ctx, rule):
    res = RuleResult()
    q = GR + ".prov_to_graph"
    fi = ctx.fn(q)
    edges = [c for c in calls_in(fi.node) if call_name(c) == "add_edge" and len(c.args) >= 2]
    if not edges:
        raise AnalysisError("prov_to_graph: no add_edge call")
    for c in edges:
        pos = []
        for a in c.args[:2]:
            # a local holding the node looked up for one end: source = node_map[qn1]
            if isinstance(a, ast.Name):
                d = [x for x in all_assignments(fi.node, a.id) if x is not None]
                if len(d) == 1 and isinstance(d[0], ast.Subscript) and not isinstance(d[0].slice, (ast.Constant, ast.Slice)):
                    a = d[0]
            key = a.slice if isinstance(a, ast.Subscript) else a
            pos.append(formal_position(fi, key))
        rel = next((norm(k.value) for k in c.keywords if k.arg == "relation"), None)
        for k in c.keywords:  # add_edge(a, b, **{"relation": r})
            if k.arg is None and isinstance(k.value, ast.Dict):
                for dk, dv in zip(k.value.keys, k.value.values):
                    if isinstance(dk, ast.Constant) and dk.value == "relation":
                        rel = norm(dv)
        res.ob("%s: source = formal position %s, target = formal position %s, relation=%s" % (norm(c)[:60], pos[0], pos[1], rel))
        if pos != [0, 1]:
            res.fail(rule.id, "edge-direction", ctx.loc(q, c), "the edge runs from formal position %s to %s" % (pos[0], pos[1]),
                     "every edge is reversed (the round trip through graph_to_prov does not notice: it only reads the relation attached to the edge)")
        if rel is None:
            res.fail(rule.id, "edge-without-relation", ctx.loc(q, c), "the edge no longer carries its relation record", "graph_to_prov loses every relation")
    return res


@rule("C14", "C14.R4", "one edge per relation, guarded only by 'both ends present'; conversion starts from unified() unconditionally; graph_to_prov re-adds without value-based de-duplication", 4,
      decides="parallel identical relations stay parallel; repeated relation identifiers are merged before drawing")
def c14_r4(ctx: Ctx, rule):
    res = RuleResult()
    q = GR + ".prov_to_graph"
    fi = ctx.fn(q)
    par = fi.params[0]
    # every record source is <param>.unified()
    srcs = set()
    for n in walk_function(fi.node):
        if isinstance(n, (ast.For, ast.comprehension)) and isinstance(n.iter, ast.Call) and call_name(n.iter) in ("get_records",) and isinstance(n.iter.func.value, ast.Name):
            srcs.add(n.iter.func.value.id)
    for v in sorted(srcs):
        defs = all_assignments(fi.node, v)
        ok = len(defs) == 1 and isinstance(defs[0], ast.Call) and call_name(defs[0]) == "unified" and norm(defs[0].func.value) == par
        res.ob("records are read from `%s`, defined only as %s.unified(): %s" % (v, par, ok))
        if not ok:
            res.fail(rule.id, "not-from-unified::%s" % v, ctx.loc(q, fi.node), "prov_to_graph reads records from `%s`, which is not always %s.unified() (%s)" % (v, par, [norm(d)[:40] for d in defs if d is not None]),
                     "a repeated relation identifier with no repeated element identifier: one edge per un-merged statement, carrying partial relations")
    if not srcs:
        raise AnalysisError("prov_to_graph: record loops not found")
    g = get_cfg(ctx, q)
    edges = [c for c in calls_in(fi.node) if call_name(c) == "add_edge"]
    for c in edges:
        en = node_of(g, c)
        dom = g.dominators(labels_excluded=("exc",))
        guards = [g.nodes[i] for i in dom.get(en.id, set()) if g.nodes[i].kind == "test"]
        texts = [norm(t.stmt.test) for t in guards]
        res.ob("add_edge is guarded by %s" % texts)
        # the node map is the table add_edge's end points are looked up in; membership tests on *it* create missing nodes, they do not de-duplicate edges
        node_maps = {norm(a.value) for a in c.args[:2] if isinstance(a, ast.Subscript)}
        # networkx: an explicit edge key that already exists between the two nodes *updates* that edge instead of adding one
        keyed = [k for k in c.keywords if k.arg == "key"] or ([c.args[2]] if len(c.args) > 2 else [])
        res.ob("add_edge lets networkx number parallel edges itself (no explicit key): %s" % (not keyed))
        if keyed:
            kv = keyed[0].value if isinstance(keyed[0], ast.keyword) else keyed[0]
            res.fail(rule.id, "edge-explicit-key::%s" % norm(kv)[:40], ctx.loc(q, c), "add_edge is given the key %s: MultiDiGraph.add_edge updates an existing edge with that key between the same nodes" % norm(kv)[:40],
                     "two relations of one kind (or with one identifier) between the same two elements become a single edge: graph_to_prov loses one of them")
        value_dedupe = [t for t in texts if " in " in t and not any(t.endswith(" in " + m) or (" in %s " % m) in t or (" in %s)" % m) in t for m in (node_maps or {"node_map"}))]
        for t in value_dedupe:
            res.fail(rule.id, "edge-dedupe::%s" % t[:40], ctx.loc(q, c), "add_edge is skipped under `%s`" % t, "parallel relations collapse into one edge")
    # graph_to_prov: no seen-set
    gq = GR + ".graph_to_prov"
    gf = ctx.fn(gq)
    adds = [c for c in calls_in(gf.node) if call_name(c) == "add_record"]
    gg = get_cfg(ctx, gq)
    for c in adds:
        n = node_of(gg, c)
        dom = gg.dominators(labels_excluded=("exc",))
        tests = [gg.nodes[i] for i in dom.get(n.id, set()) if gg.nodes[i].kind == "test"]
        bad = []
        for t in tests:
            conj = t.stmt.test.values if isinstance(t.stmt.test, ast.BoolOp) else [t.stmt.test]
            for cj in conj:
                if isinstance(cj, ast.UnaryOp) and isinstance(cj.op, ast.Not):
                    cj = cj.operand
                if isinstance(cj, ast.Compare) and isinstance(cj.ops[0], (ast.In, ast.NotIn)) and not isinstance(cj.comparators[0], ast.Constant) and "edge_data" not in norm(cj):
                    bad.append((t, cj))
        # relations ride on edges: re-adding them must not depend on whether an end node is an inferred placeholder
        arg = resolve_local(gf.node, c.args[0]) if c.args else None
        from_edge = arg is not None and ("relation" in norm(arg) or "edge" in norm(arg).lower())
        if from_edge:
            sentinel = [t for t in tests if any(isinstance(x, ast.Attribute) and x.attr in ("bundle", "_bundle") for x in ast.walk(t.stmt.test))]
            # an early `continue` on the sentinel inside an enclosing node loop counts as well
            for l in walk_function(gf.node):
                if isinstance(l, ast.For) and any(x is c for x in ast.walk(l)):
                    for st0 in l.body:
                        if isinstance(st0, ast.If) and any(isinstance(x, ast.Attribute) and x.attr in ("bundle", "_bundle") for x in ast.walk(st0.test)) and any(isinstance(b, ast.Continue) for b in st0.body) and not any(x is c for x in ast.walk(st0)):
                            sentinel.append(gg.nodes_of(st0)[0])
            res.ob("graph_to_prov: relations are re-added independently of the placeholder-node filter: %s" % (not sentinel))
            for t in sentinel:
                res.fail(rule.id, "relation-behind-node-filter::%s" % norm(t.stmt.test)[:50], ctx.loc(gq, t.stmt),
                         "a relation is only re-added when `%s` lets its node through: edges leaving an inferred (undeclared) node are skipped" % norm(t.stmt.test)[:60],
                         "wasGeneratedBy(ex:e, ex:a) with no entity(ex:e): the edge is in the graph but graph_to_prov loses the relation")
        res.ob("graph_to_prov: %s guarded by %s" % (norm(c), [norm(t.stmt.test)[:70] for t in tests]))
        for t, cj in bad:
            res.fail(rule.id, "graph-dedupe::%s" % norm(cj)[:50], ctx.loc(gq, t.stmt), "graph_to_prov skips a record under the membership test `%s`: records hash and compare by value" % norm(cj)[:60],
                     "two identical relations without identifier between the same nodes: two edges, but only one relation in the rebuilt document")
    return res


# ===================================================================================== C05.R5 / R6
def factories(ctx: Ctx):
    """ProvBundle methods that call self.new_record(<folded type>, ...) directly: name -> (qual, type QN, call)."""
    out = {}
    for name, q in ctx.p.classes[BUNDLE].methods.items():
        if name in ctx.p.classes[BUNDLE].aliases or name in ("new_record", "add_record"):
            continue
        fi = ctx.fn(q)
        for c in calls_in(fi.node):
            if call_name(c) == "new_record" and isinstance(c.func, ast.Attribute) and norm(c.func.value) == "self" and c.args:
                try:
                    t = ctx.eval_in(q, c.args[0])
                except AnalysisError:
                    t = None
                if isinstance(t, QN):
                    out[name] = (q, t, c)
    return out


@rule("C05", "C05.R5", "factories: the attribute dict has exactly the class's formal attributes as keys, each bound to the parameter of that name, parameters in formal order, times coerced", 16, family="F-FWD",
      decides="wasInformedBy(a2, a1) records a2 as informed and a1 as informant - a swap is symmetric in every round trip and invisible to them")
def c05_r5(ctx: Ctx, rule):
    res = RuleResult()
    kinds = record_kinds(ctx)
    lit = ctx.const(C, "PROV_ATTRIBUTE_LITERALS")
    from .paths import datetime_coercers

    coercers = datetime_coercers(ctx)
    for name, (q, t, call) in sorted(factories(ctx).items()):
        fi = ctx.fn(q)
        cls = kinds.get(t)
        if cls is None:
            continue
        formal = ctx.formal_attributes(cls)
        # the dict literal (third argument, possibly through a local)
        darg = call.args[2] if len(call.args) > 2 else next((k.value for k in call.keywords if k.arg == "attributes"), None)
        d = resolve_local(fi.node, darg) if darg is not None else None
        if d is None or (isinstance(d, ast.Constant) and d.value is None):
            res.ob("%s: %s without formal attributes (%d expected)" % (name, t.local, len(formal)))
            if formal:
                res.fail(rule.id, "factory-no-formals::%s" % name, ctx.loc(q, call), "%s passes no formal attributes but %s has %d" % (name, cls.rsplit(".", 1)[1], len(formal)))
            continue
        if not isinstance(d, ast.Dict):
            raise AnalysisError("factory %s builds its attributes with an unrecognised construct (%s)" % (name, norm(d)[:40]))
        keys = []
        for kx, vx in zip(d.keys, d.values):
            k = ctx.eval_in(q, kx)
            keys.append((k, vx))
        got = [k for k, _ in keys]
        ok_keys = set(got) == set(formal) and len(got) == len(formal)
        params = [p for p in fi.params[1:] if p not in ("identifier", "other_attributes")]
        problems = []
        for k, vx in keys:
            if not isinstance(k, QN):
                problems.append("unfoldable key")
                continue
            inner = vx
            coerced = False
            if isinstance(inner, ast.Call) and call_name(inner) in coercers and inner.args:
                inner, coerced = inner.args[0], True
            bound = norm(inner)
            if bound != k.local:
                problems.append("%s <- %s" % (k.local, bound))
            if k in lit and not coerced:
                problems.append("time %s not coerced" % k.local)
        order_ok = params[: len(formal)] == [a.local for a in formal]
        res.ob("%s: keys %s %s formal attributes of %s; bindings by name: %s; parameter order = formal order: %s" % (
            name, [getattr(k, "local", k) for k in got], "==" if ok_keys else "!=", cls.rsplit(".", 1)[1], "ok" if not problems else problems, order_ok))
        if not ok_keys:
            res.fail(rule.id, "factory-keys::%s" % name, ctx.loc(q, d), "%s fills %s, but %s declares %s" % (name, [getattr(k, "local", k) for k in got], cls.rsplit(".", 1)[1], [a.local for a in formal]),
                     "a formal argument is silently dropped or stored as a non-formal attribute")
        for pr in problems:
            res.fail(rule.id, "factory-binding::%s::%s" % (name, pr), ctx.loc(q, d), "%s: %s" % (name, pr if "coerced" in pr else "attribute/parameter mismatch " + pr),
                     "the argument given for one role is recorded under another (identically on every export and reload)" if "coerced" not in pr else "an ISO string time is stored as a str")
        if not order_ok:
            res.fail(rule.id, "factory-order::%s" % name, ctx.loc(q, fi.node), "%s takes (%s) but the formal order of %s is (%s)" % (name, ", ".join(params), cls.rsplit(".", 1)[1], ", ".join(a.local for a in formal)),
                     "positional calls put arguments into the wrong roles")
    return res


@rule("C05", "C05.R6", "forwarders and aliases: convenience methods pass every parameter on, in the callee's order; aliases bind the factory of the relation they are named after", 30, family="F-FWD",
      decides="e.wasGeneratedBy(a, t) keeps t; bundle.wasInformedBy is communication")
def c05_r6(ctx: Ctx, rule):
    res = RuleResult()
    facts = factories(ctx)
    names = provn_name_table(ctx)[0]
    # 1. aliases
    ci = ctx.p.classes[BUNDLE]
    by_type = {}
    for n, (q, t, c) in facts.items():
        by_type.setdefault(t, []).append(n)
    for alias, target in sorted(ci.aliases.items()):
        tq = ci.methods[target]
        t = factory_type(ctx, tq)
        expect = [tt for tt, nm in names.items() if nm == alias]
        special = {"wasRevisionOf": "revision", "wasQuotedFrom": "quotation", "hadPrimarySource": "primary_source"}
        if alias in special:
            ok = target == special[alias]
        else:
            ok = bool(expect) and t == expect[0]
        res.ob("alias %s = %s (builds %s): %s" % (alias, target, getattr(t, "local", t), ok))
        if not ok:
            res.fail(rule.id, "alias::%s" % alias, ctx.loc(BUNDLE, ci.node), "ProvBundle.%s is bound to %s, which builds %s" % (alias, target, getattr(t, "local", t)),
                     "bundle.%s(...) asserts another relation" % alias)
    # 2. element convenience methods + the three derivation subtypes
    targets = []
    for cls in (M + ".ProvEntity", M + ".ProvActivity", M + ".ProvAgent"):
        for name, q in ctx.p.classes[cls].methods.items():
            fi = ctx.fn(q)
            fw = [c for c in calls_in(fi.node) if isinstance(c.func, ast.Attribute) and norm(c.func.value) in ("self._bundle", "self.bundle")]
            if fw:
                targets.append((q, fw[0], True))
    for name in ("revision", "quotation", "primary_source", "collection"):
        q = ci.methods.get(name)
        if q:
            fw = [c for c in calls_in(ctx.fn(q).node) if isinstance(c.func, ast.Attribute) and norm(c.func.value) == "self" and c.func.attr in ci.methods and c.func.attr != name]
            if fw:
                targets.append((q, fw[0], False))
    for q, call, element_method in targets:
        fi = ctx.fn(q)
        callee = ci.methods.get(call.func.attr)
        if not callee:
            raise AnalysisError("%s forwards to unknown ProvBundle.%s" % (short(q), call.func.attr))
        cf = ctx.fn(callee)
        cparams = cf.params[1:]
        amap = {}
        for i, a in enumerate(call.args):
            if i < len(cparams):
                amap[cparams[i]] = norm(a)
        for k in call.keywords:
            if k.arg:
                amap[k.arg] = norm(k.value)
        own = fi.params[1:]
        missing = [p for p in own if p not in amap.values()]
        # each own parameter must land on the callee parameter of the same name ('attributes' -> 'other_attributes'; self -> first)
        wrong = []
        for cp, val in amap.items():
            if val == "self":
                if cp != cparams[0]:
                    wrong.append("self -> %s" % cp)
            elif val in own:
                want = {"attributes": "other_attributes"}.get(val, val)
                if cp != want and not (cp == "identifier" and val == "identifier"):
                    wrong.append("%s -> %s" % (val, cp))
        res.ob("%s -> ProvBundle.%s: forwards %s; missing %s; misrouted %s" % (short(q), call.func.attr, sorted(set(own) & set(amap.values())), missing or "none", wrong or "none"))
        for m in missing:
            res.fail(rule.id, "forwarder-drops::%s::%s" % (q, m), ctx.loc(q, call), "%s accepts `%s` but does not pass it on to %s" % (short(q), m, call.func.attr),
                     "the optional argument given to the convenience method is silently lost")
        for w in wrong:
            res.fail(rule.id, "forwarder-misroutes::%s::%s" % (q, w), ctx.loc(q, call), "%s passes %s" % (short(q), w), "an argument lands in another role")
    return res


@rule("C14", "C14.R11", "the table of inferred element classes is consulted only for an end that has no node yet", 2,
      decides="a relation between two declared elements gets its edge whatever its formal attributes are called")
def c14_r11(ctx: Ctx, rule):
    """prov_to_graph infers a node for an undeclared end from the attribute naming that end; attributes the table does not know
    (prov:influencee / prov:influencer ...) make the lookup fail and the relation is skipped - which is right only when a node has
    to be inferred.  Every lookup in that table therefore sits under `<end> not in <node map>` (enclosing if, or after a guard
    clause that leaves when the end is known)."""
    res = RuleResult()
    q = GR + ".prov_to_graph"
    fi = ctx.fn(q)
    # the table: a module-level dict of prov.graph whose values are element classes
    tables = set()
    env = ctx.f.module_env(GR)
    for name, v in env.items():
        if isinstance(v, dict) and v and all(isinstance(x, ClassRef) for x in v.values()):
            tables.add(name)
    if not tables:
        raise AnalysisError("prov.graph: table of inferred element classes not found")
    parents = {}
    for n in ast.walk(fi.node):
        for ch in ast.iter_child_nodes(n):
            parents[id(ch)] = n
    lookups = [n for n in walk_function(fi.node) if isinstance(n, ast.Subscript) and isinstance(n.ctx, ast.Load) and isinstance(n.value, ast.Name) and n.value.id in tables]
    lookups += [n for n in walk_function(fi.node) if isinstance(n, ast.Call) and call_name(n) == "get" and isinstance(n.func, ast.Attribute) and isinstance(n.func.value, ast.Name) and n.func.value.id in tables]
    if not lookups:
        raise AnalysisError("prov_to_graph: no lookup in %s" % sorted(tables))
    for lk in lookups:
        guarded = False
        cur = lk
        while id(cur) in parents and not guarded:
            p = parents[id(cur)]
            if isinstance(p, ast.If) and any(cur is b or any(x is cur for x in ast.walk(b)) for b in p.body):
                for c in ([p.test] + (list(p.test.values) if isinstance(p.test, ast.BoolOp) and isinstance(p.test.op, ast.And) else [])):
                    if isinstance(c, ast.Compare) and len(c.ops) == 1 and isinstance(c.ops[0], ast.NotIn):
                        guarded = True
            # guard clause earlier in the same block: `if end in node_map: <leave>`
            for fld in ("body", "orelse"):
                blk = getattr(p, fld, None)
                if isinstance(blk, list) and cur in blk:
                    for st in blk[:blk.index(cur)]:
                        if isinstance(st, ast.If) and isinstance(st.test, ast.Compare) and len(st.test.ops) == 1 and isinstance(st.test.ops[0], ast.In) and st.body and isinstance(st.body[-1], (ast.Continue, ast.Return, ast.Break)):
                            guarded = True
            cur = p
        res.ob("lookup %s is made only when the end has no node yet: %s" % (norm(lk)[:50], guarded))
        if not guarded:
            res.fail(rule.id, "kind-lookup-unconditional::%s" % norm(lk)[:40], ctx.loc(q, lk),
                     "prov_to_graph looks %s up for every relation, not only for ends without a node: a KeyError there skips relations whose two ends are declared" % norm(lk)[:50],
                     "wasInfluencedBy(e2, e1) between two declared entities: no edge, and the relation is missing from graph_to_prov(prov_to_graph(d))")
    return res


# the C14 rules reason about the body of prov_to_graph / graph_to_prov: show them prov.graph with its private module-level
# helpers inlined into their callers (sa/inline.py), so an extracted `_add_relation_edge(...)` is seen where it is called
def _with_inlined_graph(fn):
    def run(ctx, rule):
        from ..inline import inlined_module_view

        view = inlined_module_view(ctx, GR)
        res = fn(view, rule)
        info = view._cache.get("inline-info", {})
        if info.get("absorbed"):
            res.exceptions.append("prov.graph helpers analysed inlined in their callers: %s" % info["absorbed"])
        return res

    run.__name__ = getattr(fn, "__name__", "rule")
    return run


for _r in RULES.get("C14", []):
    _r.fn = _with_inlined_graph(_r.fn)
