"""C03 - namespace tables: who writes them, fresh keys, URI provenance, lookup precedence, scope agreement."""
from __future__ import annotations

import ast

from .. import cfg as cfgmod
from ..ctx import C, M, RD, Ctx, call_name, calls_in, walk_function
from ..fold import validate_identifier_model
from ..loader import AnalysisError, dotted, norm
from ..mutation import MUTATORS, all_assignments, field_table, mutation_sites, resolve_local
from ..report import Rule, RuleResult
from .paths import NSM, BUNDLE, get_cfg, node_of, short

RULES = {}


def rule(prop, rid, title, floor, family="F-PATH", decides=""):
    def deco(fn):
        RULES.setdefault(prop, []).append(Rule(rid, title, floor, fn, family, decides))
        return fn

    return deco


def manager_fields(ctx: Ctx):
    ft = field_table(ctx, NSM)
    owned = {f.name for f in ft.values() if f.kind == "OWNED"}
    default = {n for n in ft if "default" in n and ft[n].kind != "REF" and n not in owned}
    if len(owned) < 3 or not default:
        raise AnalysisError("NamespaceManager tables not found (owned=%s default=%s)" % (sorted(owned), sorted(default)))
    return ft, owned, default


def self_dict_writes(ctx: Ctx):
    """Writes to the manager's own dict inside NamespaceManager: self[k] = v, del self[k], self.update(..) ..."""
    out = []
    for mname, q in ctx.p.classes[NSM].methods.items():
        fi = ctx.fn(q)
        for n in walk_function(fi.node):
            if isinstance(n, ast.Assign):
                for t in n.targets:
                    if isinstance(t, ast.Subscript) and norm(t.value) == "self":
                        out.append((q, n, "setitem", t.slice))
            elif isinstance(n, ast.Delete):
                for t in n.targets:
                    if isinstance(t, ast.Subscript) and norm(t.value) == "self":
                        out.append((q, n, "delitem", t.slice))
            elif isinstance(n, ast.Call) and isinstance(n.func, ast.Attribute) and norm(n.func.value) == "self" and n.func.attr in MUTATORS:
                if ctx.p.lookup_method(NSM, n.func.attr) is None:  # a dict method, not a manager method
                    out.append((q, n, "call:" + n.func.attr, n.args[0] if n.args else None))
    return out


@rule("C03", "C03.R1", "who may write the prefix tables: only NamespaceManager's own methods", 10, family="F-WRITE",
      decides="no serializer, exporter or model method re-points or drops a prefix behind the manager's back")
def c03_r1(ctx: Ctx, rule):
    res = RuleResult()
    ft, owned, default = manager_fields(ctx)
    fields = owned | default
    for s in mutation_sites(ctx, fields):
        inside = s.func.startswith(NSM + ".") and s.receiver == "self"
        res.ob("%s: %s" % (short(s.func), s.text))
        if inside:
            continue
        if s.how == "rebind":
            # replacing a whole manager is an aliasing question (C12.R1), not a table write; initialisation in __init__ is fine
            res.exceptions.append("%s: whole-object rebind `%s` is judged by C12.R1" % (short(s.func), s.text[:60]))
            continue
        res.fail(rule.id, "foreign-table-write::%s" % s.key, ctx.loc(s.func, s.node),
                 "%s writes the namespace table %s.%s from outside NamespaceManager: %s" % (short(s.func), s.receiver, s.field, s.text),
                 "a prefix is re-pointed or removed without the clash handling: names already handed out change URI when printed and re-read")
    for q, n, how, key in self_dict_writes(ctx):
        res.ob("%s: %s on the manager's own dict: %s" % (short(q), how, norm(n)[:70]))
    # calls to dict mutators on a manager from outside: X._namespaces.pop(..) is caught above (field _namespaces of ProvBundle
    # has the same name as the manager's registry, deliberately scanned by name).
    return res


def _returns_fresh_key(ctx: Ctx, q, table):
    """Every return of function q yields a name with the must-fact `name not in <table>`."""
    fi = ctx.fn(q)
    rets = [n for n in walk_function(fi.node) if isinstance(n, ast.Return) and n.value is not None]
    if not rets or not all(isinstance(r.value, ast.Name) for r in rets):
        return False
    if any(isinstance(n, ast.Assign) and any(isinstance(t, ast.Subscript) for t in n.targets) for n in walk_function(fi.node)):
        return False
    g = get_cfg(ctx, q)
    facts = notin_facts(ctx, q, g, set(), table)
    return all(("notin", r.value.id) in facts[node_of(g, r).id] for r in rets)


def unused_prefix_summary(ctx: Ctx):
    """Names of NamespaceManager methods each of whose returns yields a key known `not in self` - directly, or by
    delegating to a module function that is handed `self` as the table to test against."""
    good = set()
    for mname, q in ctx.p.classes[NSM].methods.items():
        fi = ctx.fn(q)
        if _returns_fresh_key(ctx, q, "self"):
            good.add(mname)
            continue
        rets = [n for n in walk_function(fi.node) if isinstance(n, ast.Return) and n.value is not None]
        if rets and all(isinstance(r.value, ast.Call) and isinstance(r.value.func, ast.Name) for r in rets):
            ok = True
            for r in rets:
                tgt = ctx.p.resolve_name(fi.module, r.value.func.id)
                if not (tgt and tgt[0] == "func"):
                    ok = False
                    break
                cf = ctx.fn(tgt[1])
                pos = [i for i, a in enumerate(r.value.args) if norm(a) == "self"]
                if len(pos) != 1 or pos[0] >= len(cf.params) or not _returns_fresh_key(ctx, tgt[1], cf.params[pos[0]]):
                    ok = False
                    break
            if ok:
                good.add(mname)
    return good


def notin_facts(ctx: Ctx, q, g, fresh_key_methods, table="self"):
    fi = ctx.fn(q)
    names = {n.id for n in ast.walk(fi.node) if isinstance(n, ast.Name)}
    universe = {("notin", n) for n in names}

    def gen_edge(a, b, lab):
        out = set()
        if a.kind in ("test", "loop") and a.stmt is not None and hasattr(a.stmt, "test"):
            t = a.stmt.test
            tests = [(t, True)]
            if isinstance(t, ast.UnaryOp) and isinstance(t.op, ast.Not):
                tests = [(t.operand, False)]
            for tt, pos in tests:
                if isinstance(tt, ast.Compare) and len(tt.ops) == 1 and isinstance(tt.left, ast.Name) and norm(tt.comparators[0]) == table:
                    is_in = isinstance(tt.ops[0], ast.In)
                    is_notin = isinstance(tt.ops[0], ast.NotIn)
                    truth = (lab == "true") == pos
                    if (is_in and not truth) or (is_notin and truth):
                        out.add(("notin", tt.left.id))
        return out

    def kill_node(n, facts):
        s = n.stmt
        if s is None or n.kind in ("test", "loop", "try", "handler"):
            return facts
        if isinstance(s, ast.Assign):
            # writes to the dict itself invalidate every fact
            for t in s.targets:
                if isinstance(t, ast.Subscript) and norm(t.value) == "self":
                    return set()
            for t in s.targets:
                bound = [t] if isinstance(t, ast.Name) else (list(t.elts) if isinstance(t, (ast.Tuple, ast.List)) else [])
                for x in bound:
                    if isinstance(x, ast.Name):
                        facts.discard(("notin", x.id))
            if len(s.targets) == 1 and isinstance(s.targets[0], ast.Name):
                tgt = s.targets[0].id
                v = s.value
                if isinstance(v, ast.Name) and ("notin", v.id) in facts:
                    facts.add(("notin", tgt))
                elif isinstance(v, ast.Call) and isinstance(v.func, ast.Attribute) and norm(v.func.value) == "self" and v.func.attr in fresh_key_methods:
                    facts.add(("notin", tgt))
                    return facts
        elif isinstance(s, (ast.AugAssign, ast.AnnAssign)):
            for x in ast.walk(s.target):
                if isinstance(x, ast.Name):
                    facts.discard(("notin", x.id))
        # calls that may register something kill everything
        for c in ast.walk(s):
            if isinstance(c, ast.Call) and isinstance(c.func, ast.Attribute) and norm(c.func.value) == "self":
                m = c.func.attr
                if m in fresh_key_methods or m in ("get", "values", "keys", "items", "get_namespace", "get_registered_namespaces", "get_default_namespace"):
                    continue
                return set()
        return facts

    return g.must_forward(gen_edge, kill_node, universe, labels_excluded=())


@rule("C03", "C03.R2", "a registered prefix is never overwritten: every binding store has the must-fact `key not in self`", 2,
      decides="a clashing prefix yields a fresh prefix instead of re-pointing the old one")
def c03_r2(ctx: Ctx, rule):
    res = RuleResult()
    ft, owned, default = manager_fields(ctx)
    fresh = unused_prefix_summary(ctx)
    res.exceptions.append("fresh-key helpers (every return carries `x not in self`): %s" % sorted(fresh))
    reg = [f for f in owned if ft[f].container == "dict" and f == "_namespaces"] or []
    stores = []
    for q, n, how, key in self_dict_writes(ctx):
        stores.append((q, n, how, key, "self"))
    for s in mutation_sites(ctx, set(reg)):
        if s.func.startswith(NSM + ".") and s.receiver == "self" and s.how == "setitem":
            stores.append((s.func, s.node, "setitem", s.node.targets[0].slice, "self." + s.field))
    for q, n, how, key, what in stores:
        fi = ctx.fn(q)
        if how == "call:update" and fi.name == "__init__":
            res.ob("%s: %s (initialisation of an empty manager)" % (short(q), norm(n)), nontrivial=False)
            res.exceptions.append("__init__: self.update(defaults) runs on the freshly created, empty dict")
            continue
        if how != "setitem":
            res.ob("%s: %s" % (short(q), norm(n)))
            res.fail(rule.id, "table-mutation::%s::%s" % (q, norm(n)), ctx.loc(q, n), "%s changes the prefix table with %s" % (short(q), how),
                     "bindings are dropped or replaced wholesale")
            continue
        folded_key = None
        if key is not None and not isinstance(key, ast.Constant):
            try:
                folded_key = ctx.eval_in(q, key)
            except AnalysisError:
                folded_key = None
        if isinstance(key, ast.Constant) or isinstance(folded_key, str):
            res.ob("%s: constant-key store %s (default-namespace slot)" % (short(q), norm(n)), nontrivial=False)
            res.exceptions.append("%s: `%s` binds the reserved default slot; re-binding a default is excluded by the property's usage discipline" % (short(q), norm(n)))
            continue
        g = get_cfg(ctx, q)
        facts = notin_facts(ctx, q, g, fresh)
        nd = node_of(g, n)
        ok = isinstance(key, ast.Name) and ("notin", key.id) in facts[nd.id]
        res.ob("%s: %s  [must-fact %s not in self: %s]" % (short(q), norm(n), norm(key), ok))
        if not ok:
            res.fail(rule.id, "overwrite::%s::%s" % (q, norm(n.targets[0])), ctx.loc(q, n),
                     "%s can execute `%s` while %s is already bound" % (short(q), norm(n), norm(key)),
                     "add_namespace('ex', U2) after 'ex'->U1: every name handed out as ex:... now prints under a prefix bound to U2")
    return res


def uri_token(ctx: Ctx, fi, e, arg_ns_names, depth=0, visiting=frozenset(), argname=None):
    """'U0' if expression `e` denotes a namespace (or uri string) provably carrying the argument namespace's URI; else a reason string."""
    if depth > 8:
        return "?depth"
    if isinstance(e, ast.Name):
        if e.id in arg_ns_names:
            return "U0"
        if e.id in visiting:
            return "U0"  # x = f(x): grounded by the other definitions of x, all of which are checked
        defs = all_assignments(fi.node, e.id)
        if not defs or any(d is None for d in defs):
            return "?%s has no analysable definition" % e.id
        toks = {uri_token(ctx, fi, d, arg_ns_names, depth + 1, visiting | {e.id}, argname) for d in defs}
        return "U0" if toks == {"U0"} else sorted(toks - {"U0"})[0]
    if isinstance(e, ast.Attribute):
        if e.attr in ("uri", "_uri"):
            return uri_token(ctx, fi, e.value, arg_ns_names, depth + 1, visiting, argname)
        if e.attr in ("namespace", "_namespace") and isinstance(e.value, ast.Name) and e.value.id == (argname or fi.params[1]):
            return "U0"
        if norm(e.value) == "self":
            return guarded_equal(fi, e, arg_ns_names)
        return "?%s" % norm(e)
    if isinstance(e, ast.Call):
        r = ctx.p.resolve_dotted(fi.module, e.func)
        if r and r[0] == "class" and r[1] == "prov.identifier.Namespace" and len(e.args) == 2:
            return uri_token(ctx, fi, e.args[1], arg_ns_names, depth + 1, visiting, argname)
        if isinstance(e.func, ast.Attribute) and norm(e.func.value) == "self" and e.func.attr == "add_namespace" and e.args:
            return uri_token(ctx, fi, e.args[0], arg_ns_names, depth + 1, visiting, argname)  # by add_namespace's summary (checked below)
        return "?call %s" % norm(e.func)
    if isinstance(e, ast.Subscript):
        base = norm(e.value)
        if base.startswith("self.") and base[5:] in uri_keyed_fields(ctx):
            # invariant F[k].uri == uri(k), established by checking every store into F (uri_keyed_fields)
            return uri_token(ctx, fi, e.slice, arg_ns_names, depth + 1, visiting, argname)
        if base == "self":
            return guarded_equal(fi, e, arg_ns_names)
        return "?%s" % norm(e)
    return "?%s" % norm(e)


def uri_keyed_fields(ctx: Ctx):
    """Owned dict fields F of NamespaceManager with the invariant `F[k] is a namespace whose URI is the URI denoted by k`
    (k a URI string or a namespace).  Greatest fixed point: assume all, drop a field when one of its stores (all of which
    are in add_namespace, by C03.R1) does not show key and value carrying the same argument URI."""
    if "uri_keyed_fields" in ctx._cache:
        return ctx._cache["uri_keyed_fields"]
    ft, owned, default = manager_fields(ctx)
    cand = {f for f in owned if ft[f].container in ("dict",)}
    ctx._cache["uri_keyed_fields"] = set(cand)
    aq = NSM + ".add_namespace"
    af = ctx.fn(aq)
    ap = {af.params[1]}
    changed = True
    while changed:
        changed = False
        for s in mutation_sites(ctx, set(cand)):
            if s.how != "setitem" or not isinstance(s.node, ast.Assign) or s.field not in ctx._cache["uri_keyed_fields"]:
                continue
            if s.func != aq:
                ctx._cache["uri_keyed_fields"].discard(s.field)
                changed = True
                continue
            kt = uri_token(ctx, af, s.node.targets[0].slice, ap)
            vt = uri_token(ctx, af, s.node.value, ap)
            if kt != "U0" or vt != "U0":
                ctx._cache["uri_keyed_fields"].discard(s.field)
                changed = True
    return ctx._cache["uri_keyed_fields"]


def guarded_equal(fi, e, arg_ns_names):
    """`self._default` / `self[prefix]` carry the argument's URI only inside a branch tested `<e> == <arg namespace>`."""
    target = norm(e)
    for n in walk_function(fi.node):
        if isinstance(n, ast.If) and any(x is e for b in n.body for x in ast.walk(b)):
            conj = n.test.values if isinstance(n.test, ast.BoolOp) and isinstance(n.test.op, ast.And) else [n.test]
            for c in conj:
                if isinstance(c, ast.Compare) and len(c.ops) == 1 and isinstance(c.ops[0], ast.Eq):
                    l, r = norm(c.left), norm(c.comparators[0])
                    if (l == target and r in arg_ns_names) or (r == target and l in arg_ns_names):
                        return "U0"
    return "?%s used without an equality test against the argument's namespace" % target


@rule("C03", "C03.R3", "re-homing preserves the URI: every QualifiedName returned for a QualifiedName argument is N[local] with uri(N) = uri(argument.namespace)", 5,
      decides="clause (a): resolving a QualifiedName never changes its URI", family="F-OWN")
def c03_r3(ctx: Ctx, rule):
    res = RuleResult()
    q = NSM + ".valid_qualified_name"
    fi = ctx.fn(q)
    arg = fi.params[1]
    branch = None
    for s in fi.node.body:
        if isinstance(s, ast.If) and isinstance(s.test, ast.Call) and call_name(s.test) == "isinstance" and norm(s.test.args[0]) == arg and "QualifiedName" in norm(s.test.args[1]):
            branch = s
    if branch is None:
        raise AnalysisError("QualifiedName branch of valid_qualified_name not found")
    ns_names = set()
    local_names_ok = set()
    for n in ast.walk(branch):
        if isinstance(n, ast.Assign) and len(n.targets) == 1 and isinstance(n.targets[0], ast.Name):
            v = norm(n.value)
            if v in ("%s.namespace" % arg, "%s._namespace" % arg):
                ns_names.add(n.targets[0].id)
            if v in ("%s.localpart" % arg, "%s._localpart" % arg):
                local_names_ok.add(n.targets[0].id)
    if not ns_names:
        raise AnalysisError("valid_qualified_name: the argument's namespace is never bound to a local")

    def check_value(e, where, f=fi, ns=ns_names, loc_ok=local_names_ok, argn=arg, depth=0):
        e0 = e
        if isinstance(e, ast.Name) and e.id == argn:
            res.ob("returns the argument itself (%s)" % where, nontrivial=False)
            return
        if isinstance(e, ast.Name):
            defs = [d for d in all_assignments(f.node, e.id)]
            for d in defs:
                if d is None:
                    res.fail(rule.id, "rehoming::unanalysable::%s" % e.id, ctx.loc(f.qual, e0), "cannot follow the definition of %s" % e.id)
                else:
                    check_value(d, "%s = %s" % (e.id, norm(d)), f, ns, loc_ok, argn, depth)
            return
        if isinstance(e, ast.Subscript):
            lok = norm(e.slice) in loc_ok or norm(e.slice) in ("%s.localpart" % argn, "%s._localpart" % argn)
            tok = uri_token(ctx, f, e.value, ns, argname=argn)
            res.ob("%s: local part from the argument=%s, namespace carries the argument's URI=%s" % (where, lok, tok))
            if not lok or tok != "U0":
                res.fail(rule.id, "rehoming::%s" % norm(e), ctx.loc(f.qual, e),
                         "valid_qualified_name(QualifiedName) can return %s: %s" % (norm(e), "local part is not the argument's" if not lok else tok[1:]),
                         "a QualifiedName from another container resolves to a different URI (two distinct entities collapse, or a record changes identity on update/flatten)")
            return
        if isinstance(e, ast.Constant) and e.value is None:
            return
        if isinstance(e, ast.Call) and isinstance(e.func, ast.Attribute) and norm(e.func.value) == "self" and depth < 2:
            cq = ctx.p.lookup_method(NSM, e.func.attr)
            if cq and cq != q:
                cf = ctx.fn(cq)
                ps = cf.params[1:]
                amap = {ps[i]: a for i, a in enumerate(e.args) if i < len(ps)}
                amap.update({k.arg: k.value for k in e.keywords if k.arg})
                ns2 = {p for p, a in amap.items() if isinstance(a, ast.Name) and a.id in ns}
                loc2 = {p for p, a in amap.items() if norm(a) in loc_ok or norm(a) in ("%s.localpart" % argn, "%s._localpart" % argn)}
                arg2 = next((p for p, a in amap.items() if isinstance(a, ast.Name) and a.id == argn), "<none>")
                # locals of the helper derived from its own parameters
                for n2 in walk_function(cf.node):
                    if isinstance(n2, ast.Assign) and len(n2.targets) == 1 and isinstance(n2.targets[0], ast.Name):
                        v2 = norm(n2.value)
                        if v2 in ("%s.namespace" % arg2, "%s._namespace" % arg2):
                            ns2.add(n2.targets[0].id)
                        if v2 in ("%s.localpart" % arg2, "%s._localpart" % arg2):
                            loc2.add(n2.targets[0].id)
                for n2 in walk_function(cf.node):
                    if isinstance(n2, ast.Return) and n2.value is not None:
                        check_value(n2.value, "%s: return %s" % (cf.name, norm(n2.value)), cf, ns2, loc2, arg2, depth + 1)
                return
        res.ob("%s: unrecognised shape" % where)
        res.fail(rule.id, "rehoming::shape::%s" % norm(e), ctx.loc(f.qual, e), "returned value %s is not N[local]" % norm(e))

    for n in ast.walk(branch):
        if isinstance(n, ast.Return) and n.value is not None:
            check_value(n.value, "return %s" % norm(n.value))
    # add_namespace summary + map invariants
    aq = NSM + ".add_namespace"
    af = ctx.fn(aq)
    ap = {af.params[1]}
    for n in walk_function(af.node):
        if isinstance(n, ast.Return) and n.value is not None:
            tok = uri_token(ctx, af, n.value, ap)
            res.ob("add_namespace returns %s: carries the argument's URI: %s" % (norm(n.value), tok))
            if tok != "U0":
                res.fail(rule.id, "add_namespace-summary::%s" % norm(n.value), ctx.loc(aq, n), "add_namespace can return %s, whose URI is not shown to be the argument's (%s)" % (norm(n.value), tok[1:]),
                         "add_namespace(prefix, U) hands back a namespace for another URI; every name minted from it is wrong")
        tbl = norm(n.targets[0].value) if isinstance(n, ast.Assign) and isinstance(n.targets[0], ast.Subscript) else ""
        if tbl == "self" or (tbl.startswith("self.") and tbl[5:] in manager_fields(ctx)[1]):
            kt = uri_token(ctx, af, n.targets[0].slice, ap) if tbl[5:] in uri_keyed_fields(ctx) else "U0"
            vt = uri_token(ctx, af, n.value, ap)
            res.ob("add_namespace store %s: key/value carry the argument's URI: %s/%s" % (norm(n), kt, vt))
            if kt != "U0" or vt != "U0":
                res.fail(rule.id, "map-invariant::%s" % norm(n.targets[0]), ctx.loc(aq, n), "store %s breaks the invariant that the table maps a URI/namespace to a namespace of the same URI" % norm(n),
                         "later resolutions through that table return a namespace with another URI")
    return res


@rule("C03", "C03.R4", "the clash check looks where resolution looks: scopes consulted by the resolver are consulted by the registrar", 1, family="F-SIB",
      decides="a prefix that resolves through the parent scope cannot be re-bound locally to another URI unnoticed")
def c03_r4(ctx: Ctx, rule):
    res = RuleResult()
    vq = ctx.fn(NSM + ".valid_qualified_name")
    delegates = [c for c in calls_in(vq.node) if isinstance(c.func, ast.Attribute) and "parent" in norm(c.func.value)]
    aq = ctx.fn(NSM + ".add_namespace")
    reads_parent = [n for n in walk_function(aq.node) if isinstance(n, ast.Attribute) and n.attr == "parent"]
    res.ob("resolver delegates to the parent scope: %s; add_namespace consults the parent scope: %s" % (bool(delegates), bool(reads_parent)))
    if delegates and not reads_parent:
        res.fail(rule.id, "scope-agreement::add_namespace-ignores-parent", ctx.loc(aq.qual, aq.node),
                 "valid_qualified_name resolves 'prefix:local' through self.parent, but add_namespace binds a prefix without looking at the parent's bindings",
                 "document binds ex->A; a bundle uses 'ex:e1' (resolved through the parent), then binds ex->B: the bundle prints ex:e1 under its own ex->B declaration, and it reloads as B+e1")
    return res


@rule("C03", "C03.R5", "identity is the URI: QualifiedName hashes and Identifier compares on the URI only; the folder's model of names matches identifier.py", 10,
      decides="lookups and equality never depend on prefix spelling", family="F-BOOL")
def c03_r5(ctx: Ctx, rule):
    res = RuleResult()
    for ob, ok, detail in validate_identifier_model(ctx.p, ctx.f):
        res.ob("model conformance: %s: %s %s" % (ob, ok, detail))
        if not ok:
            res.fail(rule.id, "model::%s" % ob, "src/prov/identifier.py:0", "identifier.py no longer computes %s (%s)" % (ob, detail),
                     "the URI or the printed form of every qualified name changes")
    for q, what in (("prov.identifier.QualifiedName.__hash__", "hash"), ("prov.identifier.Identifier.__eq__", "eq"), ("prov.identifier.Identifier.__hash__", "hash")):
        fi = ctx.fn(q)
        attrs = {n.attr for n in walk_function(fi.node) if isinstance(n, ast.Attribute) and isinstance(n.value, ast.Name) and n.value.id in fi.params}
        proj = {a.lstrip("_") for a in attrs} - {"class__"}
        proj = {a for a in proj if a not in ("__class__",)}
        allowed = {"uri"} if what == "eq" or q.endswith("QualifiedName.__hash__") else {"uri", "_class__", "class__"}
        bad = {a for a in attrs if a.lstrip("_") not in ("uri",) and a != "__class__"}
        res.ob("%s projects on %s" % (short(q) if q.count(".") > 2 else q, sorted(attrs)))
        if bad or not any(a.lstrip("_") == "uri" for a in attrs):
            res.fail(rule.id, "identity::%s" % q, ctx.loc(q, fi.node), "%s depends on %s instead of the URI alone" % (q, sorted(attrs)),
                     "the same URI under two prefixes is treated as two identifiers (index misses, unequal documents after prefix renaming)")
    return res


@rule("C03", "C03.R6", "no lossy prefix strip: a namespace URI is cut off the front of a URI, never removed by str.replace", 0, family="F-TAINT",
      decides="compacting 'U + rest' yields 'rest' even when 'rest' contains U again")
def c03_r6(ctx: Ctx, rule):
    res = RuleResult()
    for q, fi in ctx.p.functions.items():
        if fi.module.startswith("scripts."):
            continue
        for c in calls_in(fi.node):
            if call_name(c) == "replace" and len(c.args) == 2 and isinstance(c.args[1], ast.Constant) and c.args[1].value == "":
                a0 = c.args[0]
                if isinstance(a0, ast.Attribute) and a0.attr in ("uri", "_uri"):
                    res.ob("%s: %s" % (short(q), norm(c)))
                    res.fail(rule.id, "lossy-strip::%s::%s" % (q, norm(c)), ctx.loc(q, c),
                             "%s removes every occurrence of %s, where a prefix strip was meant" % (norm(c), norm(a0)),
                             "'http://a/x?u=http://a/y' under namespace http://a/ compacts to a:x?u=y - another URI")
    # sites that do it right are the instances on a clean tree
    for q in (NSM + ".valid_qualified_name", RD + ".ProvRDFSerializer.decode_rdf_representation", "prov.identifier.Namespace.qname"):
        fi = ctx.fn(q)
        for n in walk_function(fi.node):
            if isinstance(n, ast.Subscript) and isinstance(n.slice, ast.Slice) and n.slice.lower is not None and isinstance(n.slice.lower, ast.Call) and call_name(n.slice.lower) == "len":
                res.ob("%s: front cut %s" % (short(q) if q.count(".") > 2 else q, norm(n)), nontrivial=True)
    return res


@rule("C03", "C03.R7", "string resolution: a prefix registered in this scope wins over the renamed-prefix memo", 1,
      decides="clause (c): 'p:local' printed from a registered prefix resolves to the registered URI even after a later clash on p")
def c03_r7(ctx: Ctx, rule):
    res = RuleResult()
    ft, owned, default = manager_fields(ctx)
    # the memo: the owned dict the registrar fills under the *clashing* prefix but which is not the registry itself
    memo_fields = set()
    aq = ctx.fn(NSM + ".add_namespace")
    for n in walk_function(aq.node):
        if isinstance(n, ast.Assign) and isinstance(n.targets[0], ast.Subscript) and isinstance(n.targets[0].value, ast.Attribute) and norm(n.targets[0].value.value) == "self":
            fld = n.targets[0].value.attr
            key = n.targets[0].slice
            if fld in owned and fld not in uri_keyed_fields(ctx) and isinstance(key, ast.Name):
                # is the same key ever used to bind the registry (self[key])?  the registry is excluded
                memo_fields.add(fld)
    reg_fields = {s.field for s in mutation_sites(ctx, set(owned)) if s.func == NSM + ".add_namespace" and s.how == "setitem" and any(
        isinstance(x, ast.Assign) and isinstance(x.targets[0], ast.Subscript) and norm(x.targets[0].value) == "self" and norm(x.targets[0].slice) == norm(s.node.targets[0].slice) and norm(x.value) == norm(s.node.value)
        for x in walk_function(aq.node))}
    memo_fields -= reg_fields
    uses_all = []
    for q in ctx.helper_closure(NSM + ".valid_qualified_name"):
        if q.rsplit(".", 1)[1] in ("add_namespace", "add_namespaces", "set_default_namespace"):
            continue  # the registrar fills the memo; only the resolver's *reads* are governed
        fi = ctx.fn(q)
        stores = {id(t.value) for n in walk_function(fi.node) if isinstance(n, ast.Assign) for t in n.targets if isinstance(t, ast.Subscript)}
        for n in walk_function(fi.node):
            if isinstance(n, ast.Attribute) and n.attr in memo_fields and norm(n.value) == "self" and id(n) not in stores:
                uses_all.append((q, n))
    if not uses_all:
        res.ob("the resolver does not consult a renamed-prefix memo", nontrivial=False)
        return res
    seen = set()
    for q, u in uses_all:
        fi = ctx.fn(q)
        g = get_cfg(ctx, q)
        facts = notin_facts(ctx, q, g, set())
        nd = node_of(g, u)
        if nd.id in seen:
            continue
        seen.add(nd.id)
        if nd.kind == "test":
            # the membership test itself must already be under `prefix not in self`
            pass
        keyvars = set()
        for x in ast.walk(nd.stmt if nd.kind != "test" else nd.stmt.test):
            if isinstance(x, ast.Subscript) and x.value is u and isinstance(x.slice, ast.Name):
                keyvars.add(x.slice.id)
            if isinstance(x, ast.Compare) and any(c is u for c in x.comparators) and isinstance(x.left, ast.Name):
                keyvars.add(x.left.id)
            if isinstance(x, ast.Call) and isinstance(x.func, ast.Attribute) and x.func.value is u and x.args and isinstance(x.args[0], ast.Name):
                keyvars.add(x.args[0].id)
        ok = bool(keyvars) and all(("notin", k) in facts[nd.id] for k in keyvars)
        res.ob("memo use `%s` is reached only with %s not in self: %s" % (norm(nd.stmt if nd.kind != "test" else nd.stmt.test)[:70], sorted(keyvars), ok))
        if not ok:
            res.fail(rule.id, "memo-before-registry::%s" % norm(nd.stmt if nd.kind != "test" else nd.stmt.test)[:80], ctx.loc(q, u),
                     "the renamed-prefix memo is consulted for a prefix that may be registered in this scope",
                     "ex->U1 registered, a clashing ex->U2 is renamed ex_1 (memo ex->ex_1): the string 'ex:e1' now resolves to U2+e1, so names handed out earlier as ex:e1 change URI when printed and re-read")
    return res


@rule("C03", "C03.R8", "URI compaction considers every namespace bound in the scope: the loop walks the manager's own table (default namespace included)", 1,
      decides="a full URI in the default namespace, or under a renamed prefix, still resolves to the name the scope handed out")
def c03_r8(ctx: Ctx, rule):
    res = RuleResult()
    q0 = NSM + ".valid_qualified_name"
    loops = []
    for q in ctx.helper_closure(q0):
        fi = ctx.fn(q)
        for n in walk_function(fi.node):
            if isinstance(n, ast.For) and any(isinstance(c, ast.Call) and call_name(c) == "startswith" for c in ast.walk(n)):
                loops.append((q, n))
    if not loops:
        raise AnalysisError("valid_qualified_name: URI compaction loop not found")
    for q, l in loops:
        it = norm(l.iter)
        ok = it in ("self.values()", "self.items()", "list(self.values())", "self")
        res.ob("compaction loop iterates %s: the whole prefix table: %s" % (it, ok))
        if not ok:
            res.fail(rule.id, "compaction-partial-table::%s" % it[:50], ctx.loc(q, l), "full URIs are compacted against %s only, not against every namespace bound in the manager (the default namespace lives under the key '')" % it[:60],
                     "a container with a default namespace: get_record('<full URI of a record in it>') returns [] while records holds the record")
    return res


RULES.setdefault("C18", []).append(Rule("C18.R7", "URI compaction walks the whole prefix table (shared with C03.R8)", 1, c03_r8, "F-PATH",
                                        "lookup by full URI reaches the same index key as lookup by qualified name"))
RULES.setdefault("C09", []).append(Rule("C09.R6", "re-homing preserves the URI (shared with C03.R3)", 5, c03_r3, "F-OWN",
                                        "records re-created in the target of flattened/update/add_bundle keep their URIs"))

RULES.setdefault("C01", []).append(Rule("C01.R6", "re-homing preserves the URI (shared with C03.R3): names printed in a container resolve through its own declarations", 5, c03_r3, "F-OWN",
                                        "a QualifiedName argument used inside a bundle keeps its URI through the JSON text"))


@rule("C03", "C03.R9", "name resolution is not memoised across registrations: the resolver writes no table of its own", 1, family="F-WRITE",
      decides="a 'prefix:local' string resolved before a registration is resolved afresh after it")
def c03_r9(ctx: Ctx, rule):
    res = RuleResult()
    ft, owned, default = manager_fields(ctx)
    q = NSM + ".valid_qualified_name"
    registrars = {NSM + ".add_namespace", NSM + ".set_default_namespace"}
    all_fields = set(ft) | {f for f in owned}
    # fields of the manager written by the resolver itself (directly)
    sites = [s for s in mutation_sites(ctx, {n for n in field_names_of(ctx)}) if s.func == q and s.receiver == "self"]
    n = 0
    for s in sites:
        n += 1
        if s.field in default and s.how == "rebind":
            res.ob("resolver adopts a default namespace: %s" % s.text[:60], nontrivial=False)
            res.exceptions.append("valid_qualified_name adopts the argument's default namespace when the scope has none (`%s`): a registration, not a cache" % s.text[:50])
            continue
        # is the field reset by every registrar?
        resets = {r for r in registrars if any(x.field == s.field and (x.how in ("rebind", "call:clear") or x.how == "delitem") for x in mutation_sites(ctx, {s.field}) if x.func == r)}
        ok = resets == registrars
        res.ob("resolver writes self.%s (%s); reset by every registration method: %s" % (s.field, s.text[:50], ok))
        if not ok:
            res.fail(rule.id, "resolution-cache::%s" % s.field, ctx.loc(q, s.node),
                     "valid_qualified_name stores its results in self.%s (`%s`), which add_namespace / set_default_namespace do not invalidate" % (s.field, s.text[:50]),
                     "ex->A; foo->A (alias of ex); resolve 'foo:report' (cached A+report); add_namespace(foo, B): names handed out for B print as foo:report but the string resolves to A+report")
    if n == 0:
        res.ob("the resolver writes no field of its own", nontrivial=False)
    return res


def field_names_of(ctx: Ctx):
    """Every attribute name assigned on self anywhere in NamespaceManager (fields created outside __init__ included)."""
    names = set()
    for mname, mq in ctx.p.classes[NSM].methods.items():
        for n in walk_function(ctx.fn(mq).node):
            if isinstance(n, ast.Attribute) and isinstance(n.value, ast.Name) and n.value.id == "self" and isinstance(n.ctx, ast.Store):
                names.add(n.attr)
            if isinstance(n, ast.Subscript) and isinstance(n.ctx, ast.Store) and isinstance(n.value, ast.Attribute) and isinstance(n.value.value, ast.Name) and n.value.value.id == "self":
                names.add(n.value.attr)
    return names

RULES.setdefault("C18", []).append(Rule("C18.R8", "a 'prefix:local' lookup string resolves through the registered prefix before the renamed-prefix memo (shared with C03.R7)", 1, c03_r7, "F-PATH",
                                        "get_record('p:x') denotes the URI the container's own declaration of p gives"))
