"""C03 - namespace tables: who writes them, fresh keys, URI provenance, lookup precedence, scope agreement."""
from __future__ import annotations

import ast

from .. import cfg as cfgmod
from ..ctx import C, M, RD, Ctx, call_name, calls_in, walk_function
from ..fold import validate_identifier_model
from ..loader import AnalysisError, dotted, norm
from ..mutation import MUTATORS, all_assignments, field_table, mutation_sites, resolve_local
from ..report import Rule, RuleResult
from .paths import NSM, BUNDLE, get_cfg, node_of, short

RULES = {}


def rule(prop, rid, title, floor, family="F-PATH", decides=""):
    def deco(fn):
        RULES.setdefault(prop, []).append(Rule(rid, title, floor, fn, family, decides))
        return fn

    return deco


def manager_fields(ctx: Ctx):
    ft = field_table(ctx, NSM)
    owned = {f.name for f in ft.values() if f.kind == "OWNED"}
    default = {n for n in ft if "default" in n and ft[n].kind != "REF" and n not in owned}
    if len(owned) < 3 or not default:
        raise AnalysisError("NamespaceManager tables not found (owned=%s default=%s)" % (sorted(owned), sorted(default)))
    return ft, owned, default


def self_dict_writes(ctx: Ctx):
    """Writes to the manager's own dict inside NamespaceManager: self[k] = v, del self[k], self.update(..) ..."""
    out = []
    for mname, q in ctx.p.classes[NSM].methods.items():
        fi = ctx.fn(q)
        for n in walk_function(fi.node):
            if isinstance(n, ast.Assign):
                for t in n.targets:
                    if isinstance(t, ast.Subscript) and norm(t.value) == "self":
                        out.append((q, n, "setitem", t.slice))
            elif isinstance(n, ast.Delete):
                for t in n.targets:
                    if isinstance(t, ast.Subscript) and norm(t.value) == "self":
                        out.append((q, n, "delitem", t.slice))
            elif isinstance(n, ast.Call) and isinstance(n.func, ast.Attribute) and norm(n.func.value) == "self" and n.func.attr in MUTATORS:
                if ctx.p.lookup_method(NSM, n.func.attr) is None:  # a dict method, not a manager method
                    out.append((q, n, "call:" + n.func.attr, n.args[0] if n.args else None))
    return out


@rule("C03", "C03.R1", "who may write the prefix tables: only NamespaceManager's own methods", 10, family="F-WRITE",
      decides="no serializer, exporter or model method re-points or drops a prefix behind the manager's back")
def c03_r1(ctx: Ctx, rule):
    res = RuleResult()
    ft, owned, default = manager_fields(ctx)
    fields = owned | default
    for s in mutation_sites(ctx, fields):
        inside = s.func.startswith(NSM + ".") and s.receiver == "self"
        res.ob("%s: %s" % (short(s.func), s.text))
        if inside:
            continue
        if s.how == "rebind":
            # replacing a whole manager is an aliasing question (C12.R1), not a table write; initialisation in __init__ is fine
            res.exceptions.append("%s: whole-object rebind `%s` is judged by C12.R1" % (short(s.func), s.text[:60]))
            continue
        res.fail(rule.id, "foreign-table-write::%s" % s.key, ctx.loc(s.func, s.node),
                 "%s writes the namespace table %s.%s from outside NamespaceManager: %s" % (short(s.func), s.receiver, s.field, s.text),
                 "a prefix is re-pointed or removed without the clash handling: names already handed out change URI when printed and re-read")
    for q, n, how, key in self_dict_writes(ctx):
        res.ob("%s: %s on the manager's own dict: %s" % (short(q), how, norm(n)[:70]))
    # calls to dict mutators on a manager from outside: X._namespaces.pop(..) is caught above (field _namespaces of ProvBundle
    # has the same name as the manager's registry, deliberately scanned by name).
    return res


def _returns_fresh_key(ctx: Ctx, q, table):
    """Every return of function q yields a name with the must-fact `name not in <table>`."""
    fi = ctx.fn(q)
    rets = [n for n in walk_function(fi.node) if isinstance(n, ast.Return) and n.value is not None]
    if not rets or not all(isinstance(r.value, ast.Name) for r in rets):
        return False
    if any(isinstance(n, ast.Assign) and any(isinstance(t, ast.Subscript) for t in n.targets) for n in walk_function(fi.node)):
        return False
    g = get_cfg(ctx, q)
    facts = notin_facts(ctx, q, g, set(), table)
    return all(("notin", r.value.id) in facts[node_of(g, r).id] for r in rets)


def unused_prefix_summary(ctx: Ctx):
    """Names of NamespaceManager methods each of whose returns yields a key known `not in self` - directly, or by
    delegating to a module function that is handed `self` as the table to test against."""
    good = set()
    for mname, q in ctx.p.classes[NSM].methods.items():
        fi = ctx.fn(q)
        if _returns_fresh_key(ctx, q, "self"):
            good.add(mname)
            continue
        rets = [n for n in walk_function(fi.node) if isinstance(n, ast.Return) and n.value is not None]
        if rets and all(isinstance(r.value, ast.Call) and isinstance(r.value.func, ast.Name) for r in rets):
            ok = True
            for r in rets:
                tgt = ctx.p.resolve_name(fi.module, r.value.func.id)
                if not (tgt and tgt[0] == "func"):
                    ok = False
                    break
                cf = ctx.fn(tgt[1])
                pos = [i for i, a in enumerate(r.value.args) if norm(a) == "self"]
                if len(pos) != 1 or pos[0] >= len(cf.params) or not _returns_fresh_key(ctx, tgt[1], cf.params[pos[0]]):
                    ok = False
                    break
            if ok:
                good.add(mname)
    return good


def notin_facts(ctx: Ctx, q, g, fresh_key_methods, table="self"):
    fi = ctx.fn(q)
    names = {n.id for n in ast.walk(fi.node) if isinstance(n, ast.Name)}
    universe = {("notin", n) for n in names} | {("nsprefix", x, y) for x in names for y in names}

    def gen_edge(a, b, lab):
        out = set()
        if a.kind in ("test", "loop") and a.stmt is not None and hasattr(a.stmt, "test"):
            t = a.stmt.test
            tests = [(t, True)]
            if isinstance(t, ast.UnaryOp) and isinstance(t.op, ast.Not):
                tests = [(t.operand, False)]
            for tt, pos in tests:
                if isinstance(tt, ast.Compare) and len(tt.ops) == 1 and isinstance(tt.left, ast.Name) and norm(tt.comparators[0]) == table:
                    is_in = isinstance(tt.ops[0], ast.In)
                    is_notin = isinstance(tt.ops[0], ast.NotIn)
                    truth = (lab == "true") == pos
                    if (is_in and not truth) or (is_notin and truth):
                        out.add(("notin", tt.left.id))
        return out

    def kill_node(n, facts):
        s = n.stmt
        if s is None or n.kind in ("test", "loop", "try", "handler"):
            return facts
        if isinstance(s, ast.Assign):
            # writes to the dict itself invalidate every fact
            for t in s.targets:
                if isinstance(t, ast.Subscript) and norm(t.value) == "self":
                    return set()
            before = set(facts)
            for t in s.targets:
                bound = [t] if isinstance(t, ast.Name) else (list(t.elts) if isinstance(t, (ast.Tuple, ast.List)) else [])
                for x in bound:
                    if isinstance(x, ast.Name):
                        facts.discard(("notin", x.id))
                        for f in [f for f in facts if f[0] == "nsprefix" and x.id in f[1:]]:
                            facts.discard(f)
            if len(s.targets) == 1 and isinstance(s.targets[0], ast.Name):
                tgt = s.targets[0].id
                v = s.value
                if isinstance(v, ast.Name) and v.id != tgt:
                    # a copy carries what is known of the original
                    for f in before:
                        if f[0] == "nsprefix" and f[1] == v.id and f[2] != tgt:
                            facts.add(("nsprefix", tgt, f[2]))
                if isinstance(v, ast.Call):
                    r = ctx.p.resolve_dotted(fi.module, v.func)
                    if r and r[0] == "class" and r[1] == "prov.identifier.Namespace":
                        pe, _ue = namespace_ctor_args(ctx, v)
                        if isinstance(pe, ast.Name) and pe.id != tgt:
                            facts.add(("nsprefix", tgt, pe.id))  # tgt is a namespace whose prefix is the current value of pe
                if isinstance(v, ast.Attribute) and v.attr in ("prefix", "_prefix") and isinstance(v.value, ast.Name):
                    if any(f[0] == "nsprefix" and f[1] == v.value.id and ("notin", f[2]) in before for f in before):
                        facts.add(("notin", tgt))
                if isinstance(v, ast.Name) and ("notin", v.id) in before and v.id != tgt:
                    facts.add(("notin", tgt))
                elif isinstance(v, ast.Call) and isinstance(v.func, ast.Attribute) and norm(v.func.value) == "self" and v.func.attr in fresh_key_methods:
                    facts.add(("notin", tgt))
                    return facts
        elif isinstance(s, (ast.AugAssign, ast.AnnAssign)):
            for x in ast.walk(s.target):
                if isinstance(x, ast.Name):
                    facts.discard(("notin", x.id))
        # calls that may register something kill everything
        for c in ast.walk(s):
            if isinstance(c, ast.Call) and isinstance(c.func, ast.Attribute) and norm(c.func.value) == "self":
                m = c.func.attr
                if m in fresh_key_methods or m in ("get", "values", "keys", "items", "get_namespace", "get_registered_namespaces", "get_default_namespace"):
                    continue
                return set()
        return facts

    return g.must_forward(gen_edge, kill_node, universe, labels_excluded=())


@rule("C03", "C03.R2", "a registered prefix is never overwritten: every binding store has the must-fact `key not in self`", 2,
      decides="a clashing prefix yields a fresh prefix instead of re-pointing the old one")
def c03_r2(ctx: Ctx, rule):
    res = RuleResult()
    ft, owned, default = manager_fields(ctx)
    fresh = unused_prefix_summary(ctx)
    res.exceptions.append("fresh-key helpers (every return carries `x not in self`): %s" % sorted(fresh))
    reg = [f for f in owned if ft[f].container == "dict" and f == "_namespaces"] or []
    stores = []
    for q, n, how, key in self_dict_writes(ctx):
        stores.append((q, n, how, key, "self"))
    for s in mutation_sites(ctx, set(reg)):
        if s.func.startswith(NSM + ".") and s.receiver == "self" and s.how == "setitem":
            stores.append((s.func, s.node, "setitem", s.node.targets[0].slice, "self." + s.field))
    for q, n, how, key, what in stores:
        fi = ctx.fn(q)
        if how == "call:update" and fi.name == "__init__":
            res.ob("%s: %s (initialisation of an empty manager)" % (short(q), norm(n)), nontrivial=False)
            res.exceptions.append("__init__: self.update(defaults) runs on the freshly created, empty dict")
            continue
        if how != "setitem":
            res.ob("%s: %s" % (short(q), norm(n)))
            res.fail(rule.id, "table-mutation::%s::%s" % (q, norm(n)), ctx.loc(q, n), "%s changes the prefix table with %s" % (short(q), how),
                     "bindings are dropped or replaced wholesale")
            continue
        folded_key = None
        if key is not None and not isinstance(key, ast.Constant):
            try:
                folded_key = ctx.eval_in(q, key)
            except AnalysisError:
                folded_key = None
        if isinstance(key, ast.Constant) or isinstance(folded_key, str):
            res.ob("%s: constant-key store %s (default-namespace slot)" % (short(q), norm(n)), nontrivial=False)
            res.exceptions.append("%s: `%s` binds the reserved default slot; re-binding a default is excluded by the property's usage discipline" % (short(q), norm(n)))
            continue
        g = get_cfg(ctx, q)
        facts = notin_facts(ctx, q, g, fresh)
        nd = node_of(g, n)
        # one registration writes the same key into the manager's dict and into its registry, in either order: the fact that counts
        # is the one holding before the first store of that straight-line group
        first = nd
        while isinstance(key, ast.Name):
            preds = [m for m in g.nodes if any(t is first for t, _lab in m.succ)]
            if len(preds) != 1 or preds[0].stmt is None or not isinstance(preds[0].stmt, ast.Assign) or len(preds[0].succ) != 1 and not all(lab in ("next", "exc") for _t, lab in preds[0].succ):
                break
            pt = preds[0].stmt.targets[0]
            if isinstance(pt, ast.Subscript) and isinstance(pt.slice, ast.Name) and pt.slice.id == key.id and norm(pt.value).split(".")[0] == "self":
                first = preds[0]
            else:
                break
        ok = isinstance(key, ast.Name) and ("notin", key.id) in facts[first.id]
        res.ob("%s: %s  [must-fact %s not in self: %s]" % (short(q), norm(n), norm(key), ok))
        if not ok:
            res.fail(rule.id, "overwrite::%s::%s" % (q, norm(n.targets[0])), ctx.loc(q, n),
                     "%s can execute `%s` while %s is already bound" % (short(q), norm(n), norm(key)),
                     "add_namespace('ex', U2) after 'ex'->U1: every name handed out as ex:... now prints under a prefix bound to U2")
    return res


def namespace_ctor_args(ctx: Ctx, call: ast.Call):
    """(prefix expression, uri expression) of a Namespace(...) construction, positional or by keyword (parameter names read off __init__)."""
    ps = ctx.fn(ctx.p.lookup_method("prov.identifier.Namespace", "__init__")).params[1:]
    if len(ps) < 2 or any(isinstance(a, ast.Starred) for a in call.args):
        return None, None
    got = {}
    for i, a in enumerate(call.args[:2]):
        got[ps[i]] = a
    for k in call.keywords:
        if k.arg in ps[:2]:
            got[k.arg] = k.value
    return got.get(ps[0]), got.get(ps[1])


def uri_token(ctx: Ctx, fi, e, arg_ns_names, depth=0, visiting=frozenset(), argname=None):
    """'U0' if expression `e` denotes a namespace (or uri string) provably carrying the argument namespace's URI; else a reason string."""
    if depth > 8:
        return "?depth"
    if isinstance(e, ast.Name):
        if e.id in arg_ns_names:
            return "U0"
        if e.id in visiting:
            return "U0"  # x = f(x): grounded by the other definitions of x, all of which are checked
        defs = all_assignments(fi.node, e.id)
        if not defs or any(d is None for d in defs):
            return "?%s has no analysable definition" % e.id
        toks = {uri_token(ctx, fi, d, arg_ns_names, depth + 1, visiting | {e.id}, argname) for d in defs}
        return "U0" if toks == {"U0"} else sorted(toks - {"U0"})[0]
    if isinstance(e, ast.Attribute):
        if e.attr in ("uri", "_uri"):
            return uri_token(ctx, fi, e.value, arg_ns_names, depth + 1, visiting, argname)
        if e.attr in ("namespace", "_namespace") and isinstance(e.value, ast.Name) and e.value.id == (argname or fi.params[1]):
            return "U0"
        if norm(e.value) == "self":
            return guarded_equal(fi, e, arg_ns_names)
        return "?%s" % norm(e)
    if isinstance(e, ast.Call):
        r = ctx.p.resolve_dotted(fi.module, e.func)
        if r and r[0] == "class" and r[1] == "prov.identifier.Namespace":
            pe, ue = namespace_ctor_args(ctx, e)
            if ue is not None:
                return uri_token(ctx, fi, ue, arg_ns_names, depth + 1, visiting, argname)
        if isinstance(e.func, ast.Attribute) and norm(e.func.value) == "self" and e.func.attr == "add_namespace" and e.args:
            return uri_token(ctx, fi, e.args[0], arg_ns_names, depth + 1, visiting, argname)  # by add_namespace's summary (checked below)
        if isinstance(e.func, ast.Attribute) and norm(e.func.value) == "self" and e.func.attr == "get" and e.args and ctx.p.lookup_method(NSM, "get") is None:
            # self.get(prefix[, default]) is self[prefix] when the key is bound: same equality-test requirement
            return guarded_equal(fi, e, arg_ns_names)
        return "?call %s" % norm(e.func)
    if isinstance(e, ast.Subscript):
        base = norm(e.value)
        if base.startswith("self.") and base[5:] in uri_keyed_fields(ctx):
            # invariant F[k].uri == uri(k), established by checking every store into F (uri_keyed_fields)
            return uri_token(ctx, fi, e.slice, arg_ns_names, depth + 1, visiting, argname)
        if base == "self":
            return guarded_equal(fi, e, arg_ns_names)
        return "?%s" % norm(e)
    return "?%s" % norm(e)


def uri_keyed_fields(ctx: Ctx):
    """Owned dict fields F of NamespaceManager with the invariant `F[k] is a namespace whose URI is the URI denoted by k`
    (k a URI string or a namespace).  Greatest fixed point: assume all, drop a field when one of its stores (all of which
    are in add_namespace, by C03.R1) does not show key and value carrying the same argument URI."""
    if "uri_keyed_fields" in ctx._cache:
        return ctx._cache["uri_keyed_fields"]
    ft, owned, default = manager_fields(ctx)
    cand = {f for f in owned if ft[f].container in ("dict",)}
    ctx._cache["uri_keyed_fields"] = set(cand)
    aq = NSM + ".add_namespace"
    af = ctx.fn(aq)
    ap = {af.params[1]}
    changed = True
    while changed:
        changed = False
        for s in mutation_sites(ctx, set(cand)):
            if s.how != "setitem" or not isinstance(s.node, ast.Assign) or s.field not in ctx._cache["uri_keyed_fields"]:
                continue
            if s.func != aq:
                ctx._cache["uri_keyed_fields"].discard(s.field)
                changed = True
                continue
            kt = uri_token(ctx, af, s.node.targets[0].slice, ap)
            vt = uri_token(ctx, af, s.node.value, ap)
            if kt != "U0" or vt != "U0":
                ctx._cache["uri_keyed_fields"].discard(s.field)
                changed = True
    return ctx._cache["uri_keyed_fields"]


def guarded_equal(fi, e, arg_ns_names):
    """`self._default` / `self[prefix]` carry the argument's URI only inside a branch tested `<e> == <arg namespace>`."""
    target = norm(e)
    for n in walk_function(fi.node):
        if isinstance(n, ast.If) and any(x is e for b in n.body for x in ast.walk(b)):
            conj = n.test.values if isinstance(n.test, ast.BoolOp) and isinstance(n.test.op, ast.And) else [n.test]
            for c in conj:
                if isinstance(c, ast.Compare) and len(c.ops) == 1 and isinstance(c.ops[0], ast.Eq):
                    l, r = norm(c.left), norm(c.comparators[0])
                    if (l == target and r in arg_ns_names) or (r == target and l in arg_ns_names):
                        return "U0"
    # (name := self[prefix]) == namespace  in the test itself: the name carries the argument's URI wherever that test has succeeded
    for n in walk_function(fi.node):
        if not isinstance(n, ast.If):
            continue
        conj = n.test.values if isinstance(n.test, ast.BoolOp) and isinstance(n.test.op, ast.And) else [n.test]
        for c in conj:
            if isinstance(c, ast.Compare) and len(c.ops) == 1 and isinstance(c.ops[0], ast.Eq):
                for side, oth in ((c.left, c.comparators[0]), (c.comparators[0], c.left)):
                    if isinstance(side, ast.NamedExpr) and side.value is e and isinstance(side.target, ast.Name) and norm(oth) in arg_ns_names:
                        nm = side.target.id
                        uses = [x for x in walk_function(fi.node) if isinstance(x, ast.Name) and x.id == nm and isinstance(x.ctx, ast.Load)]
                        if all(any(x is y for b in n.body for y in ast.walk(b)) for x in uses):
                            return "U0"
                    # (name := <e>) bound in an earlier conjunct of the same test, `name == namespace` in a later one
                    if isinstance(side, ast.Name) and norm(oth) in arg_ns_names:
                        binders = [w for cj in conj for w in ast.walk(cj) if isinstance(w, ast.NamedExpr) and w.value is e and isinstance(w.target, ast.Name) and w.target.id == side.id]
                        if binders:
                            uses = [x for x in walk_function(fi.node) if isinstance(x, ast.Name) and x.id == side.id and isinstance(x.ctx, ast.Load)]
                            if all(any(x is y for b in n.body for y in ast.walk(b)) or any(x is y for y in ast.walk(n.test)) for x in uses):
                                return "U0"
    return "?%s used without an equality test against the argument's namespace" % target


@rule("C03", "C03.R3", "re-homing preserves the URI: every QualifiedName returned for a QualifiedName argument is N[local] with uri(N) = uri(argument.namespace)", 5,
      decides="clause (a): resolving a QualifiedName never changes its URI", family="F-OWN")
def c03_r3(ctx: Ctx, rule):
    res = RuleResult()
    q = NSM + ".valid_qualified_name"
    fi = ctx.fn(q)
    arg = fi.params[1]
    branch = None
    for s in fi.node.body:
        if isinstance(s, ast.If) and isinstance(s.test, ast.Call) and call_name(s.test) == "isinstance" and norm(s.test.args[0]) == arg and "QualifiedName" in norm(s.test.args[1]):
            branch = s
    if branch is None:
        raise AnalysisError("QualifiedName branch of valid_qualified_name not found")
    ns_names = set()
    local_names_ok = set()
    arg_aliases = {arg}
    assigns = [n for n in ast.walk(branch) if isinstance(n, ast.Assign) and len(n.targets) == 1 and isinstance(n.targets[0], ast.Name)]
    defs_of = {}
    for n in assigns:
        defs_of.setdefault(n.targets[0].id, []).append(n.value)
    changed = True
    while changed:  # closed under plain copies (x = y), e.g. the parameter bindings of an inlined helper
        changed = False
        for name, ds in defs_of.items():
            def all_in(pred):
                return all(pred(d) for d in ds)
            if name not in arg_aliases and all_in(lambda d: isinstance(d, ast.Name) and d.id in arg_aliases):
                arg_aliases.add(name); changed = True
            if name not in ns_names and all_in(lambda d: (isinstance(d, ast.Attribute) and d.attr in ("namespace", "_namespace") and isinstance(d.value, ast.Name) and d.value.id in arg_aliases) or (isinstance(d, ast.Name) and d.id in ns_names)):
                ns_names.add(name); changed = True
            if name not in local_names_ok and all_in(lambda d: (isinstance(d, ast.Attribute) and d.attr in ("localpart", "_localpart") and isinstance(d.value, ast.Name) and d.value.id in arg_aliases) or (isinstance(d, ast.Name) and d.id in local_names_ok)):
                local_names_ok.add(name); changed = True
    if not ns_names:
        raise AnalysisError("valid_qualified_name: the argument's namespace is never bound to a local")

    def check_value(e, where, f=fi, ns=ns_names, loc_ok=local_names_ok, argn=arg, depth=0):
        e0 = e
        if isinstance(e, ast.Name) and (e.id == argn or (f is fi and e.id in arg_aliases)):
            res.ob("returns the argument itself (%s)" % where, nontrivial=False)
            return
        if isinstance(e, ast.Name):
            defs = [d for d in all_assignments(f.node, e.id)]
            for d in defs:
                if d is None:
                    res.fail(rule.id, "rehoming::unanalysable::%s" % e.id, ctx.loc(f.qual, e0), "cannot follow the definition of %s" % e.id)
                else:
                    check_value(d, "%s = %s" % (e.id, norm(d)), f, ns, loc_ok, argn, depth)
            return
        if isinstance(e, ast.Subscript):
            als = arg_aliases if f is fi else {argn}
            lok = norm(e.slice) in loc_ok or any(norm(e.slice) in ("%s.localpart" % a, "%s._localpart" % a) for a in als)
            tok = uri_token(ctx, f, e.value, ns, argname=argn)
            res.ob("%s: local part from the argument=%s, namespace carries the argument's URI=%s" % (where, lok, tok))
            if not lok or tok != "U0":
                res.fail(rule.id, "rehoming::%s" % norm(e), ctx.loc(f.qual, e),
                         "valid_qualified_name(QualifiedName) can return %s: %s" % (norm(e), "local part is not the argument's" if not lok else tok[1:]),
                         "a QualifiedName from another container resolves to a different URI (two distinct entities collapse, or a record changes identity on update/flatten)")
            return
        if isinstance(e, ast.Constant) and e.value is None:
            return
        if isinstance(e, ast.Call) and isinstance(e.func, ast.Attribute) and norm(e.func.value) == "self" and depth < 2:
            cq = ctx.p.lookup_method(NSM, e.func.attr)
            if cq and cq != q:
                cf = ctx.fn(cq)
                ps = cf.params[1:]
                amap = {ps[i]: a for i, a in enumerate(e.args) if i < len(ps)}
                amap.update({k.arg: k.value for k in e.keywords if k.arg})
                ns2 = {p for p, a in amap.items() if isinstance(a, ast.Name) and a.id in ns}
                loc2 = {p for p, a in amap.items() if norm(a) in loc_ok or norm(a) in ("%s.localpart" % argn, "%s._localpart" % argn)}
                arg2 = next((p for p, a in amap.items() if isinstance(a, ast.Name) and a.id == argn), "<none>")
                # locals of the helper derived from its own parameters
                for n2 in walk_function(cf.node):
                    if isinstance(n2, ast.Assign) and len(n2.targets) == 1 and isinstance(n2.targets[0], ast.Name):
                        v2 = norm(n2.value)
                        if v2 in ("%s.namespace" % arg2, "%s._namespace" % arg2):
                            ns2.add(n2.targets[0].id)
                        if v2 in ("%s.localpart" % arg2, "%s._localpart" % arg2):
                            loc2.add(n2.targets[0].id)
                for n2 in walk_function(cf.node):
                    if isinstance(n2, ast.Return) and n2.value is not None:
                        check_value(n2.value, "%s: return %s" % (cf.name, norm(n2.value)), cf, ns2, loc2, arg2, depth + 1)
                return
        res.ob("%s: unrecognised shape" % where)
        res.fail(rule.id, "rehoming::shape::%s" % norm(e), ctx.loc(f.qual, e), "returned value %s is not N[local]" % norm(e))

    for n in ast.walk(branch):
        if isinstance(n, ast.Return) and n.value is not None:
            check_value(n.value, "return %s" % norm(n.value))
    # add_namespace summary + map invariants
    aq = NSM + ".add_namespace"
    af = ctx.fn(aq)
    ap = {af.params[1]}
    for n in walk_function(af.node):
        if isinstance(n, ast.Return) and n.value is not None:
            tok = uri_token(ctx, af, n.value, ap)
            res.ob("add_namespace returns %s: carries the argument's URI: %s" % (norm(n.value), tok))
            if tok != "U0":
                res.fail(rule.id, "add_namespace-summary::%s" % norm(n.value), ctx.loc(aq, n), "add_namespace can return %s, whose URI is not shown to be the argument's (%s)" % (norm(n.value), tok[1:]),
                         "add_namespace(prefix, U) hands back a namespace for another URI; every name minted from it is wrong")
        tbl = norm(n.targets[0].value) if isinstance(n, ast.Assign) and isinstance(n.targets[0], ast.Subscript) else ""
        if tbl == "self" or (tbl.startswith("self.") and tbl[5:] in manager_fields(ctx)[1]):
            kt = uri_token(ctx, af, n.targets[0].slice, ap) if tbl[5:] in uri_keyed_fields(ctx) else "U0"
            vt = uri_token(ctx, af, n.value, ap)
            res.ob("add_namespace store %s: key/value carry the argument's URI: %s/%s" % (norm(n), kt, vt))
            if kt != "U0" or vt != "U0":
                res.fail(rule.id, "map-invariant::%s" % norm(n.targets[0]), ctx.loc(aq, n), "store %s breaks the invariant that the table maps a URI/namespace to a namespace of the same URI" % norm(n),
                         "later resolutions through that table return a namespace with another URI")
    return res


@rule("C03", "C03.R4", "the clash check looks where resolution looks: scopes consulted by the resolver are consulted by the registrar", 1, family="F-SIB",
      decides="a prefix that resolves through the parent scope cannot be re-bound locally to another URI unnoticed")
def c03_r4(ctx: Ctx, rule):
    res = RuleResult()
    vq = ctx.fn(NSM + ".valid_qualified_name")
    delegates = [c for c in calls_in(vq.node) if isinstance(c.func, ast.Attribute) and "parent" in norm(c.func.value)]
    aq = ctx.fn(NSM + ".add_namespace")
    reads_parent = [n for n in walk_function(aq.node) if isinstance(n, ast.Attribute) and n.attr == "parent"]
    res.ob("resolver delegates to the parent scope: %s; add_namespace consults the parent scope: %s" % (bool(delegates), bool(reads_parent)))
    if delegates and not reads_parent:
        res.fail(rule.id, "scope-agreement::add_namespace-ignores-parent", ctx.loc(aq.qual, aq.node),
                 "valid_qualified_name resolves 'prefix:local' through self.parent, but add_namespace binds a prefix without looking at the parent's bindings",
                 "document binds ex->A; a bundle uses 'ex:e1' (resolved through the parent), then binds ex->B: the bundle prints ex:e1 under its own ex->B declaration, and it reloads as B+e1")
    return res


@rule("C03", "C03.R5", "identity is the URI: QualifiedName hashes and Identifier compares on the URI only; the folder's model of names matches identifier.py", 10,
      decides="lookups and equality never depend on prefix spelling", family="F-BOOL")
def c03_r5(ctx: Ctx, rule):
    res = RuleResult()
    for ob, ok, detail in validate_identifier_model(ctx.p, ctx.f):
        res.ob("model conformance: %s: %s %s" % (ob, ok, detail))
        if not ok:
            res.fail(rule.id, "model::%s" % ob, "src/prov/identifier.py:0", "identifier.py no longer computes %s (%s)" % (ob, detail),
                     "the URI or the printed form of every qualified name changes")
    seen_q = set()
    for cls, meth, what in (("prov.identifier.QualifiedName", "__hash__", "hash"), ("prov.identifier.Identifier", "__eq__", "eq"), ("prov.identifier.Identifier", "__hash__", "hash"), ("prov.identifier.QualifiedName", "__eq__", "eq")):
        q = ctx.p.lookup_method(cls, meth)
        if q is None:
            raise AnalysisError("anchor vanished: %s.%s is not defined anywhere in the class hierarchy" % (cls, meth))
        if q in seen_q:
            continue
        seen_q.add(q)
        fi = ctx.fn(q)
        attrs = {ctx.canon_field(cls, n.attr) if not n.attr.startswith("__") else n.attr for n in walk_function(fi.node) if isinstance(n, ast.Attribute) and isinstance(n.value, ast.Name) and n.value.id in fi.params}
        proj = {a.lstrip("_") for a in attrs} - {"class__"}
        proj = {a for a in proj if a not in ("__class__",)}
        bad = {a for a in attrs if a.lstrip("_") not in ("uri",) and a != "__class__"}
        res.ob("%s projects on %s" % (short(q) if q.count(".") > 2 else q, sorted(attrs)))
        if bad or not any(a.lstrip("_") == "uri" for a in attrs):
            res.fail(rule.id, "identity::%s" % q, ctx.loc(q, fi.node), "%s depends on %s instead of the URI alone" % (q, sorted(attrs)),
                     "the same URI under two prefixes is treated as two identifiers (index misses, unequal documents after prefix renaming)")
    return res


@rule("C03", "C03.R6", "no lossy prefix strip: a namespace URI is cut off the front of a URI, never removed by str.replace", 0, family="F-TAINT",
      decides="compacting 'U + rest' yields 'rest' even when 'rest' contains U again")
def c03_r6(ctx: Ctx, rule):
    res = RuleResult()
    for q, fi in ctx.p.functions.items():
        if fi.module.startswith("scripts."):
            continue
        for c in calls_in(fi.node):
            if call_name(c) == "replace" and len(c.args) == 2 and isinstance(c.args[1], ast.Constant) and c.args[1].value == "":
                a0 = c.args[0]
                if isinstance(a0, ast.Attribute) and a0.attr in ("uri", "_uri"):
                    res.ob("%s: %s" % (short(q), norm(c)))
                    res.fail(rule.id, "lossy-strip::%s::%s" % (q, norm(c)), ctx.loc(q, c),
                             "%s removes every occurrence of %s, where a prefix strip was meant" % (norm(c), norm(a0)),
                             "'http://a/x?u=http://a/y' under namespace http://a/ compacts to a:x?u=y - another URI")
    # sites that do it right are the instances on a clean tree
    for q in (NSM + ".valid_qualified_name", RD + ".ProvRDFSerializer.decode_rdf_representation", "prov.identifier.Namespace.qname"):
        fi = ctx.fn(q)
        for n in walk_function(fi.node):
            if isinstance(n, ast.Subscript) and isinstance(n.slice, ast.Slice) and n.slice.lower is not None and isinstance(n.slice.lower, ast.Call) and call_name(n.slice.lower) == "len":
                res.ob("%s: front cut %s" % (short(q) if q.count(".") > 2 else q, norm(n)), nontrivial=True)
    return res


@rule("C03", "C03.R7", "string resolution: a prefix registered in this scope wins over the renamed-prefix memo", 1,
      decides="clause (c): 'p:local' printed from a registered prefix resolves to the registered URI even after a later clash on p")
def c03_r7(ctx: Ctx, rule):
    res = RuleResult()
    ft, owned, default = manager_fields(ctx)
    # the memo: the owned dict the registrar fills under the *clashing* prefix but which is not the registry itself
    memo_fields = set()
    aq = ctx.fn(NSM + ".add_namespace")
    for n in walk_function(aq.node):
        if isinstance(n, ast.Assign) and isinstance(n.targets[0], ast.Subscript) and isinstance(n.targets[0].value, ast.Attribute) and norm(n.targets[0].value.value) == "self":
            fld = n.targets[0].value.attr
            key = n.targets[0].slice
            if fld in owned and fld not in uri_keyed_fields(ctx) and isinstance(key, ast.Name):
                # is the same key ever used to bind the registry (self[key])?  the registry is excluded
                memo_fields.add(fld)
    reg_fields = {s.field for s in mutation_sites(ctx, set(owned)) if s.func == NSM + ".add_namespace" and s.how == "setitem" and any(
        isinstance(x, ast.Assign) and isinstance(x.targets[0], ast.Subscript) and norm(x.targets[0].value) == "self" and norm(x.targets[0].slice) == norm(s.node.targets[0].slice) and norm(x.value) == norm(s.node.value)
        for x in walk_function(aq.node))}
    memo_fields -= reg_fields
    uses_all = []
    for q in ctx.helper_closure(NSM + ".valid_qualified_name"):
        if q.rsplit(".", 1)[1] in ("add_namespace", "add_namespaces", "set_default_namespace"):
            continue  # the registrar fills the memo; only the resolver's *reads* are governed
        fi = ctx.fn(q)
        stores = {id(t.value) for n in walk_function(fi.node) if isinstance(n, ast.Assign) for t in n.targets if isinstance(t, ast.Subscript)}
        for n in walk_function(fi.node):
            if isinstance(n, ast.Attribute) and n.attr in memo_fields and norm(n.value) == "self" and id(n) not in stores:
                uses_all.append((q, n))
    if not uses_all:
        res.ob("the resolver does not consult a renamed-prefix memo", nontrivial=False)
        return res
    seen = set()
    for q, u in uses_all:
        fi = ctx.fn(q)
        g = get_cfg(ctx, q)
        facts = notin_facts(ctx, q, g, set())
        nd = node_of(g, u)
        if nd.id in seen:
            continue
        seen.add(nd.id)
        if nd.kind == "test":
            # the membership test itself must already be under `prefix not in self`
            pass
        keyvars = set()
        for x in ast.walk(nd.stmt if nd.kind != "test" else nd.stmt.test):
            if isinstance(x, ast.Subscript) and x.value is u and isinstance(x.slice, ast.Name):
                keyvars.add(x.slice.id)
            if isinstance(x, ast.Compare) and any(c is u for c in x.comparators) and isinstance(x.left, ast.Name):
                keyvars.add(x.left.id)
            if isinstance(x, ast.Call) and isinstance(x.func, ast.Attribute) and x.func.value is u and x.args and isinstance(x.args[0], ast.Name):
                keyvars.add(x.args[0].id)
        ok = bool(keyvars) and all(("notin", k) in facts[nd.id] for k in keyvars)
        res.ob("memo use `%s` is reached only with %s not in self: %s" % (norm(nd.stmt if nd.kind != "test" else nd.stmt.test)[:70], sorted(keyvars), ok))
        if not ok:
            res.fail(rule.id, "memo-before-registry::%s" % norm(nd.stmt if nd.kind != "test" else nd.stmt.test)[:80], ctx.loc(q, u),
                     "the renamed-prefix memo is consulted for a prefix that may be registered in this scope",
                     "ex->U1 registered, a clashing ex->U2 is renamed ex_1 (memo ex->ex_1): the string 'ex:e1' now resolves to U2+e1, so names handed out earlier as ex:e1 change URI when printed and re-read")
    return res


@rule("C03", "C03.R8", "URI compaction considers every namespace bound in the scope: the loop walks the manager's own table (default namespace included)", 1,
      decides="a full URI in the default namespace, or under a renamed prefix, still resolves to the name the scope handed out")
def c03_r8(ctx: Ctx, rule):
    res = RuleResult()
    q0 = NSM + ".valid_qualified_name"
    loops = []
    # Namespace methods that test `uri.startswith(self.uri)` themselves (qname, contains): delegating to them is the same test
    prefix_testers = {m for m, mq in ctx.p.classes["prov.identifier.Namespace"].methods.items()
                      if any(isinstance(c, ast.Call) and call_name(c) == "startswith" for c in calls_in(ctx.fn(mq).node))}
    for q in ctx.helper_closure(q0):
        fi = ctx.fn(q)
        for n in walk_function(fi.node):
            if isinstance(n, ast.For) and any(isinstance(c, ast.Call) and (call_name(c) == "startswith" or call_name(c) in prefix_testers) for c in ast.walk(n)):
                loops.append((q, n))
    if not loops:
        raise AnalysisError("valid_qualified_name: URI compaction loop not found")
    fresh = unused_prefix_summary(ctx)
    for q, l in loops:
        # last resort: a 'p:rest' string is compacted as a URI only when p is not a prefix bound in this scope
        fi = ctx.fn(q)
        splitvars = set()
        for a in walk_function(fi.node):
            if isinstance(a, ast.Assign) and isinstance(a.value, ast.Call) and call_name(a.value) in ("split", "partition") and a.value.args and isinstance(a.value.args[0], ast.Constant) and a.value.args[0].value == ":":
                t0 = a.targets[0]
                if isinstance(t0, (ast.Tuple, ast.List)) and t0.elts and isinstance(t0.elts[0], ast.Name):
                    splitvars.add(t0.elts[0].id)
        rsplits = [a for a in walk_function(fi.node) if isinstance(a, ast.Call) and call_name(a) in ("rsplit", "rpartition") and a.args and isinstance(a.args[0], ast.Constant) and a.args[0].value == ":"]
        res.ob("a 'prefix:local' string is cut at its FIRST colon (split / partition, not rsplit): %s" % (not rsplits))
        for a in rsplits:
            res.fail(rule.id, "prefix-cut-at-last-colon", ctx.loc(q, a), "valid_qualified_name cuts 'prefix:local' at the last colon (%s): a local part containing ':' moves into the prefix" % norm(a)[:40],
                     "the name ex:run:42 (local part 'run:42') is written as 'ex:run:42' and re-read as prefix 'ex:run': the reload raises or drops it")
        if splitvars:
            g = get_cfg(ctx, q)
            facts = notin_facts(ctx, q, g, fresh)
            lns = g.nodes_of(l) or [node_of(g, l.iter)]
            last = all(any(("notin", v) in facts[ln.id] for v in splitvars) for ln in lns)
            res.ob("compaction loop is reached only when the text before ':' is not a bound prefix (%s not in self): %s" % (sorted(splitvars), last))
            if not last:
                res.fail(rule.id, "compaction-before-prefix-lookup", ctx.loc(q, l),
                         "a 'prefix:local' string can be compacted as a URI although its prefix is bound in this scope (the loop is not guarded by `%s not in self`)" % sorted(splitvars)[0],
                         "prefix doi -> https://doi.org/ plus a namespace whose URI is 'doi:10.1000/': the name doi:10.1000/182 handed out for https://doi.org/10.1000/182 re-resolves to the URI 'doi:10.1000/182'")
    # the string / URI part accepts both spellings of a full URI: a str and an Identifier object
    f0 = ctx.fn(q0)
    # the gate: `if not isinstance(arg, T): return None` - only T gets past it
    guards = []
    for q in ctx.helper_closure(q0):
        for n in walk_function(ctx.fn(q).node):
            if isinstance(n, ast.If) and isinstance(n.test, ast.UnaryOp) and isinstance(n.test.op, ast.Not) and isinstance(n.test.operand, ast.Call) and call_name(n.test.operand) == "isinstance" \
                    and len(n.test.operand.args) == 2 and any(isinstance(b, ast.Return) for b in n.body):
                guards.append(n.test.operand)
    if not guards:
        raise AnalysisError("valid_qualified_name: the type gate of the string / URI part was not found")
    admitted = set()
    for gcall in guards:
        elts = gcall.args[1].elts if isinstance(gcall.args[1], ast.Tuple) else [gcall.args[1]]
        for e in elts:
            admitted.add(norm(e).rsplit(".", 1)[-1])
    both = {"str", "Identifier"} <= admitted
    res.ob("valid_qualified_name's type tests on its argument admit %s: str and Identifier both: %s" % (sorted(admitted), both))
    if not both:
        res.fail(rule.id, "uri-spelling-not-admitted", ctx.loc(q0, f0.node), "valid_qualified_name only recognises %s as spellings of a name: %s is rejected" % (sorted(admitted), sorted({"str", "Identifier"} - admitted)),
                 "get_record(Identifier('<full URI>')) returns [] while get_record('<full URI>') finds the record")
    for q, l in loops:
        it = norm(l.iter)
        ok = it in ("self.values()", "self.items()", "list(self.values())", "self")
        res.ob("compaction loop iterates %s: the whole prefix table: %s" % (it, ok))
        if not ok:
            res.fail(rule.id, "compaction-partial-table::%s" % it[:50], ctx.loc(q, l), "full URIs are compacted against %s only, not against every namespace bound in the manager (the default namespace lives under the key '')" % it[:60],
                     "a container with a default namespace: get_record('<full URI of a record in it>') returns [] while records holds the record")
    return res



def kind_separation(ctx: Ctx, rule):
    """An xsd:anyURI value (Identifier) and a qualified name (QualifiedName) with the same URI are different values of different
    kinds (JSON: xsd:anyURI vs prov:QUALIFIED_NAME).  Identifier.__eq__ compares the URI only, so what keeps the two apart as
    members of attribute-value sets and as keys of the kind tables (PROV_BASE_CLS ...) is that they never hash alike:
    either equality itself separates the classes, or the two classes' hash functions differ (one mixes the class in)."""
    res = RuleResult()
    ID, QNAME = "prov.identifier.Identifier", "prov.identifier.QualifiedName"
    eq_i, eq_q = ctx.p.lookup_method(ID, "__eq__"), ctx.p.lookup_method(QNAME, "__eq__")
    h_i, h_q = ctx.p.lookup_method(ID, "__hash__"), ctx.p.lookup_method(QNAME, "__hash__")
    if not (eq_i and eq_q and h_i and h_q):
        raise AnalysisError("anchor vanished: Identifier/QualifiedName __eq__/__hash__")

    def mentions_class(q):
        fi = ctx.fn(q)
        for n in walk_function(fi.node):
            if isinstance(n, ast.Attribute) and n.attr == "__class__":
                return True
            if isinstance(n, ast.Call) and call_name(n) == "type" and len(n.args) == 1:
                return True
        return False

    def hash_expr(q):
        fi = ctx.fn(q)
        rets = [n.value for n in walk_function(fi.node) if isinstance(n, ast.Return) and n.value is not None]
        return sorted(norm(resolve_local(fi.node, r)) for r in rets)

    # `isinstance(other, Identifier)` alone does not separate a subclass from its base; an explicit class comparison does
    eq_separates = any(isinstance(n, ast.Compare) and ("__class__" in norm(n) or "type(" in norm(n)) for q in {eq_i, eq_q} for n in walk_function(ctx.fn(q).node))
    same_fn = h_i == h_q
    hi, hq = hash_expr(h_i), hash_expr(h_q)
    if same_fn:
        hash_separates = mentions_class(h_i)
        how = "one hash function for both classes (%s); mixes the class in: %s" % (short(h_i), hash_separates)
    else:
        hash_separates = hi != hq or mentions_class(h_i) or mentions_class(h_q)
        how = "Identifier hashes %s, QualifiedName hashes %s" % (hi, hq)
    ok = eq_separates or hash_separates
    res.ob("Identifier vs QualifiedName of one URI: equality separates the classes: %s; %s" % (eq_separates, how))
    res.ob("kind tables keyed by qualified names and attribute-value sets rely on that separation: %s" % ("kept" if ok else "LOST"))
    # equality stays inside the Identifier family: QualifiedName hashes like its URI *string*, so an __eq__ that answers True for a
    # plain str makes a qualified-name value and the string of its URI one member of a value set
    family = {c for c in ctx.p.classes if ID in ctx.p.mro(c)}

    def family_test(t, other):
        """isinstance(other, C) with C in the Identifier family (possibly a conjunct)"""
        for x in ([t] + (list(t.values) if isinstance(t, ast.BoolOp) and isinstance(t.op, ast.And) else [])):
            if isinstance(x, ast.Call) and call_name(x) == "isinstance" and len(x.args) == 2 and norm(x.args[0]) == other:
                types = x.args[1].elts if isinstance(x.args[1], ast.Tuple) else [x.args[1]]
                rs = [ctx.p.resolve_dotted(ctx.fn(eq_i).module, ty) if dotted(ty) else None for ty in types]
                if rs and all(r and r[0] == "class" and r[1] in family for r in rs):
                    return True
        return False

    def const_false(v):
        return (isinstance(v, ast.Constant) and v.value in (False, None)) or (isinstance(v, ast.Name) and v.id == "NotImplemented")

    for eq in sorted({eq_i, eq_q}):
        fi = ctx.fn(eq)
        if len(fi.params) < 2:
            continue
        other = fi.params[1]
        parents = {}
        for n in ast.walk(fi.node):
            for ch in ast.iter_child_nodes(n):
                parents[id(ch)] = n
        body0 = fi.node.body
        for r in [n for n in walk_function(fi.node) if isinstance(n, ast.Return) and n.value is not None]:
            v = r.value
            okr = const_false(v)
            okr = okr or (isinstance(v, ast.IfExp) and family_test(v.test, other) and const_false(v.orelse))
            okr = okr or (isinstance(v, ast.BoolOp) and isinstance(v.op, ast.And) and family_test(v.values[0], other))
            # under `if isinstance(other, Family):`
            cur = r
            while not okr and id(cur) in parents:
                p = parents[id(cur)]
                if isinstance(p, ast.If) and any(cur is b for b in p.body) and family_test(p.test, other):
                    okr = True
                cur = p
            # after a guard clause `if not isinstance(other, Family): return False`
            if not okr:
                for st in body0:
                    if st is r or any(x is r for x in ast.walk(st)):
                        break
                    if isinstance(st, ast.If) and isinstance(st.test, ast.UnaryOp) and isinstance(st.test.op, ast.Not) and family_test(st.test.operand, other) and st.body and isinstance(st.body[-1], ast.Return) and const_false(st.body[-1].value):
                        okr = True
            res.ob("%s: `return %s` can be true only for an operand of the Identifier family: %s" % (short(eq), norm(v)[:50], okr))
            if not okr:
                res.fail(rule.id, "identifier-equals-foreign-type::%s" % eq, ctx.loc(eq, r),
                         "%s can answer True for an operand that is not an Identifier (`return %s`): a QualifiedName hashes like the string of its URI, so the two become one member of a value set" % (short(eq), norm(v)[:50]),
                         "records whose prov:type is the qualified name ex:thing and the plain string 'http://example.org/thing' compare equal, in both orders, although they serialise differently")
    if not ok:
        res.fail(rule.id, "kinds-collapse::Identifier~QualifiedName", ctx.loc(h_q, ctx.fn(h_q).node),
                 "an xsd:anyURI Identifier and a QualifiedName with the same URI compare equal and now hash alike (%s): they collapse in attribute-value sets and match each other in the kind tables" % how,
                 "entity with ex:p = Identifier('http://example.org/x') and ex:p = ex:x keeps one value; agent typed Identifier('http://www.w3.org/ns/prov#Person') is written as <prov:person> and reloads with a qualified-name type")
    return res


for _p, _r, _d in (("C05", "C05.R8", "every supplied attribute value is stored: values of different kinds with one URI do not collapse in the per-attribute set"),
                   ("C08", "C08.R7", "the merged record carries the union of the values: an anyURI value and a qualified name of one URI stay two values"),
                   ("C02", "C02.R8", "the PROV-XML writer's `value in PROV_BASE_CLS` test matches qualified names only, never an xsd:anyURI value of the same URI"),
                   ("C10", "C10.R8", "an xsd:anyURI prov:type is not written as a subtype element (kind tables match qualified names only)"),
                   ("C11", "C11.R9", "loading never drops a value: a qualified name and an xsd:anyURI of one IRI listed for one attribute stay two values"),
                   ("C04", "C04.R8", "value identity: Identifier and QualifiedName of one URI stay distinct set members (the content-equivalence of records counts both)")):
    RULES.setdefault(_p, []).append(Rule(_r, "value kinds stay apart: Identifier and QualifiedName of one URI never hash alike unless equality separates them", 2, kind_separation, "F-BOOL", _d))


def c18_r9(ctx: Ctx, rule):
    """The default namespace lives in two places - the `_default` field and the manager's own "" entry - and lookup by full
    URI compacts through the dict's values only.  Every non-None store to the field must be accompanied, on every normal
    path through the same method, by a store of the "" entry (before or after)."""
    res = RuleResult()
    ft, owned, default = manager_fields(ctx)
    from .paths import get_cfg, node_of

    def is_empty_key(k):
        try:
            v = ctx.f.eval(k, M, {})
        except Exception:
            v = None
        return (isinstance(k, ast.Constant) and k.value == "") or v == ""

    n_sites = 0
    for mname, q in sorted(ctx.p.classes[NSM].methods.items()):
        fi = ctx.fn(q)
        stores = [n for n in walk_function(fi.node) if isinstance(n, ast.Assign) and any(isinstance(t, ast.Attribute) and norm(t.value) == "self" and t.attr in default for t in n.targets)
                  and not (isinstance(n.value, ast.Constant) and n.value.value is None)]
        if not stores:
            continue
        entry_stores = [n for n in walk_function(fi.node) if isinstance(n, ast.Assign) and any(isinstance(t, ast.Subscript) and norm(t.value) == "self" and is_empty_key(t.slice) for t in n.targets)]
        g = get_cfg(ctx, q)
        for st in stores:
            n_sites += 1
            if any(st is e for e in entry_stores):
                res.ob("%s: %s stores the field and the \"\" entry in one statement" % (short(q), norm(st)[:60]))
                continue
            sn = node_of(g, st)
            enodes = {x.id for e in entry_stores for x in g.node_containing(e)}
            dom = g.dominators(labels_excluded=("exc", "raise"))
            before = bool(dom.get(sn.id, set()) & enodes)
            # after: no normal path from the store to the normal exit that avoids every entry store
            escapes = g.exists_path(sn, g.exit, avoid=lambda m: m.id in enodes, labels_excluded=("exc", "raise"))
            ok = before or not escapes
            res.ob("%s: `%s` is accompanied by a store of self[\"\"] on every normal path: %s" % (short(q), norm(st)[:50], ok))
            if not ok:
                res.fail(rule.id, "default-without-entry::%s" % q, ctx.loc(q, st),
                         "%s sets the default namespace (`%s`) but can return without writing the manager's own \"\" entry: the URI-compaction loop over self.values() never sees that namespace" % (short(q), norm(st)[:50]),
                         "d = ProvDocument(); d.update(doc_with_default_namespace); d.get_record('<full URI of a record>') returns [] while d.records holds it (same after PROV-XML deserialisation)")
    if not n_sites:
        raise AnalysisError("no store to the default-namespace field found in NamespaceManager")
    return res


RULES.setdefault("C18", []).append(Rule("C18.R9", "the default namespace is always entered in the table that full-URI lookup walks: every store to the default field is paired with a store of the \"\" entry", 2, c18_r9, "F-PATH",
                                        "get_record(<full URI>) finds records named in a default namespace however that namespace arrived"))
RULES.setdefault("C03", []).append(Rule("C03.R10", "the default namespace is always entered in the prefix table (shared with C18.R9)", 2, c18_r9, "F-PATH",
                                        "a full URI in the default namespace compacts to the same name in every history"))

RULES.setdefault("C18", []).append(Rule("C18.R7", "URI compaction walks the whole prefix table (shared with C03.R8)", 1, c03_r8, "F-PATH",
                                        "lookup by full URI reaches the same index key as lookup by qualified name"))
RULES.setdefault("C09", []).append(Rule("C09.R6", "re-homing preserves the URI (shared with C03.R3)", 5, c03_r3, "F-OWN",
                                        "records re-created in the target of flattened/update/add_bundle keep their URIs"))

RULES.setdefault("C01", []).append(Rule("C01.R6", "re-homing preserves the URI (shared with C03.R3): names printed in a container resolve through its own declarations", 5, c03_r3, "F-OWN",
                                        "a QualifiedName argument used inside a bundle keeps its URI through the JSON text"))


@rule("C03", "C03.R9", "name resolution is not memoised across registrations: the resolver writes no table of its own", 1, family="F-WRITE",
      decides="a 'prefix:local' string resolved before a registration is resolved afresh after it")
def c03_r9(ctx: Ctx, rule):
    res = RuleResult()
    ft, owned, default = manager_fields(ctx)
    q = NSM + ".valid_qualified_name"
    registrars = {NSM + ".add_namespace", NSM + ".set_default_namespace"}
    all_fields = set(ft) | {f for f in owned}
    # fields of the manager written by the resolver itself (directly)
    sites = [s for s in mutation_sites(ctx, {n for n in field_names_of(ctx)}) if s.func == q and s.receiver == "self"]
    n = 0
    for s in sites:
        n += 1
        if s.field in default and s.how == "rebind":
            res.ob("resolver adopts a default namespace: %s" % s.text[:60], nontrivial=False)
            res.exceptions.append("valid_qualified_name adopts the argument's default namespace when the scope has none (`%s`): a registration, not a cache" % s.text[:50])
            continue
        # is the field reset by every registrar?
        resets = {r for r in registrars if any(x.field == s.field and (x.how in ("rebind", "call:clear") or x.how == "delitem") for x in mutation_sites(ctx, {s.field}) if x.func == r)}
        ok = resets == registrars
        res.ob("resolver writes self.%s (%s); reset by every registration method: %s" % (s.field, s.text[:50], ok))
        if not ok:
            res.fail(rule.id, "resolution-cache::%s" % s.field, ctx.loc(q, s.node),
                     "valid_qualified_name stores its results in self.%s (`%s`), which add_namespace / set_default_namespace do not invalidate" % (s.field, s.text[:50]),
                     "ex->A; foo->A (alias of ex); resolve 'foo:report' (cached A+report); add_namespace(foo, B): names handed out for B print as foo:report but the string resolves to A+report")
    if n == 0:
        res.ob("the resolver writes no field of its own", nontrivial=False)
    return res


def field_names_of(ctx: Ctx):
    """Every attribute name assigned on self anywhere in NamespaceManager (fields created outside __init__ included)."""
    names = set()
    for mname, mq in ctx.p.classes[NSM].methods.items():
        for n in walk_function(ctx.fn(mq).node):
            if isinstance(n, ast.Attribute) and isinstance(n.value, ast.Name) and n.value.id == "self" and isinstance(n.ctx, ast.Store):
                names.add(n.attr)
            if isinstance(n, ast.Subscript) and isinstance(n.ctx, ast.Store) and isinstance(n.value, ast.Attribute) and isinstance(n.value.value, ast.Name) and n.value.value.id == "self":
                names.add(n.value.attr)
    return names

RULES.setdefault("C18", []).append(Rule("C18.R8", "a 'prefix:local' lookup string resolves through the registered prefix before the renamed-prefix memo (shared with C03.R7)", 1, c03_r7, "F-PATH",
                                        "get_record('p:x') denotes the URI the container's own declaration of p gives"))


def c03_r11(ctx: Ctx, rule):
    """Namespace identity is exact: __eq__/__ne__/__hash__ use the URI and the prefix as they are (no case folding, no normalisation),
    so two namespaces whose URIs differ at all are never taken for one another by the manager's `==` / `in` tests."""
    res = RuleResult()
    NS_ = "prov.identifier.Namespace"
    for m in ("__eq__", "__hash__", "__ne__"):
        q = ctx.p.lookup_method(NS_, m)
        if q is None:
            if m == "__ne__":
                continue
            raise AnalysisError("anchor vanished: %s.%s" % (NS_, m))
        seen_fields, wrapped = set(), []
        for q2 in ctx.helper_closure(q, 2):
            f2 = ctx.fn(q2)
            if not f2.cls or f2.cls != NS_:
                continue
            for n in walk_function(f2.node):
                cf = lambda a: ctx.canon_field(NS_, a)
                if isinstance(n, ast.Attribute) and cf(n.attr) in ("uri", "prefix") and isinstance(n.value, ast.Name):
                    seen_fields.add(cf(n.attr))
                if isinstance(n, ast.Call) and isinstance(n.func, ast.Attribute) and isinstance(n.func.value, ast.Attribute) and cf(n.func.value.attr) in ("uri", "prefix"):
                    wrapped.append(norm(n))
                if isinstance(n, ast.Call) and isinstance(n.func, ast.Name) and n.func.id not in ("hash", "isinstance", "tuple", "type") and any(isinstance(a, ast.Attribute) and cf(a.attr) in ("uri", "prefix") for a in n.args):
                    wrapped.append(norm(n))
        ok = {"uri", "prefix"} <= seen_fields and not wrapped
        res.ob("Namespace.%s uses %s untransformed: %s" % (m, sorted(seen_fields), ok))
        if not ok:
            res.fail(rule.id, "namespace-identity-inexact::%s" % m, ctx.loc(q, ctx.fn(q).node),
                     "Namespace.%s %s" % (m, ("transforms its fields: %s" % ", ".join(wrapped[:3])) if wrapped else "does not use both uri and prefix (%s)" % sorted(seen_fields)),
                     "namespaces http://example.org/Data/ and http://example.org/data/ under one prefix: valid_qualified_name re-homes a name of the first into the second (another URI)")
    return res


RULES.setdefault("C03", []).append(Rule("C03.R11", "Namespace equality and hash are exact on (uri, prefix)", 2, c03_r11, "F-BOOL",
                                        "the manager's `==` / `in` tests on namespaces never equate two different URIs"))
RULES.setdefault("C01", []).append(Rule("C01.R11", "the printed form of a qualified name is prefix:localpart, unescaped (shared with C03.R5): the JSON writer prints names with str()", 10, c03_r5, "F-BOOL",
                                        "names written to JSON are the names the reader resolves"))
RULES.setdefault("C10", []).append(Rule("C10.R9", "re-homing preserves the URI (shared with C03.R3): a name is printed under a prefix its own container binds to that name's namespace", 5, c03_r3, "F-OWN",
                                        "an independent reader resolving the emitted prefix blocks recovers the in-memory URI"))
RULES.setdefault("C11", []).append(Rule("C11.R11", "re-homing preserves the URI (shared with C03.R3)", 5, c03_r3, "F-OWN",
                                        "a name loaded under an inner rebinding of a prefix keeps its URI through re-serialisation"))
RULES.setdefault("C06", []).append(Rule("C06.R9", "a prefix that is already bound - the built-in prov/xsd/xsi included - is never rebound (shared with C03.R2): PROV-N hard-codes xsd: for datatypes", 2, c03_r2, "F-PATH",
                                        "the xsd: the PROV-N writer prints for %% xsd:double etc. always denotes XML Schema"))


def c18_r10(ctx: Ctx, rule):
    """ProvBundle.add_namespace is a pure delegate: every normal path through it calls the manager's add_namespace, which is where
    an alias prefix for an already known URI is recorded (the renamed-prefix memo).  A shortcut that returns the known namespace
    skips that bookkeeping and later 'alias:local' lookups fail."""
    res = RuleResult()
    q = BUNDLE + ".add_namespace"
    fi = ctx.fn(q)
    g = get_cfg(ctx, q)
    calls = [c for c in calls_in(fi.node) if call_name(c) == "add_namespace" and isinstance(c.func, ast.Attribute) and "namespaces" in norm(c.func.value)]
    if not calls:
        # delegated through a helper of the same class?
        for q2 in ctx.helper_closure(q, 1)[1:]:
            calls += [c for c in calls_in(fi.node) if call_name(c) == q2.rsplit(".", 1)[1]]
    if not calls:
        raise AnalysisError("ProvBundle.add_namespace does not call the manager's add_namespace")
    cn = {n.id for c in calls for n in g.node_containing(c)}
    escapes = g.exists_path(g.entry, g.exit, avoid=lambda m: m.id in cn, labels_excluded=("exc", "raise"))
    res.ob("ProvBundle.add_namespace: %d delegating call(s); every normal path passes through one: %s" % (len(calls), not escapes))
    if escapes:
        path = g.find_path(g.entry, g.exit, avoid=lambda m: m.id in cn, labels_excluded=("exc", "raise")) or []
        where = next((n.stmt for n, _ in reversed(path) if n.stmt is not None), fi.node)
        res.fail(rule.id, "add_namespace-bypasses-manager", ctx.loc(q, where),
                 "ProvBundle.add_namespace can return (`%s`) without calling the manager's add_namespace: a second prefix for a known URI is never recorded" % norm(where)[:50],
                 "d.add_namespace('ex', U); d.entity('ex:e1'); d.add_namespace('alias', U); d.get_record('alias:e1') returns [] while the other spellings find the record")
    return res


RULES.setdefault("C18", []).append(Rule("C18.R10", "ProvBundle.add_namespace always reaches the manager's add_namespace (no shortcut return)", 1, c18_r10, "F-PATH",
                                        "every declared prefix, aliases of known URIs included, resolves in lookups"))
RULES.setdefault("C03", []).append(Rule("C03.R12", "ProvBundle.add_namespace always reaches the manager's add_namespace (shared with C18.R10)", 1, c18_r10, "F-PATH",
                                        "every declared prefix resolves to the URI it was declared for"))


# ------------------------------------------------------------------------------------------ every rule of this module sees NamespaceManager
# with its private helpers inlined into their callers (sa/inline.py): must-facts, value provenance and store pairing are then the
# same whether or not a block of add_namespace / valid_qualified_name has been extracted into a helper method.
def resolver_cache_rule(ctx: Ctx, rule):
    """A table into which the *resolver* (valid_qualified_name and the private methods it delegates to - not the registrar) writes
    its own answers is a result cache.  Two necessary conditions for such a cache to keep clause (c):
    (a) it never holds an answer obtained from another scope (`self.parent.valid_qualified_name(..)`): that scope changes without
        this one hearing of it;
    (b) wherever state the resolver reads is written (the manager's own dict, the default namespace, the renamed-prefix table), the
        cache is emptied on every path through that write.
    Vacuous when the resolver keeps no such table (today)."""
    res = RuleResult()
    ft, owned, default = manager_fields(ctx)
    registrars = {"add_namespace", "add_namespaces", "set_default_namespace", "__init__"} | set(unused_prefix_summary(ctx))
    methods = ctx.p.classes[NSM].methods
    rc = [q for q in ctx.helper_closure(NSM + ".valid_qualified_name", 2) if q.startswith(NSM + ".") and q.rsplit(".", 1)[1] not in registrars]
    # result caches: fields of the manager the resolver stores into under a key
    caches = {}
    for q in rc:
        for n in walk_function(ctx.fn(q).node):
            tgt = None
            if isinstance(n, ast.Assign):
                for t in n.targets:
                    if isinstance(t, ast.Subscript) and isinstance(t.value, ast.Attribute) and norm(t.value.value) == "self":
                        tgt = (t.value.attr, n.value)
            elif isinstance(n, ast.Call) and call_name(n) == "setdefault" and isinstance(n.func.value, ast.Attribute) and norm(n.func.value.value) == "self" and len(n.args) == 2:
                tgt = (n.func.value.attr, n.args[1])
            if tgt and tgt[0] in ft:
                caches.setdefault(tgt[0], []).append((q, n, tgt[1]))
    res.ob("tables the resolver (%s) writes its answers into: %s" % ([short(q) for q in rc], sorted(caches) or "none"), nontrivial=bool(caches))
    if not caches:
        return res
    # what the resolver reads
    reads = set()
    reads_self_dict = False
    for q in rc:
        for n in walk_function(ctx.fn(q).node):
            if isinstance(n, ast.Attribute) and norm(n.value) == "self" and isinstance(n.ctx, ast.Load) and n.attr in ft:
                reads.add(n.attr)
            if isinstance(n, ast.Subscript) and norm(n.value) == "self" or (isinstance(n, ast.Compare) and any(norm(c) == "self" for c in n.comparators)) or \
               (isinstance(n, ast.Call) and isinstance(n.func, ast.Attribute) and norm(n.func.value) == "self" and n.func.attr in ("values", "items", "keys", "get")):
                reads_self_dict = True
    for F, stores in sorted(caches.items()):
        # (a) answers from another scope
        def foreign_calls(q, expr, depth=0):
            out = []
            fi = ctx.fn(q)
            expr = resolve_local(fi.node, expr) if isinstance(expr, ast.Name) else expr
            cands = [expr]
            if isinstance(expr, ast.Name):
                cands = [d for d in all_assignments(fi.node, expr.id) if d is not None]
            for e in cands:
                for c in [x for x in ast.walk(e) if isinstance(x, ast.Call) and isinstance(x.func, ast.Attribute)]:
                    recv = norm(c.func.value)
                    if c.func.attr in methods and recv != "self" and recv.startswith("self."):
                        out.append((q, c))
                    elif c.func.attr in methods and recv == "self" and depth < 2 and c.func.attr not in registrars:
                        hq = methods[c.func.attr]
                        for r in [x for x in walk_function(ctx.fn(hq).node) if isinstance(x, ast.Return) and x.value is not None]:
                            out += foreign_calls(hq, r.value, depth + 1)
            return out
        for q, n, val in stores:
            fc = foreign_calls(q, val)
            res.ob("%s: `%s` can hold an answer of another scope: %s" % (short(q), norm(n)[:60], bool(fc)))
            for fq, c in fc[:1]:
                res.fail(rule.id, "foreign-scope-answer-cached::%s" % F, ctx.loc(fq, c),
                         "the resolver keeps in self.%s what `%s` answered: that scope's namespaces change without this cache being emptied" % (F, norm(c)[:60]),
                         "a bundle resolves 'e1' through its document's default namespace; the document's default is then set to another URI: the bundle still resolves 'e1' to the old URI, lookups by string and by URI disagree")
        # (b) every write of resolver-read state empties the cache
        def clears(fnode):
            out = []
            for x in walk_function(fnode):
                if isinstance(x, ast.Call) and isinstance(x.func, ast.Attribute) and x.func.attr == "clear" and norm(x.func.value) == "self." + F:
                    out.append(x)
                if isinstance(x, ast.Assign) and any(norm(t) == "self." + F for t in x.targets):
                    out.append(x)
            return out
        always_clearing = {m for m, mq in methods.items() if any(any(c is st or (isinstance(st, ast.Expr) and st.value is c) for st in ctx.fn(mq).node.body) for c in clears(ctx.fn(mq).node))}
        writes = []
        for q, n, how, key in self_dict_writes(ctx):
            if reads_self_dict and not q.endswith(".__init__"):
                writes.append((q, n, "self[%s]" % (norm(key) if key is not None else "..")))
        for sx in mutation_sites(ctx, (reads | default) - {F}):
            if sx.func.startswith(NSM + ".") and not sx.func.endswith(".__init__") and sx.receiver == "self":
                writes.append((sx.func, sx.node, sx.text[:40]))
        for q, n, what in writes:
            fi = ctx.fn(q)
            g = get_cfg(ctx, q)
            cl = clears(fi.node) + [c for c in calls_in(fi.node) if isinstance(c.func, ast.Attribute) and norm(c.func.value) == "self" and c.func.attr in always_clearing]
            cl_ids = set()
            for c in cl:
                try:
                    cl_ids.add(node_of(g, c).id)
                except Exception:
                    pass
            try:
                wn = node_of(g, n)
            except Exception:
                continue
            before = g.find_path(g.entry, wn, avoid=lambda x: x.id in cl_ids, labels_excluded=("exc", "raise")) is not None if wn.id not in cl_ids else False
            after = any(g.find_path(wn, ex, avoid=lambda x: x.id in cl_ids and x.id != wn.id, labels_excluded=("exc", "raise")) is not None for ex in [g.exit]) if wn.id not in cl_ids else False
            ok = not (before and after)
            res.ob("%s: write `%s` of state the resolver reads: self.%s emptied on every path through it: %s" % (short(q), what, F, ok))
            if not ok:
                res.fail(rule.id, "cache-not-emptied::%s::%s" % (F, q), ctx.loc(q, n),
                         "%s writes %s, which the resolver reads, on a path that never empties the result cache self.%s" % (short(q), what, F),
                         "a bare name is looked up while the scope has no default namespace (None is cached); the scope then adopts a default from an un-prefixed QualifiedName: the bare name it has just handed out still resolves to None")
    return res


RULES.setdefault("C03", []).append(Rule("C03.R14", "a result cache of the resolver never holds another scope's answer and is emptied wherever resolver-read state is written", 0, resolver_cache_rule, "F-PATH",
                                        "clause (c): a name printed by the scope resolves the same way after any later registration or default-namespace change"))
RULES.setdefault("C18", []).append(Rule("C18.R13", "a result cache of the resolver never holds another scope's answer and is emptied with the state it depends on (shared with C03.R14)", 0, resolver_cache_rule, "F-PATH",
                                        "get_record by string, by QualifiedName and by full URI keep agreeing after the document's namespaces change"))


def registrar_total_rule(ctx: Ctx, rule):
    """Clause (b): a clash yields a fresh prefix - registering a namespace never fails, and it is all-or-nothing.  In
    NamespaceManager.add_namespace and the private methods it delegates to there is no `raise`, and nothing that raises under a
    stricter run-time configuration (`warnings.warn` under -W error, `assert` without -O) stands between the first and the last
    store of one registration: update(), flattened() and every reader register namespaces from several sources, three sources that
    want one prefix are as legal as two, and a registration interrupted half-way leaves the renamed-namespace memo pointing at a
    namespace that was never bound."""
    res = RuleResult()
    aq = NSM + ".add_namespace"
    if aq not in ctx.p.functions:
        raise AnalysisError("anchor vanished: %s" % aq)
    n = 0
    for q in ctx.helper_closure(aq, 2):
        if not q.startswith(NSM + "."):
            continue
        fi = ctx.fn(q)
        for x in walk_function(fi.node):
            what = None
            if isinstance(x, ast.Raise):
                what = "raise %s" % (norm(x.exc)[:40] if x.exc is not None else "")
            elif isinstance(x, ast.Assert):
                what = "assert %s" % norm(x.test)[:40]
            elif isinstance(x, ast.Call):
                r = ctx.p.resolve_dotted(fi.module, x.func) if dotted(x.func) else None
                if r and r[0] == "ext" and r[1] in ("warnings.warn", "warnings.warn_explicit"):
                    what = "warnings.warn(..) (an exception under -W error)"
            if what is None:
                continue
            n += 1
            res.ob("%s: %s" % (short(q), what))
            res.fail(rule.id, "registration-can-fail::%s" % q, ctx.loc(q, x),
                     "%s can fail with `%s`: registering a namespace is total (a clash is answered with a fresh prefix) and all-or-nothing" % (short(q), what),
                     "three sources binding one prefix to three URIs (update() / flattened() / a reader): the third registration raises and leaves the target half updated; or, interrupted between its stores, the manager hands out a prefix it never declared")
    res.ob("statements that can make a registration fail in %s and its helpers: %d" % (short(aq), n))
    return res


RULES.setdefault("C03", []).append(Rule("C03.R15", "registering a namespace never fails and is all-or-nothing: no raise / assert / warnings.warn in add_namespace and its helpers", 1, registrar_total_rule, "F-PATH",
                                        "clause (b): a clashing prefix yields a fresh prefix, however many times it has clashed before"))
RULES.setdefault("C09", []).append(Rule("C09.R16", "registering a namespace never fails (shared with C03.R15): merging sources that want one prefix always succeeds", 1, registrar_total_rule, "F-PATH",
                                        "flattened() / update() / add_bundle() of any number of sources with clashing prefixes return their result"))


def _with_inlined_manager(fn):
    def run(ctx, rule):
        from ..inline import inlined_view

        view = inlined_view(ctx, NSM, exclude=frozenset(unused_prefix_summary(ctx)))  # fresh-key helpers stay calls: they have a summary
        res = fn(view, rule)
        info = view._cache.get("inline-info", {})
        if info.get("absorbed"):
            res.exceptions.append("NamespaceManager helpers analysed inlined in their callers: %s" % [short(q) for q in info["absorbed"]])
        return res

    run.__name__ = getattr(fn, "__name__", "rule")
    run.__doc__ = fn.__doc__
    return run


for _rules in RULES.values():
    for _r in _rules:
        _r.fn = _with_inlined_manager(_r.fn)


RULES.setdefault("C18", []).append(Rule("C18.R11", "no lossy prefix strip (shared with C03.R6): a full-URI lookup key is cut at the front only", 0, _with_inlined_manager(c03_r6), "F-TAINT",
                                        "get_record('<namespace URI><local part containing the namespace URI again>') finds the record"))


# ------------------------------------------------------------------------------------------ URIs and names are opaque text
TEXT_REWRITERS = {"urllib.parse.quote", "urllib.parse.quote_plus", "urllib.parse.unquote", "urllib.parse.unquote_plus", "urllib.parse.urlunsplit",
                  "urllib.parse.urlunparse", "urllib.parse.urljoin", "urllib.parse.urldefrag", "urllib.parse.urlsplit", "urllib.parse.urlparse",
                  "urllib.parse.quote_from_bytes", "urllib.request.pathname2url", "urllib.request.url2pathname", "unicodedata.normalize",
                  "html.unescape", "urllib.quote", "urllib.unquote", "urlparse.urlparse", "urlparse.urlsplit", "posixpath.normpath", "os.path.normpath"}


def opaque_text_rule(ctx: Ctx, rule):
    """The library treats URIs, prefixes and local names as opaque strings: `uri = namespace.uri + localpart`, equality is string
    equality.  Any percent-(de)coding, URL splitting/re-assembling or Unicode normalisation of such text changes URIs (quote is
    not idempotent; urlunsplit(urlsplit(u)) drops an empty '#'; NFC merges distinct names).  Who may call these functions: only
    the code that turns a *destination path or file: URL* into a local file name (closure of ProvDocument.serialize/deserialize)."""
    res = RuleResult()
    DOC_ = M + ".ProvDocument"
    allowed = set()
    for e in (DOC_ + ".serialize", DOC_ + ".deserialize", "prov.read"):
        if e in ctx.p.functions:
            allowed |= set(ctx.helper_closure(e, 2))
    allowed = {a for a in allowed if not a.startswith("prov.identifier.") and ".NamespaceManager." not in a and ".ProvRecord." not in a}
    n_calls = 0
    for q, fi in ctx.p.functions.items():
        if fi.module.startswith("scripts.") or isinstance(fi.node, ast.Lambda):
            continue
        local_imports = {}
        for st in ast.walk(fi.node):
            if isinstance(st, ast.ImportFrom) and st.module:
                for al in st.names:
                    local_imports[al.asname or al.name] = "%s.%s" % (st.module, al.name)
            elif isinstance(st, ast.Import):
                for al in st.names:
                    local_imports[al.asname or al.name.split(".")[0]] = al.name if al.asname else al.name.split(".")[0]
        for c in calls_in(fi.node):
            origin = None
            r = ctx.p.resolve_dotted(fi.module, c.func) if dotted(c.func) else None
            if r and r[0] == "ext":
                origin = r[1]
            d0 = dotted(c.func)
            if origin is None and d0 and d0.split(".")[0] in local_imports:
                origin = ".".join([local_imports[d0.split(".")[0]]] + d0.split(".")[1:])
            elif isinstance(c.func, ast.Attribute) and c.func.attr == "geturl":
                origin = "urllib.parse.<result>.geturl"
            if origin is None or not (origin in TEXT_REWRITERS or origin.endswith(".geturl")):
                continue
            n_calls += 1
            ok = q in allowed
            res.ob("%s calls %s: inside the file-destination code: %s" % (short(q) if q.count(".") > 2 else q, origin, ok))
            if not ok:
                res.fail(rule.id, "uri-text-rewritten::%s::%s" % (q, origin), ctx.loc(q, c),
                         "%s passes text through %s (%s): URIs, prefixes and names are opaque strings everywhere outside the file-destination code" % (short(q) if q.count(".") > 2 else q, origin, norm(c)[:50]),
                         "a URI containing '%20', a non-ASCII character, a trailing '#' or a decomposed accent comes back (or is compared) as a different URI")
    res.ob("calls to URL / Unicode rewriting functions in the package: %d (allowed only in %s)" % (n_calls, sorted(short(a) for a in allowed)))
    if DOC_ + ".serialize" not in ctx.p.functions:
        raise AnalysisError("anchor vanished: ProvDocument.serialize")
    return res


for _p, _r, _d in (("C03", "C03.R13", "resolving, re-homing and printing never change a URI"), ("C06", "C06.R10", "the PROV-N text denotes the URIs the document holds"),
                   ("C01", "C01.R12", "URIs survive the JSON round trip unchanged"), ("C02", "C02.R10", "URIs survive the XML round trip unchanged"),
                   ("C07", "C07.R9", "every URI is unchanged by the RDF round trip"), ("C08", "C08.R11", "unified() re-creates namespaces with the same URIs"),
                   ("C09", "C09.R11", "flattened/update/add_bundle re-home names without changing URIs"), ("C10", "C10.R11", "emitted URIs are the in-memory URIs"),
                   ("C11", "C11.R13", "loaded URIs are the URIs of the text")):
    RULES.setdefault(_p, []).append(Rule(_r, "URIs, prefixes and names are opaque text: URL / Unicode rewriting functions are called only by the file-destination code", 1, opaque_text_rule, "F-WRITE", _d))

RULES.setdefault("C01", []).append(Rule("C01.R17", "a 'prefix:local' string is cut at its first colon, and compaction is the last resort (shared with C03.R8): the JSON reader resolves the names the writer printed", 1, _with_inlined_manager(c03_r8), "F-PATH",
                                        "names whose local part contains ':' survive the JSON round trip"))
