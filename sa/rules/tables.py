"""F-TABLE rules: folded repository tables against each other and against the spec tables.

Every rule discovers *which* table a function uses from the function itself (the dict it
subscripts), so renaming a table, hoisting it, or building it another way does not change
the verdict as long as it folds to the same mapping.
"""
from __future__ import annotations

import ast

from ..ctx import (C, DOT, GR, JS, M, RD, XM, Ctx, arg_of, call_name, calls_in, const_strings, local_names,
                   qn_local, walk_function)
from ..fold import ClassRef, Ext, ExtCall, FuncRef, NS, QN, is_unknown
from ..loader import AnalysisError, dotted, norm
from ..report import Rule, RuleResult

RULES = {}


def rule(prop, rid, title, floor, family="F-TABLE", decides=""):
    def deco(fn):
        RULES.setdefault(prop, []).append(Rule(rid, title, floor, fn, family, decides))
        return fn

    return deco


# ------------------------------------------------------------------------------------------- helpers
def record_kinds(ctx: Ctx):
    return ctx.rec_cls()  # QN -> class qual


def relation_kinds(ctx: Ctx):
    rel = "prov.model.ProvRelation"
    return {t: c for t, c in ctx.rec_cls().items() if ctx.p.is_subclass(c, rel)}


def all_formal(ctx: Ctx):
    out = []
    for t, c in ctx.rec_cls().items():
        for a in ctx.formal_attributes(c):
            if a not in out:
                out.append(a)
    return out


def tables_used(ctx: Ctx, qual, pred, kinds=("index", "get")):
    """Distinct folded dict tables looked up in function `qual` that satisfy pred(table)."""
    seen = []
    for q2 in ctx.helper_closure(qual):
        for kind, v, text, key, node in ctx.table_lookups(q2):
            if kind in kinds and isinstance(v, dict) and pred(v):
                if not any(v is s[0] or v == s[0] for s in seen):
                    seen.append((v, text, node))
    return seen


def is_kind_to_label(ctx):
    kinds = set(record_kinds(ctx))

    def pred(d):
        return len(d) > 0 and all(isinstance(k, QN) for k in d) and all(isinstance(v, str) for v in d.values()) and len(kinds & set(d)) >= 3

    return pred


def is_label_to_kind(ctx):
    formal = set(all_formal(ctx))

    def pred(d):
        # a str -> QualifiedName table that is not the formal-attribute key table
        return len(d) > 3 and all(isinstance(k, str) for k in d) and all(isinstance(v, QN) for v in d.values()) and not (formal & set(d.values()))

    return pred


def one(tables, what):
    if len(tables) != 1:
        raise AnalysisError("expected exactly one %s, found %d (%s)" % (what, len(tables), [t[1] for t in tables]))
    return tables[0]


def membership_branches(ctx: Ctx, qual):
    """For each `if X in S` / `A if X in S else B` in the function where S folds to a set of
    qualified names: (subject text, set value, set text, calls in true arm, calls in false arm, node)."""
    out = []
    for q2 in ctx.helper_closure(qual):
        out += _membership_branches_one(ctx, q2)
    return out


def _membership_branches_one(ctx: Ctx, qual):
    fi = ctx.fn(qual)
    out = []
    for n in walk_function(fi.node):
        if isinstance(n, (ast.If, ast.IfExp)):
            tests = [n.test]
            if isinstance(n.test, ast.BoolOp) and isinstance(n.test.op, ast.And):
                tests = list(n.test.values)
            for t in tests:
                if isinstance(t, ast.Compare) and len(t.ops) == 1 and isinstance(t.ops[0], ast.In):
                    try:
                        s = ctx.eval_in(qual, t.comparators[0])
                    except AnalysisError:
                        continue
                    if isinstance(s, (list, tuple)) and s and all(isinstance(x, QN) for x in s):
                        s = set(s)
                    if isinstance(s, (set, frozenset)) and s and all(isinstance(x, QN) for x in s):
                        body = n.body if isinstance(n.body, list) else [n.body]
                        orelse = n.orelse if isinstance(n.orelse, list) else [n.orelse]
                        tc = {call_name(c) for b in body for c in ast.walk(b) if isinstance(c, ast.Call)}
                        fc = set()
                        for b in orelse:
                            if isinstance(b, ast.If) and isinstance(n, ast.If):
                                continue  # elif: belongs to the next test
                            fc |= {call_name(c) for c in ast.walk(b) if isinstance(c, ast.Call)}
                        out.append((norm(t.left), set(s), norm(t.comparators[0]), tc, fc, n))
    return out


def locals_of(qs):
    return sorted(qn_local(q) for q in qs)


def result_kind(ctx: Ctx, v):
    """Python kind produced by a datatype parser value (str/int/float/bool/datetime/Identifier)."""
    if isinstance(v, Ext) and v.name in ("str", "int", "float", "bool"):
        return v.name
    if isinstance(v, ClassRef):
        if v.qual == "prov.identifier.Identifier":
            return "Identifier"
        if v.qual == "prov.identifier.QualifiedName":
            return "QualifiedName"
        return v.qual
    if isinstance(v, FuncRef):
        fi = ctx.fn(v.qual)
        kinds = set()
        for n in walk_function(fi.node):
            if isinstance(n, ast.Return) and n.value is not None:
                e = n.value
                if isinstance(e, ast.Constant):
                    if e.value is None:
                        continue
                    kinds.add(type(e.value).__name__)
                elif isinstance(e, ast.Call):
                    d = dotted(e.func) or ""
                    if d.endswith("parser.parse") or d.endswith("datetime.fromisoformat") or d.endswith("datetime.strptime"):
                        kinds.add("datetime")
                    elif d in ("int", "float", "str", "bool"):
                        kinds.add(d)
                    else:
                        r = ctx.p.resolve_dotted(fi.module, e.func)
                        if r and r[0] == "class" and r[1] == "prov.identifier.Identifier":
                            kinds.add("Identifier")
                        else:
                            kinds.add("?" + d)
                else:
                    kinds.add("?" + norm(e))
        if len(kinds) == 1:
            return kinds.pop()
        return "?mixed:" + ",".join(sorted(kinds))
    return "?" + repr(v)


def family_of(spec_family, local):
    for kind, names in spec_family.items():
        if kind.startswith("_"):
            continue
        if local in names or ("xsd:" + local) in names:
            return kind
    return None


# ===================================================================================== C01
@rule("C01", "C01.R1", "record-kind keys of the JSON writer and reader are mutually inverse", 18,
      decides="every record kind is written under a key the reader maps back to the same kind")
def c01_r1(ctx: Ctx, rule):
    res = RuleResult()
    enc, enc_text, enc_node = one(tables_used(ctx, JS + ".encode_json_container", is_kind_to_label(ctx)), "kind->key table in encode_json_container")
    dec, dec_text, dec_node = one(tables_used(ctx, JS + ".decode_json_container", is_label_to_kind(ctx)), "key->kind table in decode_json_container")
    kinds = record_kinds(ctx)
    seen_labels = {}
    for t in kinds:
        site = "kind %s: %s -> %s -> %s" % (t.s, enc_text, dec_text, "?")
        if t not in enc:
            res.ob(site)
            res.fail(rule.id, "json-kind-key::%s::missing-in-writer" % t.local, ctx.loc(JS, enc_node),
                     "record kind %s has no key in %s" % (t.s, enc_text), "any document with a %s record raises KeyError on export" % t.local)
            continue
        label = enc[t]
        back = dec.get(label)
        res.ob("kind %s: %s[%s]=%r; %s[%r]=%s" % (t.s, enc_text, t.local, label, dec_text, label, back.s if isinstance(back, QN) else back))
        if back != t:
            res.fail(rule.id, "json-kind-key::%s::not-inverse" % t.local, ctx.loc(JS, dec_node),
                     "writer key %r for %s is read back as %s" % (label, t.s, back.s if isinstance(back, QN) else back),
                     "a document with one %s record reloads with another record kind (or KeyError)" % t.local)
        if label in seen_labels:
            res.fail(rule.id, "json-kind-key::%s::collision" % t.local, ctx.loc(JS, enc_node),
                     "kinds %s and %s share the key %r" % (t.s, seen_labels[label].s, label))
        seen_labels[label] = t
    bundle_t = QN(ctx.prov_ns(), "Bundle")
    for label, t in dec.items():
        if t not in kinds and t != bundle_t:
            res.fail(rule.id, "json-kind-key::%s::unreadable" % label, ctx.loc(JS, dec_node),
                     "reader accepts key %r -> %s which has no record class" % (label, t.s))
    res.samples = [{"site": ctx.loc(JS, enc_node), "writer_table": enc_text, "reader_table": dec_text, "rows": len(kinds)}]
    return res


def json_partition(ctx: Ctx):
    """(writer_ref_set, writer_time_set, reader_guard_set, reader_ref_set, nodes)"""
    enc_ref = enc_time = None
    for subj, s, text, tc, fc, node in membership_branches(ctx, JS + ".encode_json_container"):
        if "isoformat" in tc and "str" not in tc:
            enc_time = (s, text, node)
        elif "str" in tc and "isoformat" not in tc and "encode_json_representation" not in tc:
            enc_ref = (s, text, node)
    dec_guard = dec_ref = None
    for subj, s, text, tc, fc, node in membership_branches(ctx, JS + ".decode_json_container"):
        if "valid_qualified_name" in tc and "parse_xsd_datetime" in fc and isinstance(node, ast.IfExp):
            dec_ref = (s, text, node)
        elif isinstance(node, ast.If) and ("parse_xsd_datetime" in tc or "valid_qualified_name" in tc):
            if dec_guard is None or len(s) > len(dec_guard[0]):
                dec_guard = (s, text, node)
    if dec_ref is None:
        # statement form: if attr in QNAMES: value = valid_qualified_name(..) else: value = parse_xsd_datetime(..)
        for subj, s, text, tc, fc, node in membership_branches(ctx, JS + ".decode_json_container"):
            if isinstance(node, ast.If) and "valid_qualified_name" in tc and "parse_xsd_datetime" in fc and "parse_xsd_datetime" not in tc:
                dec_ref = (s, text, node)
    if enc_ref and not enc_time and dec_guard and dec_ref:
        # no branch prints times with isoformat(): report it through the partition comparison (the writer treats them as names)
        enc_time = (set(), "<no isoformat() arm>", enc_ref[2])
    if not (enc_ref and enc_time and dec_guard and dec_ref):
        raise AnalysisError("cannot extract the reference/time partition of the JSON codec "
                            "(writer ref=%s time=%s; reader guard=%s ref=%s)" % (bool(enc_ref), bool(enc_time), bool(dec_guard), bool(dec_ref)))
    return enc_ref, enc_time, dec_guard, dec_ref


@rule("C01", "C01.R2", "formal-attribute keys and the reference/time partition agree between JSON writer and reader", 26,
      decides="every formal attribute is written under a key the reader maps to the same attribute and decodes with the matching coercion")
def c01_r2(ctx: Ctx, rule):
    res = RuleResult()
    formal = all_formal(ctx)
    fset = set(formal)

    def is_attr_key_table(d):
        return len(d) > 0 and all(isinstance(k, str) for k in d) and all(isinstance(v, QN) for v in d.values()) and len(fset & set(d.values())) >= 3

    tab, tab_text, tab_node = one(tables_used(ctx, JS + ".decode_json_container", is_attr_key_table, kinds=("index", "get")), "key->formal-attribute table in decode_json_container")
    enc_ref, enc_time, dec_guard, dec_ref = json_partition(ctx)
    for a in formal:
        got = tab.get(a.s)
        res.ob("formal %s: reader %s[%r] = %s" % (a.s, tab_text, a.s, got.s if isinstance(got, QN) else got))
        if got != a:
            res.fail(rule.id, "json-formal-key::%s" % a.local, ctx.loc(JS, tab_node),
                     "the key %r the writer prints for %s is resolved by the reader to %s" % (a.s, a.s, got.s if isinstance(got, QN) else got),
                     "a relation using %s reloads with that argument lost or under another role" % a.local)
        in_ref_w, in_time_w = a in enc_ref[0], a in enc_time[0]
        in_ref_r = a in dec_guard[0] and a in dec_ref[0]
        in_time_r = a in dec_guard[0] and a not in dec_ref[0]
        if (in_ref_w, in_time_w) != (in_ref_r, in_time_r) or not (in_ref_w or in_time_w):
            res.fail(rule.id, "json-partition::%s" % a.local, ctx.loc(JS, dec_ref[2]),
                     "writer treats %s as %s, reader as %s" % (
                         a.s, "reference" if in_ref_w else "time" if in_time_w else "plain value",
                         "reference" if in_ref_r else "time" if in_time_r else "plain value"),
                     "a record with %s set: the value is re-read through the wrong coercion (name as time or time as name)" % a.local)
    for k, v in tab.items():
        if v not in fset:
            res.notes.append("reader key table has an entry %r -> %s that is not a formal attribute of any record class" % (k, v.s))
    res.samples = [{"site": ctx.loc(JS, dec_ref[2]), "writer_ref": enc_ref[1], "writer_time": enc_time[1], "reader_guard": dec_guard[1], "reader_ref": dec_ref[1]}]
    return res


ENC_JSON = [JS + ".encode_json_document", JS + ".encode_json_container", JS + ".encode_json_representation", JS + ".literal_json_representation"]
DEC_JSON = [JS + ".decode_json_document", JS + ".decode_json_container", JS + ".decode_json_representation"]


def string_keys_written(ctx: Ctx, qual):
    """String constants used as keys of JSON objects the function builds: subscript stores / loads on
    non-table containers and dict-literal keys."""
    fi = ctx.fn(qual)
    keys = {}
    for n in walk_function(fi.node):
        if isinstance(n, ast.Subscript):
            try:
                k = ctx.eval_in(qual, n.slice)
            except AnalysisError:
                continue
            if isinstance(k, str):
                root = n.value
                while isinstance(root, (ast.Attribute, ast.Subscript)):
                    root = root.value
                is_local = isinstance(root, ast.Name) and root.id in local_names(fi.node)
                try:
                    base = None if is_local else ctx.eval_in(qual, n.value)
                except AnalysisError:
                    base = None
                if isinstance(base, dict) and not is_unknown(base):
                    continue  # lookup in a folded repository table, not a JSON key
                keys.setdefault(k, n)
        elif isinstance(n, ast.Dict):
            for kx in n.keys:
                if kx is None:
                    continue
                try:
                    k = ctx.eval_in(qual, kx)
                except AnalysisError:
                    continue
                if isinstance(k, str):
                    keys.setdefault(k, n)
    return keys


def string_keys_read(ctx: Ctx, qual):
    fi = ctx.fn(qual)
    keys = dict(string_keys_written(ctx, qual))
    for n in walk_function(fi.node):
        if isinstance(n, ast.Compare) and len(n.ops) == 1:
            for side in (n.left, n.comparators[0]):
                try:
                    k = ctx.eval_in(qual, side)
                except AnalysisError:
                    continue
                if isinstance(k, str) and isinstance(n.ops[0], (ast.Eq, ast.NotEq, ast.In, ast.NotIn)):
                    other = n.comparators[0] if side is n.left else n.left
                    try:
                        ov = ctx.eval_in(qual, other)
                    except AnalysisError:
                        ov = None
                    if isinstance(ov, (dict, set, frozenset, list, tuple, str)) and not is_unknown(ov):
                        continue
                    keys.setdefault(k, n)
        elif isinstance(n, ast.Call) and call_name(n) in ("get", "pop") and n.args:
            try:
                k = ctx.eval_in(qual, n.args[0])
            except AnalysisError:
                continue
            if isinstance(k, str):
                keys.setdefault(k, n)
    return keys


def json_envelope(ctx: Ctx):
    w, r = {}, {}
    encs, decs = [], []
    for q in ENC_JSON:
        encs += [x for x in ctx.helper_closure(q) if x not in encs and x.startswith(JS + ".")]
    for q in DEC_JSON:
        decs += [x for x in ctx.helper_closure(q) if x not in decs and x.startswith(JS + ".")]
    for q in encs:
        for k, n in string_keys_written(ctx, q).items():
            w.setdefault(k, (q, n))
    for q in decs:
        for k, n in string_keys_read(ctx, q).items():
            r.setdefault(k, (q, n))
    return w, r


@rule("C01", "C01.R4", "envelope and literal-object keys written by the JSON encoder are the ones the decoder reads", 6,
      decides="prefix/default/bundle and $/type/lang are spelled the same on both sides")
def c01_r4(ctx: Ctx, rule):
    res = RuleResult()
    w, r = json_envelope(ctx)
    for k, (q, n) in sorted(w.items()):
        res.ob("writer key %r (%s) read by decoder: %s" % (k, q.rsplit(".", 1)[1], k in r))
        if k not in r:
            res.fail(rule.id, "json-envelope::%s::never-read" % k, ctx.loc(q, n),
                     "the encoder writes the key %r but no decoder function reads it" % k,
                     "whatever is stored under %r (language tags, prefixes, bundles, datatypes) is silently dropped on reload" % k)
    for k, (q, n) in sorted(r.items()):
        if k not in w:
            res.notes.append("decoder reads key %r that the encoder never writes (foreign input only)" % k)
    return res


@rule("C01", "C01.R5", "anonymous-identifier sentinel: what the encoder mints is what the resolver maps to 'no identifier'", 2,
      decides="relations without identifier come back without identifier")
def c01_r5(ctx: Ctx, rule):
    res = RuleResult()
    # 1. the blank-node prefix the resolver maps to None
    vq = ctx.fn(M + ".NamespaceManager.valid_qualified_name")
    sentinels = []
    for n in walk_function(vq.node):
        if isinstance(n, ast.If) and isinstance(n.test, ast.Call) and call_name(n.test) == "startswith" and n.test.args:
            k = ctx.eval_in(vq.qual, n.test.args[0])
            returns_none = any(isinstance(s, ast.Return) and (s.value is None or (isinstance(s.value, ast.Constant) and s.value.value is None)) for s in n.body)
            if isinstance(k, str) and returns_none:
                sentinels.append((k, n))
    if not sentinels:
        raise AnalysisError("no blank-node branch (startswith(..) -> return None) found in NamespaceManager.valid_qualified_name")
    # 2. what the generators mint
    for gen in (JS + ".AnonymousIDGenerator.get_anon_id", RD + ".AnonymousIDGenerator.get_anon_id"):
        fi = ctx.fn(gen)
        minted = []
        for c in calls_in(fi.node):
            r = ctx.p.resolve_dotted(fi.module, c.func)
            if r and r[0] == "class" and r[1] == "prov.identifier.Identifier" and c.args:
                e = c.args[0]
                if isinstance(e, ast.BinOp) and isinstance(e.op, ast.Mod):
                    fmt = ctx.eval_in(gen, e.left)
                    if isinstance(fmt, str):
                        minted.append((fmt.split("%")[0], c))
                elif isinstance(e, ast.JoinedStr) and e.values and isinstance(e.values[0], ast.Constant):
                    minted.append((str(e.values[0].value), c))
                else:
                    v = ctx.eval_in(gen, e)
                    if isinstance(v, str):
                        minted.append((v, c))
        if not minted:
            raise AnalysisError("cannot find the identifier minted by %s" % gen)
        for prefix, c in minted:
            ok = any(prefix.startswith(s) for s, _ in sentinels)
            res.ob("%s mints %r...; resolver sentinels %s" % (gen, prefix, [s for s, _ in sentinels]))
            if not ok and gen.startswith(JS):
                res.fail(rule.id, "anon-sentinel::%s" % gen, ctx.loc(gen, c),
                         "anonymous identifiers start with %r which valid_qualified_name does not map to 'no identifier' (%s)" % (prefix, [s for s, _ in sentinels]),
                         "a relation without identifier reloads identified as %s1 in the default namespace" % prefix)
    # 3. the record identifier goes through the resolver when the record is re-created
    nr = ctx.fn(M + ".ProvBundle.new_record")
    ok = False
    from .paths import record_ctor_func

    for c in calls_in(nr.node):
        if record_ctor_func(ctx, nr.qual, c) is not None and len(c.args) >= 2:
            a = c.args[1]
            if isinstance(a, ast.Call) and call_name(a) == "valid_qualified_name":
                ok = True
    res.ob("new_record passes the identifier through valid_qualified_name: %s" % ok)
    if not ok:
        # maybe via a local variable
        for n in walk_function(nr.node):
            if isinstance(n, ast.Assign) and isinstance(n.value, ast.Call) and call_name(n.value) == "valid_qualified_name":
                ok = True
        if not ok:
            res.fail(rule.id, "anon-sentinel::new_record-does-not-resolve", ctx.loc(nr.qual, nr.node),
                     "ProvBundle.new_record no longer resolves the identifier through valid_qualified_name",
                     "'_:id1' from a PROV-JSON file becomes a real identifier")
    return res


def scope_reads(ctx: Ctx, qual):
    """Namespace-declaration reads in a container writer: list of (what, root text, node)."""
    out = []
    for q2 in ctx.helper_closure(qual, depth=1):
        out += _scope_reads_one(ctx, q2)
    return out


def _scope_reads_one(ctx: Ctx, qual):
    fi = ctx.fn(qual)
    out = []
    REG = {"get_registered_namespaces", "namespaces"}
    DEF = {"_default", "get_default_namespace", "default_ns_uri"}
    for n in walk_function(fi.node):
        if isinstance(n, ast.Attribute) and (n.attr in REG or n.attr in DEF):
            root = n.value
            # strip the manager hop: X._namespaces.get_registered_namespaces -> X
            while isinstance(root, ast.Attribute) and root.attr in ("_namespaces",):
                root = root.value
            out.append(("registered" if n.attr in REG else "default", norm(root), n))
    return out


@rule("C01", "C01.R7", "the JSON container writer declares the namespaces of the container it is writing", 2, family="F-SIB",
      decides="registered and default namespace are read from the bundle being encoded, not from another scope")
def c01_r7(ctx: Ctx, rule):
    res = RuleResult()
    q = JS + ".encode_json_container"
    fi = ctx.fn(q)
    p0 = fi.params[0]
    reads = scope_reads(ctx, q)
    kinds = {}
    for what, root, n in reads:
        res.ob("%s namespace read from %s" % (what, root))
        kinds.setdefault(what, []).append((root, n))
    for what in ("registered", "default"):
        if what not in kinds:
            res.fail(rule.id, "json-scope::%s::not-declared" % what, ctx.loc(q, fi.node),
                     "encode_json_container never reads the %s namespace(s) of its container" % what,
                     "names printed with that prefix / bare names re-resolve elsewhere on reload")
            continue
        for root, n in kinds[what]:
            if root != p0:
                res.fail(rule.id, "json-scope::%s::foreign-scope::%s" % (what, root), ctx.loc(q, n),
                         "the %s namespace is read from %s instead of the container being written (%s)" % (what, root, p0),
                         "a bundle with its own %s namespace: its names are printed under declarations of another scope" % what)
    return res


# ===================================================================================== C02
@rule("C02", "C02.R1", "PROV-XML element-name tables: injective, inverse, covered by the base-class table", 28,
      decides="every element name the writer can emit is read back to the same (sub)type and base record kind")
def c02_r1(ctx: Ctx, rule):
    res = RuleResult()
    wq = XM + ".ProvXMLSerializer._derive_record_label"
    rq = XM + ".ProvXMLSerializer.deserialize_subtree"
    W, wt, wn = one(tables_used(ctx, wq, is_kind_to_label(ctx)), "type->element table in _derive_record_label")
    R, rt, rn = one(tables_used(ctx, rq, is_label_to_kind(ctx)), "element->type table in deserialize_subtree")
    base = ctx.const(C, "PROV_BASE_CLS")
    kinds = record_kinds(ctx)
    inv = {}
    for t, name in W.items():
        back = R.get(name)
        res.ob("%s[%s]=%r; %s[%r]=%s; base=%s" % (wt, t.s, name, rt, name, getattr(back, "s", back), getattr(base.get(t), "s", None)))
        if name in inv:
            res.fail(rule.id, "xml-element::%s::collision" % name, ctx.loc(XM, wn), "types %s and %s share the element name %r" % (t.s, inv[name].s, name))
        inv[name] = t
        if back != t:
            res.fail(rule.id, "xml-element::%s::not-inverse" % t.local, ctx.loc(XM, rn),
                     "element <prov:%s> written for %s is read back as %s" % (name, t.s, getattr(back, "s", back)),
                     "a record written as <prov:%s> reloads as another type or raises KeyError" % name)
        if t not in base:
            res.fail(rule.id, "xml-element::%s::no-base" % t.local, ctx.loc(C, wn), "%s is not a key of PROV_BASE_CLS: the reader cannot map <prov:%s> to a record kind" % (t.s, name))
        elif base[t] not in kinds:
            res.fail(rule.id, "xml-element::%s::base-not-a-record" % t.local, ctx.loc(C, wn), "PROV_BASE_CLS[%s] = %s has no record class" % (t.s, base[t].s))
    for t, b in base.items():
        if t != b and t not in W:
            res.ob("subtype %s has an element name: False" % t.s)
            res.fail(rule.id, "xml-element::%s::subtype-without-element" % t.local, ctx.loc(XM, wn),
                     "subtype %s (base %s) has no element name in %s: _derive_record_label raises KeyError" % (t.s, b.s, wt),
                     "a record typed %s cannot be exported" % t.s)
    for t in kinds:
        if t not in W:
            res.fail(rule.id, "xml-element::%s::kind-without-element" % t.local, ctx.loc(XM, wn), "record kind %s has no element name" % t.s)
    return res


def unroll_for(ctx: Ctx, qual, loop: ast.For, pre_env):
    """Execute a for loop over a folded iterable with the folder (straight-line bodies only)."""
    fi = ctx.fn(qual)
    it = ctx.eval_in(qual, loop.iter, pre_env)
    items = ctx.f._iterate(it)
    if items is None:
        return None
    env = dict(pre_env)
    for item in items:
        ctx.f._assign(loop.target, item, env, fi.module)
        ctx.f._exec_block(loop.body, env, fi.module)
    return env


def written_default_namespaces(ctx: Ctx):
    """prefix -> URI the XML writer declares for the library's default namespaces (loop over DEFAULT_NAMESPACES unrolled)."""
    wq0 = XM + ".ProvXMLSerializer.serialize_bundle"
    written = {}
    for wq in ctx.helper_closure(wq0):
      wf = ctx.fn(wq)
      for n in walk_function(wf.node):
        if isinstance(n, ast.For):
            stores = [s for s in ast.walk(n) if isinstance(s, ast.Subscript) and isinstance(s.ctx, ast.Store) and isinstance(s.value, ast.Name)]
            if not stores:
                continue
            try:
                it = ctx.eval_in(wq, n.iter)
            except AnalysisError:
                continue
            if is_unknown(it) or ctx.f._iterate(it) is None:
                continue
            name = stores[0].value.id
            try:
                env = unroll_for(ctx, wq, n, dict(ctx.fenv(wq), **{name: {}}))
            except AnalysisError:
                env = None
            if env and isinstance(env.get(name), dict):
                written.update({k: v for k, v in env[name].items() if isinstance(v, str)})
    if not written:
        raise AnalysisError("cannot fold the default-namespace declarations written by serialize_bundle")
    return written


@rule("C02", "C02.R6", "the XSD namespace special case: the URI the writer declares is the one the reader recognises", 2,
      decides="xsi:type='xsd:...' values are resolved back into the library's xsd namespace")
def c02_r6(ctx: Ctx, rule):
    res = RuleResult()
    xsd = ctx.const(C, "XSD")
    prov = ctx.prov_ns()
    wq = XM + ".ProvXMLSerializer.serialize_bundle"
    wf = ctx.fn(wq)
    written = written_default_namespaces(ctx)
    for n in []:
        if isinstance(n, ast.For):
            stores = [s for s in ast.walk(n) if isinstance(s, ast.Subscript) and isinstance(s.ctx, ast.Store) and isinstance(s.value, ast.Name)]
            if not stores:
                continue
            try:
                it = ctx.eval_in(wq, n.iter)
            except AnalysisError:
                continue
            if is_unknown(it) or ctx.f._iterate(it) is None:
                continue
            name = stores[0].value.id
            try:
                env = unroll_for(ctx, wq, n, dict(ctx.fenv(wq), **{name: {}}))
            except AnalysisError:
                env = None
            if env and isinstance(env.get(name), dict):
                written.update({k: v for k, v in env[name].items() if isinstance(v, str)})
    if not written:
        raise AnalysisError("cannot fold the default-namespace declarations written by serialize_bundle")
    rq = XM + ".xml_qname_to_QualifiedName"
    rf = ctx.fn(rq)
    special = {}
    for rq2, n in [(q2, n) for q2 in ctx.helper_closure(rq) if q2.startswith(XM + ".") for n in walk_function(ctx.fn(q2).node)]:
        if isinstance(n, ast.If) and isinstance(n.test, ast.Compare) and len(n.test.ops) == 1 and isinstance(n.test.ops[0], ast.Eq):
            for side in (n.test.left, n.test.comparators[0]):
                try:
                    k = ctx.eval_in(rq2, side)
                except AnalysisError:
                    continue
                if isinstance(k, str):
                    for s in n.body:
                        cands = []
                        if isinstance(s, ast.Assign):
                            cands.append(s.value)
                        elif isinstance(s, ast.Return) and s.value is not None:
                            cands.append(s.value.value if isinstance(s.value, ast.Subscript) else s.value)
                        for cexpr in cands:
                            try:
                                v = ctx.eval_in(rq2, cexpr)
                            except AnalysisError:
                                v = None
                            if isinstance(v, NS):
                                special[k] = v
    # the same special cases kept as a table {declared URI: library namespace} that the reader indexes
    for rq2 in [q2 for q2 in ctx.helper_closure(rq) if q2.startswith(XM + ".")]:
        for n in walk_function(ctx.fn(rq2).node):
            tbl = None
            if isinstance(n, ast.Subscript) and isinstance(n.ctx, ast.Load):
                tbl = n.value
            elif isinstance(n, ast.Call) and isinstance(n.func, ast.Attribute) and n.func.attr == "get":
                tbl = n.func.value
            if tbl is None or not isinstance(tbl, (ast.Name, ast.Attribute)):
                continue
            try:
                tv = ctx.eval_in(rq2, tbl)
            except AnalysisError:
                continue
            if isinstance(tv, dict) and tv and all(isinstance(k, str) and isinstance(v, NS) for k, v in tv.items()):
                special.update(tv)
    for ns, what in ((xsd, "xsd"), (prov, "prov")):
        w = written.get(ns.prefix)
        res.ob("writer declares %s as %r; reader special cases: %s" % (what, w, {k: v.prefix for k, v in special.items()}))
        if w is None:
            res.fail(rule.id, "xml-ns-special::%s::not-declared" % what, ctx.loc(wq, wf.node), "serialize_bundle does not declare the %s namespace" % what)
            continue
        back = special.get(w)
        if w == ns.uri:
            # declared verbatim: the generic branch builds Namespace(prefix, uri) with the same URI - fine
            if back is not None and back.uri != ns.uri:
                res.fail(rule.id, "xml-ns-special::%s::wrong-target" % what, ctx.loc(rq, rf.node), "reader maps %r to %s" % (w, back.uri))
            continue
        if back is None or back.uri != ns.uri:
            res.fail(rule.id, "xml-ns-special::%s::uri-mismatch" % what, ctx.loc(rq, rf.node),
                     "writer declares %s as %r (not its model URI %r) and the reader does not map that URI back (special cases: %s)" % (what, w, ns.uri, sorted(special)),
                     "every xsi:type='%s:...' datatype reloads in a foreign namespace: ints, floats, booleans come back as untyped literals" % what)
    return res


# ===================================================================================== C05.R4
@rule("C05", "C05.R4", "datatype table: each supported xsd type is parsed to the Python kind its value space calls for", 7,
      decides="a typed literal of a supported datatype is stored as the same kind a direct assignment stores")
def c05_r4(ctx: Ctx, rule):
    res = RuleResult()
    tab = ctx.const(M, "XSD_DATATYPE_PARSERS")
    fam = ctx.spec("prov_xml")["datatype_family"]
    xsd = ctx.const(C, "XSD")
    required = {"string": "str", "int": "int", "long": "int", "double": "float", "boolean": "bool", "dateTime": "datetime", "anyURI": "Identifier"}
    for k, v in tab.items():
        if not isinstance(k, QN):
            raise AnalysisError("XSD_DATATYPE_PARSERS key is not a qualified name: %r" % (k,))
        kind = result_kind(ctx, v)
        want = family_of(fam, k.local) if k.ns.uri == xsd.uri else None
        res.ob("%s -> %s (value space: %s)" % (k.s, kind, want))
        if want is None:
            res.notes.append("datatype %s is outside the spec family table; not judged" % k.s)
            continue
        if kind != want:
            res.fail(rule.id, "xsd-parser::%s" % k.local, ctx.loc(M, ctx.p.units[M].tree),
                     "%s is parsed to %s but its value space is %s" % (k.s, kind, want),
                     "Literal('1', %s) is stored as a %s, indistinguishable by == from the right kind" % (k.s, kind))
    for local, want in required.items():
        if QN(xsd, local) not in tab:
            res.ob("%s supported: False" % local)
            res.fail(rule.id, "xsd-parser::%s::missing" % local, ctx.loc(M, ctx.p.units[M].tree),
                     "xsd:%s is no longer converted to a native %s" % (local, want),
                     "values written as xsd:%s by the library's own serializers reload as Literal objects" % local)
    return res


# ===================================================================================== C06 / C10.R4
def provn_name_table(ctx: Ctx):
    return one(tables_used(ctx, M + ".ProvRecord.get_provn", is_kind_to_label(ctx)), "kind->expression-name table in ProvRecord.get_provn")


def spec_records(ctx: Ctx):
    return ctx.spec("prov_dm")["records"]


def check_names_vs_spec(ctx, res, rule, table, ttext, tag, where):
    prov = ctx.prov_ns()
    for tname, row in spec_records(ctx).items():
        t = QN(prov, tname)
        got = table.get(t)
        res.ob("%s[%s] = %r; %s says %r" % (ttext, t.s, got, row["section"], row["provn"]))
        if got != row["provn"]:
            res.fail(rule.id, "%s::%s" % (tag, tname), where,
                     "%s names %s %r; the specification (%s) names it %r" % (ttext, t.s, got, row["section"], row["provn"]),
                     "an independent reader does not recognise (or mis-types) every %s statement" % tname)


@rule("C06", "C06.R1", "PROV-N expression names are the grammar's productions", 18, decides="every record kind is printed under its PROV-N keyword")
def c06_r1(ctx: Ctx, rule):
    res = RuleResult()
    tab, text, node = provn_name_table(ctx)
    check_names_vs_spec(ctx, res, rule, tab, text, "provn-name", ctx.loc(M, node))
    return res


def check_formals_vs_spec(ctx, res, rule, tag):
    prov = ctx.prov_ns()
    kinds = record_kinds(ctx)
    for tname, row in spec_records(ctx).items():
        t = QN(prov, tname)
        if t not in kinds:
            res.ob("%s: record class present: False" % tname)
            res.fail(rule.id, "%s::%s::no-class" % (tag, tname), "src/prov/model.py:0", "no record class for %s" % t.s)
            continue
        cls = kinds[t]
        fa = ctx.formal_attributes(cls)
        got = [(a.ns.uri, a.local) for a in fa]
        want = [(prov.uri, r) for r in row["formal"]]
        res.ob("%s.FORMAL_ATTRIBUTES = (%s); %s: (%s)" % (cls.rsplit(".", 1)[1], ", ".join(a.local for a in fa), row["section"], ", ".join(row["formal"])))
        if got != want:
            res.fail(rule.id, "%s::%s" % (tag, tname), ctx.loc(cls, ctx.p.cls(cls).node),
                     "%s lists its formal arguments as (%s); the specification (%s) gives (%s)" % (cls.rsplit(".", 1)[1], ", ".join(a.local for a in fa), row["section"], ", ".join(row["formal"])),
                     "%s statements are printed / keyed with arguments in the wrong position or under the wrong role, identically in writer and reader" % row["provn"])
        pt = ctx.prov_type_of_class(cls)
        if pt != t:
            res.fail(rule.id, "%s::%s::type-constant" % (tag, tname), ctx.loc(cls, ctx.p.cls(cls).node), "%s.%s is %s, registered under %s" % (cls, ctx.type_field(), getattr(pt, "s", pt), t.s))


@rule("C06", "C06.R2", "formal arguments of each record class are the grammar's arguments, in the grammar's order", 18,
      decides="positions of the printed arguments")
def c06_r2(ctx: Ctx, rule):
    res = RuleResult()
    check_formals_vs_spec(ctx, res, rule, "provn-formals")
    return res


@rule("C06", "C06.R6", "PROV-N framing keywords, identifier separator and absent-argument marker", 8,
      decides="document/bundle framing and the fixed punctuation of an expression")
def c06_r6(ctx: Ctx, rule):
    res = RuleResult()
    fr = ctx.spec("prov_dm")["provn_framing"]
    bq = M + ".ProvBundle.get_provn"
    bf = ctx.fn(bq)
    toks = set()
    for q2 in ctx.helper_closure(bq, depth=1):
        if not q2.startswith(M + ".ProvBundle.") and q2 != bq:
            continue
        for s in const_strings(ctx.fn(q2).node):
            if s.strip():
                toks.add(s.split()[0] if s.split() else s)
    doc = ast.get_docstring(bf.node) or ""
    for key in ("document", "endDocument", "bundle", "endBundle", "default", "prefix"):
        present = fr[key] in toks
        res.ob("ProvBundle.get_provn emits keyword %r: %s" % (fr[key], present))
        if not present:
            res.fail(rule.id, "provn-framing::%s" % key, ctx.loc(bq, bf.node), "keyword %r is not among the string constants of ProvBundle.get_provn (%s)" % (fr[key], sorted(toks - set(doc.split()))),
                     "the whole text no longer parses under the PROV-N grammar")
    rq = M + ".ProvRecord.get_provn"
    rf = ctx.fn(rq)
    consts = [s for q2 in ctx.helper_closure(rq) if q2.startswith(M + ".ProvRecord.") for s in const_strings(ctx.fn(q2).node)]
    # f-string fragments count too ("; " may be the tail of an f-string)
    consts += [x.strip() + " " if x.endswith("; ") else x for x in list(consts)]
    has_sep = any(s.strip() == fr["id_separator"] or s.strip().endswith(fr["id_separator"]) for s in consts)
    has_marker = any(s == fr["absent_marker"] for s in consts)
    res.ob("ProvRecord.get_provn separates a relation identifier with %r: %s" % (fr["id_separator"], has_sep))
    res.ob("ProvRecord.get_provn marks an absent argument with %r: %s" % (fr["absent_marker"], has_marker))
    if not has_sep:
        res.fail(rule.id, "provn-framing::id-separator", ctx.loc(rq, rf.node), "no ';' separator constant after the relation identifier", "identified relations: the identifier is parsed as the first argument")
    if not has_marker:
        res.fail(rule.id, "provn-framing::absent-marker", ctx.loc(rq, rf.node), "no '-' marker constant for an absent optional argument", "arguments after an absent one shift one position to the left")
    # every registered namespace gets its `prefix` line: the source is the manager's own registry, unfiltered
    from ..mutation import all_assignments as _all_assignments

    prefix_sites = []
    for q2 in ctx.helper_closure(bq, depth=1):
        f2 = ctx.fn(q2)
        for n in walk_function(f2.node):
            if isinstance(n, (ast.ListComp, ast.GeneratorExp)) and any(isinstance(c, ast.Constant) and isinstance(c.value, str) and c.value.startswith(fr["prefix"] + " ") for c in ast.walk(n.elt)):
                prefix_sites.append((f2, n, n.generators[0].iter, bool(n.generators[0].ifs)))
            if isinstance(n, ast.For) and any(isinstance(c, ast.Constant) and isinstance(c.value, str) and c.value.startswith(fr["prefix"] + " ") for b in n.body for c in ast.walk(b)):
                skipping = any(isinstance(x, (ast.Continue, ast.If)) for b in n.body for x in ast.walk(b))
                prefix_sites.append((f2, n, n.iter, skipping))
    for f2, n, it, filtered in prefix_sites:
        if True:
            g0 = None
            src_ok = True
            if isinstance(it, ast.Name):
                defs = _all_assignments(f2.node, it.id)
                if it.id in f2.params:
                    defs = []
                    # handed in by get_provn: the argument there must be the unfiltered registry
                    for c2 in calls_in(bf.node):
                        if call_name(c2) == f2.name:
                            ps = f2.params[1:] if f2.cls else f2.params
                            idx = ps.index(it.id) if it.id in ps else None
                            if idx is not None and idx < len(c2.args) and isinstance(c2.args[idx], ast.Name):
                                defs = _all_assignments(bf.node, c2.args[idx].id)
                def base_src(d):
                    return isinstance(d, ast.Call) and call_name(d) in ("get_registered_namespaces",) and "self" in norm(d.func.value)

                def permutation(d):
                    # the same namespaces in another order: sorted(x, ..) / list(x) / tuple(x) / reversed(x) of the list itself
                    return isinstance(d, ast.Call) and isinstance(d.func, ast.Name) and d.func.id in ("sorted", "list", "tuple", "reversed") and d.args and \
                        ((isinstance(d.args[0], ast.Name) and d.args[0].id == it.id) or base_src(d.args[0]))

                src_ok = bool(defs) and all(d is not None and (base_src(d) or permutation(d)) for d in defs) and any(base_src(d) or (permutation(d) and base_src(d.args[0])) for d in defs)
            elif isinstance(it, ast.Call):
                src_ok = call_name(it) == "get_registered_namespaces" and "self" in norm(it.func.value)
            res.ob("`prefix` lines are printed for every registered namespace of this container (unfiltered, single source): %s" % (not filtered and src_ok))
            if filtered or not src_ok:
                res.fail(rule.id, "provn-scope::prefix-lines-filtered", ctx.loc(f2.qual, n),
                         "the `prefix` declarations of a bundle are printed from a filtered / re-assigned list of namespaces",
                         "document ex->A, nested bundle ex->B: the bundle's own `prefix ex <B>` line is dropped, every ex: name in it resolves to A")
    # rendered text is never re-split by lines (a multi-line string value contains newlines of its own)
    for q2 in ctx.helper_closure(bq):
        for c in calls_in(ctx.fn(q2).node):
            if call_name(c) in ("splitlines", "indent") or (call_name(c) == "split" and c.args and isinstance(c.args[0], ast.Constant) and c.args[0].value == "\n"):
                recv = norm(c.func.value) if isinstance(c.func, ast.Attribute) else ""
                if "get_provn" in recv or "provn" in recv.lower() or call_name(c) == "indent":
                    res.ob("%s re-splits rendered PROV-N text: %s" % (q2.rsplit(".", 1)[1], norm(c)[:60]))
                    res.fail(rule.id, "provn-resplit::%s" % norm(c)[:50], ctx.loc(q2, c), "rendered PROV-N text is split into lines again (`%s`) to indent it" % norm(c)[:60],
                             "a multi-line string value inside a bundle gains the indentation on its continuation lines; \\r, \\x0b ... inside strings become \\n")
    # the bundle printer declares its own default and registered namespaces
    reads = scope_reads(ctx, bq)
    kinds = {w for w, root, n in reads if root == "self"}
    for w in ("default", "registered"):
        res.ob("ProvBundle.get_provn declares its own %s namespace(s): %s" % (w, w in kinds))
        if w not in kinds:
            res.fail(rule.id, "provn-scope::%s" % w, ctx.loc(bq, bf.node), "get_provn does not read the %s namespace(s) of the container it prints" % w,
                     "names printed in a bundle do not resolve through the printed declarations")
    return res


# ===================================================================================== C07
def factory_type(ctx: Ctx, method_qual, _depth=0):
    """Record type constant a ProvBundle factory passes to new_record (following one delegation)."""
    fi = ctx.fn(method_qual)
    for c in calls_in(fi.node):
        if call_name(c) == "new_record" and c.args:
            v = ctx.eval_in(method_qual, c.args[0])
            if isinstance(v, QN):
                return v
    if _depth < 2:
        for c in calls_in(fi.node):
            if isinstance(c.func, ast.Attribute) and dotted(c.func.value) == "self":
                mq = ctx.p.lookup_method(fi.cls, c.func.attr) if fi.cls else None
                if mq and mq != method_qual:
                    t = factory_type(ctx, mq, _depth + 1)
                    if t is not None:
                        return t
    return None


@rule("C07", "C07.R1", "PROV-O binary properties map back to the factory of the same relation kind", 15,
      decides="an unqualified relation triple is re-created as the relation kind it was written for")
def c07_r1(ctx: Ctx, rule):
    res = RuleResult()
    rm = ctx.const(RD, "relation_mapper")
    names = provn_name_table(ctx)[0]
    prov = ctx.prov_ns()
    enc = ctx.fn(RD + ".ProvRDFSerializer.encode_container")
    for t, cls in relation_kinds(ctx).items():
        pname = names.get(t)
        key = None
        for k in rm:
            if isinstance(k, ExtCall) and k.args and k.args[0] == prov.uri + str(pname):
                key = k
        meth = rm.get(key) if key is not None else None
        mq = ctx.p.lookup_method(M + ".ProvBundle", meth) if isinstance(meth, str) else None
        ft = factory_type(ctx, mq) if mq else None
        res.ob("%s: predicate prov:%s -> ProvBundle.%s -> new_record(%s)" % (t.s, pname, meth, getattr(ft, "s", ft)))
        if key is None:
            res.fail(rule.id, "rdf-relation::%s::no-predicate" % t.local, ctx.loc(RD, enc.node),
                     "no relation_mapper entry for prov:%s (%s)" % (pname, t.s), "plain %s triples are read as foreign attributes; the relation disappears" % pname)
        elif mq is None:
            res.fail(rule.id, "rdf-relation::%s::no-factory" % t.local, ctx.loc(RD, enc.node), "relation_mapper names ProvBundle.%s which does not exist" % meth)
        elif ft != t:
            res.fail(rule.id, "rdf-relation::%s::wrong-kind" % t.local, ctx.loc(mq, ctx.fn(mq).node),
                     "prov:%s is re-created through ProvBundle.%s which builds %s, not %s" % (pname, meth, getattr(ft, "s", ft), t.s),
                     "every unqualified %s comes back as another relation kind" % pname)
    return res


def urirefs_of_prov_terms(ctx: Ctx, qual):
    """local names x of every URIRef(PROV['x'].uri) constant constructed in the function."""
    fi = ctx.fn(qual)
    prov = ctx.prov_ns()
    out = {}
    for c in calls_in(fi.node):
        if call_name(c) == "URIRef" and c.args:
            try:
                v = ctx.eval_in(qual, c.args[0])
            except AnalysisError:
                continue
            if isinstance(v, str) and v.startswith(prov.uri):
                out.setdefault(v[len(prov.uri):], c)
    return out


@rule("C07", "C07.R2", "every PROV-O predicate the RDF encoder substitutes for an attribute is mapped back to that attribute", 9,
      decides="qualified-pattern predicates (atTime, hadRole, hadPlan, ...) return as the PROV-DM attribute they replaced")
def c07_r2(ctx: Ctx, rule):
    res = RuleResult()
    pm = ctx.const(RD, "predicate_mapper")
    spec = ctx.spec("prov_o")["qualified_pattern_properties"]
    prov = ctx.prov_ns()
    q = RD + ".ProvRDFSerializer.encode_container"
    used = urirefs_of_prov_terms(ctx, q)
    by_uri = {}
    for k, v in pm.items():
        if isinstance(k, ExtCall) and k.args and isinstance(k.args[0], str):
            by_uri[k.args[0]] = v
        elif isinstance(k, Ext):
            by_uri[k.name] = v
    for prop, role in spec.items():
        if prop.startswith("_"):
            continue
        if prop not in used:
            res.notes.append("encoder never emits prov:%s" % prop)
            continue
        got = by_uri.get(prov.uri + prop)
        res.ob("encoder emits prov:%s for %s; predicate_mapper gives %s" % (prop, role, getattr(got, "s", got)))
        if got != QN(prov, role):
            res.fail(rule.id, "rdf-predicate::%s" % prop, ctx.loc(q, used[prop]),
                     "the encoder writes prov:%s for prov:%s but the decoder maps it to %s" % (prop, role, getattr(got, "s", got)),
                     "a qualified relation with %s set reloads with that argument as a foreign attribute prov:%s" % (role, prop))
    lab = [v for k, v in by_uri.items() if k.endswith("RDFS.label")]
    res.ob("rdfs:label maps back to %s" % [getattr(x, "s", x) for x in lab])
    if lab != [QN(prov, "label")]:
        res.fail(rule.id, "rdf-predicate::rdfs-label", ctx.loc(q, ctx.fn(q).node), "rdfs:label is not mapped back to prov:label", "labels reload as rdfs:label attributes")
    return res


# ===================================================================================== C10
@rule("C10", "C10.R1", "PROV-JSON vocabulary matches the specification (kinds, formal keys, envelope, literal objects, datatypes)", 60,
      decides="an independent PROV-JSON reader finds every key where the specification puts it")
def c10_r1(ctx: Ctx, rule):
    res = RuleResult()
    sj = ctx.spec("prov_json")
    sd = ctx.spec("prov_dm")
    prov = ctx.prov_ns()
    res.ob("PROV namespace = %s:%s" % (prov.prefix, prov.uri))
    if prov.uri != sd["namespaces"]["prov"] or prov.prefix != "prov":
        res.fail(rule.id, "json-spec::prov-namespace", ctx.loc(C, ctx.p.units[C].tree), "PROV namespace is %s=<%s>; specification: prov=<%s>" % (prov.prefix, prov.uri, sd["namespaces"]["prov"]))
    enc, enc_text, enc_node = one(tables_used(ctx, JS + ".encode_json_container", is_kind_to_label(ctx)), "kind->key table in encode_json_container")
    check_names_vs_spec(ctx, res, rule, enc, enc_text, "json-spec::kind", ctx.loc(JS, enc_node))
    # formal keys: printed as str(attr) = "prov:<role>" with the role names of the spec
    for tname, row in sd["records"].items():
        cls = record_kinds(ctx).get(QN(prov, tname))
        if cls is None:
            continue
        fa = ctx.formal_attributes(cls)
        for a, role in zip(fa, row["formal"]):
            want = sj["formal_key_format"] % role
            res.ob("%s argument %s printed as key %r; spec %r" % (tname, role, a.s, want))
            if a.s != want:
                res.fail(rule.id, "json-spec::formal-key::%s::%s" % (tname, role), ctx.loc(cls, ctx.p.cls(cls).node),
                         "%s prints its %s argument under %r; PROV-JSON 2.4 requires %r" % (tname, role, a.s, want),
                         "an independent reader misses or mis-assigns that argument, while the library's own reader agrees with its writer")
        if len(fa) != len(row["formal"]):
            res.fail(rule.id, "json-spec::formal-count::%s" % tname, ctx.loc(cls, ctx.p.cls(cls).node), "%s has %d formal arguments; specification has %d" % (tname, len(fa), len(row["formal"])))
    w, r = json_envelope(ctx)
    wanted = dict(sj["envelope_keys"], **{"lit_" + k: v for k, v in sj["literal_keys"].items()})
    for name, key in wanted.items():
        res.ob("key %r written: %s read: %s" % (key, key in w, key in r))
        if key not in w:
            res.fail(rule.id, "json-spec::envelope::%s::not-written" % key, ctx.loc(JS, ctx.fn(ENC_JSON[1]).node), "the encoder never writes the PROV-JSON key %r" % key, "independent readers do not find the %s block" % name)
        if key not in r:
            res.fail(rule.id, "json-spec::envelope::%s::not-read" % key, ctx.loc(JS, ctx.fn(DEC_JSON[1]).node), "the decoder never reads the PROV-JSON key %r" % key, "foreign PROV-JSON files lose their %s block" % name)
    for k in w:
        if k not in wanted.values():
            res.ob("non-specification key %r written" % k)
            res.fail(rule.id, "json-spec::envelope::%s::unknown" % k, ctx.loc(w[k][0], w[k][1]), "the encoder writes the key %r which PROV-JSON does not define" % k,
                     "an independent reader ignores whatever is stored under it")
    # datatype tags
    codec = json_value_tags(ctx)
    fam = sj["datatype_family"]
    for kind, tag in codec.items():
        if kind in fam:
            res.ob("%s values tagged %r; specification family %s" % (kind, tag, fam[kind]))
            if tag is not None and tag not in fam[kind]:
                res.fail(rule.id, "json-spec::datatype::%s" % kind, ctx.loc(JS, ctx.fn(ENC_JSON[2]).node), "%s values are tagged %r, outside the XSD family of that kind %s" % (kind, tag, fam[kind]),
                         "an independent reader rebuilds every %s as another kind" % kind)
    qt = codec.get("QualifiedName")
    res.ob("qualified-name values tagged %r; specification %r" % (qt, sj["qualified_name_type"]))
    if qt != sj["qualified_name_type"]:
        res.fail(rule.id, "json-spec::datatype::QualifiedName", ctx.loc(JS, ctx.fn(ENC_JSON[2]).node), "qualified-name values are tagged %r; PROV-JSON 2.5 requires %r" % (qt, sj["qualified_name_type"]))
    return res


def json_value_tags(ctx: Ctx):
    """kind -> datatype tag string written by encode_json_representation (None = raw JSON value)."""
    from . import dispatch

    return dispatch.json_writer_tags(ctx)


@rule("C10", "C10.R2", "PROV-XML vocabulary matches the specification (elements, attributes, namespaces, type hierarchy)", 40,
      decides="an independent PROV-XML reader finds every element/attribute where the specification puts it")
def c10_r2(ctx: Ctx, rule):
    res = RuleResult()
    sx = ctx.spec("prov_xml")
    sd = ctx.spec("prov_dm")
    prov = ctx.prov_ns()
    wq = XM + ".ProvXMLSerializer._derive_record_label"
    W, wt, wn = one(tables_used(ctx, wq, is_kind_to_label(ctx)), "type->element table in _derive_record_label")
    check_names_vs_spec(ctx, res, rule, W, wt, "xml-spec::element", ctx.loc(XM, wn))
    for sub, el in sx["subtype_elements"].items():
        got = W.get(QN(prov, sub))
        res.ob("subtype %s element %r; spec %r" % (sub, got, el))
        if got != el:
            res.fail(rule.id, "xml-spec::subtype-element::%s" % sub, ctx.loc(XM, wn), "prov:%s is written as <prov:%s>; PROV-XML names it <prov:%s>" % (sub, got, el),
                     "independent readers reject or skip the element")
    base = ctx.const(C, "PROV_BASE_CLS")
    for sub, b in sd["subtypes"].items():
        if sub.startswith("_"):
            continue
        got = base.get(QN(prov, sub))
        res.ob("PROV_BASE_CLS[prov:%s] = %s; PROV-DM: %s" % (sub, getattr(got, "s", got), b))
        if got != QN(prov, b):
            res.fail(rule.id, "xml-spec::base-class::%s" % sub, ctx.loc(C, ctx.p.units[C].tree), "prov:%s is mapped to base %s; PROV-DM makes it a kind of %s" % (sub, getattr(got, "s", got), b),
                     "<prov:%s> elements are loaded as %s records" % (sx["subtype_elements"].get(sub, sub), getattr(got, "local", got)))
    for t in record_kinds(ctx):
        got = base.get(t)
        res.ob("PROV_BASE_CLS[%s] = %s (identity expected)" % (t.s, getattr(got, "s", got)))
        if got != t:
            res.fail(rule.id, "xml-spec::base-class::%s" % t.local, ctx.loc(C, ctx.p.units[C].tree), "record kind %s is mapped to base %s" % (t.s, getattr(got, "s", got)))
    # attribute / structural names: every call in the XML codec that folds to a Clark name "{namespace}local" (whatever the
    # helper that builds it is called)
    clark = {}
    for q in [XM + ".ProvXMLSerializer.serialize_bundle", XM + ".ProvXMLSerializer.serialize", XM + ".ProvXMLSerializer.deserialize_subtree", XM + "._extract_attributes"]:
        for q2 in ctx.helper_closure(q):
            if not q2.startswith(XM + "."):
                continue
            for c in calls_in(ctx.fn(q2).node):
                if not c.args or isinstance(c.func, ast.Attribute) and c.func.attr in ("format", "join", "get", "append", "SubElement", "Element"):
                    continue
                try:
                    v = ctx.eval_in(q2, c)
                except AnalysisError:
                    continue
                if isinstance(v, str) and v.startswith("{") and "}" in v:
                    clark.setdefault(v, []).append(q.rsplit(".", 1)[1])
    ns_prov, ns_xsi, ns_xml = sd["namespaces"]["prov"], sd["namespaces"]["xsi"], sd["namespaces"]["xml"]
    wanted = [(ns_prov, sx["root"], "serialize_bundle"), (ns_prov, sx["bundle_element"], "serialize_bundle"), (ns_prov, sx["id_attr"], "serialize_bundle"),
              (ns_prov, sx["ref_attr"], "serialize_bundle"), (ns_xsi, sx["xsi_type_attr"], "serialize_bundle"), (ns_xml, sx["xml_lang_attr"], "serialize_bundle"),
              (ns_prov, sx["id_attr"], "deserialize_subtree"), (ns_prov, sx["ref_attr"], "_extract_attributes"), (ns_xsi, sx["xsi_type_attr"], "_extract_attributes"),
              (ns_xml, sx["xml_lang_attr"], "_extract_attributes")]
    for nsuri, name, fn in wanted:
        ck = "{%s}%s" % (nsuri, name)
        ok = fn in clark.get(ck, [])
        res.ob("%s uses the name %s: %s" % (fn, ck, ok))
        if not ok:
            res.fail(rule.id, "xml-spec::name::%s::%s" % (fn, ck), ctx.loc(XM, ctx.p.units[XM].tree), "%s never refers to %s as PROV-XML requires" % (fn, ck),
                     "the %s %s is written/read under another name" % ("attribute" if name in ("id", "ref", "type", "lang") else "element", name))
    # namespace URIs behind the helpers
    dn = ctx.const(M, "DEFAULT_NAMESPACES")
    for pfx, key in (("prov", "prov"), ("xsi", "xsi")):
        got = dn.get(pfx)
        res.ob("DEFAULT_NAMESPACES[%r] = %s" % (pfx, getattr(got, "uri", got)))
        if not isinstance(got, NS) or got.uri != sd["namespaces"][key]:
            res.fail(rule.id, "xml-spec::namespace::%s" % pfx, ctx.loc(M, ctx.p.units[M].tree), "namespace %s is %s; specification: %s" % (pfx, getattr(got, "uri", got), sd["namespaces"][key]))
    written = written_default_namespaces(ctx)
    got_xsd = written.get("xsd")
    res.ob("XML documents declare xsd as %r; PROV-XML uses %r" % (got_xsd, sd["namespaces"]["xsd_xml_form"]))
    if got_xsd != sd["namespaces"]["xsd_xml_form"]:
        res.fail(rule.id, "xml-spec::namespace::xsd-form", ctx.loc(XM, ctx.p.units[XM].tree), "the xsd prefix is declared as %r in PROV-XML output; the schema namespace is %r" % (got_xsd, sd["namespaces"]["xsd_xml_form"]),
                 "a schema-aware reader does not recognise xsi:type='xsd:int' (the library's own reader accepts both spellings)")
    res.ob("xml namespace = %s (checked through the Clark name of xml:lang)" % ns_xml)
    rq = XM + ".ProvXMLSerializer.deserialize_subtree"
    rs = const_strings(ctx.fn(rq).node)
    for name in (sx["bundle_element"], sx["other_element"]):
        res.ob("deserialize_subtree recognises <prov:%s>: %s" % (name, name in rs))
        if name not in rs:
            res.fail(rule.id, "xml-spec::reader-element::%s" % name, ctx.loc(rq, ctx.fn(rq).node), "the reader no longer recognises <prov:%s>" % name)
    return res


@rule("C10", "C10.R3", "PROV-XML child order: formal arguments, then label, location, role, type, value, then the rest", 5,
      decides="children are emitted in the schema's sequence order")
def c10_r3(ctx: Ctx, rule):
    res = RuleResult()
    q = M + ".sorted_attributes"
    fi = ctx.fn(q)
    want = ctx.spec("prov_xml")["universal_child_order"]
    prov = ctx.prov_ns()
    order_var = None
    formal_first = False
    ext_list = None
    for n in walk_function(fi.node):
        if isinstance(n, ast.Assign) and isinstance(n.targets[0], ast.Name):
            if any(isinstance(x, ast.Attribute) and x.attr == "FORMAL_ATTRIBUTES" for x in ast.walk(n.value)):
                order_var = n.targets[0].id
                formal_first = True
    for c in calls_in(fi.node):
        if call_name(c) in ("extend",) and isinstance(c.func, ast.Attribute) and dotted(c.func.value) == order_var and c.args:
            v = ctx.eval_in(q, c.args[0])
            if isinstance(v, (list, tuple)) and all(isinstance(x, QN) for x in v):
                ext_list = list(v)
    if order_var is None:
        # alternative spelling: order = list(FORMAL) + [PROV_LABEL, ...]
        for n in walk_function(fi.node):
            if isinstance(n, ast.BinOp) and isinstance(n.op, ast.Add):
                if any(isinstance(x, ast.Attribute) and x.attr == "FORMAL_ATTRIBUTES" for x in ast.walk(n.left)):
                    v = ctx.eval_in(q, n.right)
                    if isinstance(v, (list, tuple)) and all(isinstance(x, QN) for x in v):
                        formal_first, ext_list, order_var = True, list(v), "<expr>"
    if ext_list is None:
        # alternative spelling: order = [*FORMAL, PROV_LABEL, ...]
        for n in walk_function(fi.node):
            if isinstance(n, (ast.List, ast.Tuple)) and n.elts and isinstance(n.elts[0], ast.Starred) and any(isinstance(x, ast.Attribute) and x.attr == "FORMAL_ATTRIBUTES" for x in ast.walk(n.elts[0])):
                try:
                    v = [ctx.eval_in(q, e) for e in n.elts[1:]]
                except AnalysisError:
                    continue
                if v and all(isinstance(x, QN) for x in v):
                    formal_first, ext_list, order_var = True, v, "<expr>"
                    # the name the display is bound to, if any, is what the filling loop walks
                    for a in walk_function(fi.node):
                        if isinstance(a, ast.Assign) and a.value is n and isinstance(a.targets[0], ast.Name):
                            order_var = a.targets[0].id
    if ext_list is None or not formal_first:
        raise AnalysisError("cannot extract the attribute order built by sorted_attributes")
    res.ob("order starts with the record class's FORMAL_ATTRIBUTES: %s" % formal_first)
    got = [(x.ns.uri, x.local) for x in ext_list]
    for i, name in enumerate(want):
        g = ext_list[i].s if i < len(ext_list) else None
        res.ob("position formal+%d: %s; schema: prov:%s" % (i + 1, g, name))
    if got != [(prov.uri, n) for n in want]:
        res.fail(rule.id, "xml-spec::child-order", ctx.loc(q, fi.node), "universal children are ordered (%s); the PROV-XML schema sequence is (%s)" % (", ".join(x.s for x in ext_list), ", ".join(want)),
                 "documents with two of these attributes are schema-invalid for an independent validating reader")
    # the ordered list is what the loop that fills the result walks first
    loops = [n for n in walk_function(fi.node) if isinstance(n, ast.For) and dotted(n.iter) == order_var]
    res.ob("result is filled by walking the order list first: %s" % bool(loops))
    if order_var != "<expr>" and not loops:
        res.fail(rule.id, "xml-spec::child-order::not-applied", ctx.loc(q, fi.node), "the order list is built but never walked")
    return res


@rule("C10", "C10.R4", "formal argument roles and their order per record kind are PROV-DM's", 18,
      decides="a symmetric swap of two roles in writer and reader (invisible to every round trip) is caught")
def c10_r4(ctx: Ctx, rule):
    res = RuleResult()
    check_formals_vs_spec(ctx, res, rule, "dm-formals")
    # time-valued / reference-valued split of the formal attributes vs the spec
    tv = set(ctx.spec("prov_dm")["time_valued"])
    lit = ctx.const(C, "PROV_ATTRIBUTE_LITERALS")
    qn = ctx.const(C, "PROV_ATTRIBUTE_QNAMES")
    for a in all_formal(ctx):
        is_time = a in lit
        is_ref = a in qn
        res.ob("%s: time-valued=%s reference-valued=%s (spec time-valued=%s)" % (a.s, is_time, is_ref, a.local in tv))
        if is_time != (a.local in tv) or is_ref == is_time:
            res.fail(rule.id, "dm-formals::valuation::%s" % a.local, ctx.loc(C, ctx.p.units[C].tree),
                     "%s is classified time=%s reference=%s; PROV-DM makes it %s" % (a.s, is_time, is_ref, "a time" if a.local in tv else "an identifier reference"),
                     "values of %s are coerced (and serialised) as the wrong sort" % a.local)
    return res


# ===================================================================================== C14 / C15 tables
def spec_role_class(ctx: Ctx, role):
    prov = ctx.prov_ns()
    name = ctx.spec("prov_dm")["role_class"].get(role)
    if name is None:
        return None
    if name == "Bundle":
        return "prov.model.ProvBundle"
    return record_kinds(ctx).get(QN(prov, name))


@rule("C14", "C14.R1", "endpoint-inference table covers the first two formal positions of every relation with PROV-DM's element kind", 28,
      decides="a relation to an undeclared endpoint still yields an edge, to a node of the right kind")
def c14_r1(ctx: Ctx, rule):
    res = RuleResult()
    tab, text, node = one(
        tables_used(ctx, GR + ".prov_to_graph", lambda d: len(d) > 3 and all(isinstance(k, QN) for k in d) and all(isinstance(v, ClassRef) for v in d.values())),
        "role->class table in prov_to_graph")
    # the documented exception: the kind of an influence endpoint cannot be inferred
    exc = {t for t, c in relation_kinds(ctx).items() if c == "prov.model.ProvInfluence"}
    res.exceptions.append("ProvInfluence: endpoint kind cannot be inferred (documented in the property's quantifier)")
    for t, cls in relation_kinds(ctx).items():
        if t in exc:
            continue
        fa = ctx.formal_attributes(cls)
        for pos in (0, 1):
            a = fa[pos]
            got = tab.get(a)
            want = spec_role_class(ctx, a.local)
            res.ob("%s position %d (%s): inferred class %s; PROV-DM %s" % (cls.rsplit(".", 1)[1], pos, a.s, getattr(got, "qual", got), want))
            if got is None:
                res.fail(rule.id, "graph-infer::%s::missing" % a.local, ctx.loc(GR, node), "%s has no entry for %s (position %d of %s)" % (text, a.s, pos, cls.rsplit(".", 1)[1]),
                         "every %s whose %s is not declared as a record is silently dropped from the graph" % (cls.rsplit(".", 1)[1], a.local))
            elif want is not None and got.qual != want:
                res.fail(rule.id, "graph-infer::%s::wrong-class" % a.local, ctx.loc(GR, node), "%s infers %s for %s; PROV-DM says %s" % (text, got.qual, a.s, want),
                         "undeclared %s endpoints become nodes of the wrong kind" % a.local)
    return res


@rule("C15", "C15.R2", "DOT style tables cover every record kind, relation styles carry a label, generic styles cover every inferred class", 25,
      decides="no record kind or inferred endpoint can raise KeyError while drawing")
def c15_r2(ctx: Ctx, rule):
    res = RuleResult()
    style = ctx.const(DOT, "DOT_PROV_STYLE")
    generic = ctx.const(DOT, "GENERIC_NODE_STYLE")
    infer = ctx.const(GR, "INFERRED_ELEMENT_CLASS")
    names = provn_name_table(ctx)[0]
    prov = ctx.prov_ns()
    where = ctx.loc(DOT, ctx.p.units[DOT].tree)
    rel = relation_kinds(ctx)
    for t in list(record_kinds(ctx)) + [QN(prov, "Bundle")]:
        st = style.get(t)
        res.ob("DOT_PROV_STYLE[%s] present: %s" % (t.s, isinstance(st, dict)))
        if not isinstance(st, dict):
            res.fail(rule.id, "dot-style::%s::missing" % t.local, where, "no DOT style for %s" % t.s, "drawing a document with a %s raises KeyError" % t.local)
            continue
        if t in rel:
            lab = st.get("label")
            res.ob("relation style %s label=%r (PROV-N name %r)" % (t.s, lab, names.get(t)))
            if lab is None:
                res.fail(rule.id, "dot-style::%s::no-label" % t.local, where, "relation style for %s has no 'label'" % t.s,
                         "an n-ary or annotated %s raises KeyError: 'label' when its second segment is drawn" % t.local)
            elif lab != names.get(t):
                res.fail(rule.id, "dot-style::%s::wrong-label" % t.local, where, "edges of %s are labelled %r instead of %r" % (t.s, lab, names.get(t)),
                         "the drawing shows another relation than the document asserts")
    res.ob("generic fallback style DOT_PROV_STYLE[0] present: %s" % (0 in style))
    if 0 not in style:
        res.fail(rule.id, "dot-style::generic-fallback", where, "DOT_PROV_STYLE[0] (node of unknown kind) is missing", "an influence to an undeclared endpoint raises KeyError")
    for cls in sorted({v.qual for v in infer.values() if isinstance(v, ClassRef)}):
        ok = ClassRef(cls) in generic
        res.ob("GENERIC_NODE_STYLE[%s] present: %s" % (cls.rsplit(".", 1)[1], ok))
        if not ok:
            res.fail(rule.id, "dot-style::generic::%s" % cls.rsplit(".", 1)[1], where, "no generic node style for inferred class %s" % cls, "a relation to an undeclared endpoint of that kind raises KeyError")
    return res


# ===================================================================================== C16.R3
@rule("C16", "C16.R3", "serializer registry: four formats, each a Serializer with serialize and deserialize; read() enumerates the registry", 4,
      decides="every advertised format can be selected by name and tried by prov.read")
def c16_r3(ctx: Ctx, rule):
    res = RuleResult()
    reg = ctx.registry_table()
    base = "prov.serializers.Serializer"
    for fmt in ("json", "xml", "rdf", "provn"):
        cls = reg.get(fmt)
        ok = isinstance(cls, ClassRef) and ctx.p.is_subclass(cls.qual, base)
        own = []
        if ok:
            for m in ("serialize", "deserialize"):
                mq = ctx.p.lookup_method(cls.qual, m)
                if mq and not mq.startswith(base + "."):
                    own.append(m)
        res.ob("format %r -> %s (Serializer subclass: %s; defines %s)" % (fmt, getattr(cls, "qual", cls), ok, own))
        if not ok:
            res.fail(rule.id, "registry::%s" % fmt, "src/prov/serializers/__init__.py:0", "format %r is not registered to a Serializer subclass" % fmt, "serialize(format=%r) raises DoNotExist" % fmt)
        elif "serialize" not in own:
            res.fail(rule.id, "registry::%s::no-serialize" % fmt, ctx.loc(cls.qual, ctx.p.cls(cls.qual).node), "%s does not implement serialize (the abstract method returns None silently)" % cls.qual)
        elif "deserialize" not in own:
            res.fail(rule.id, "registry::%s::no-deserialize" % fmt, ctx.loc(cls.qual, ctx.p.cls(cls.qual).node), "%s does not implement deserialize: the abstract method returns None silently" % cls.qual,
                     "prov.read returns None for that format instead of trying the next one")
    rd = ctx.fn("prov.read")
    uses = any(isinstance(n, ast.Attribute) and n.attr == "serializers" for n in walk_function(rd.node))
    loads = any(call_name(c) == "load_serializers" for c in calls_in(rd.node))
    res.ob("prov.read enumerates Registry.serializers: %s (after load_serializers: %s)" % (uses, loads))
    if not uses:
        res.fail(rule.id, "registry::read-does-not-enumerate", ctx.loc("prov", rd.node), "prov.read no longer enumerates the serializer registry", "formats added to the registry are never tried")
    return res


RULES.setdefault("C10", []).append(Rule("C10.R7", "time-valued formal attributes are written with isoformat() and read as times (shared with C01.R2)", 26, c01_r2, "F-TABLE",
                                        "prov:time / startTime / endTime are valid xsd:dateTime lexicals for an independent reader"))
