"""Per-property statements of what the static rules decide and what they do not (DESIGN section 4)."""

_COMMON = ("Static analysis only: the check parses the current /repo working tree with `ast`, builds a resolved program model "
           "(symbols, classes, folded constant tables, CFGs, effect summaries) and decides structural necessary conditions of the "
           "property on every path / for every writer at once. prov is never imported or run. ")

EXPLANATIONS = {
    "C01": _COMMON + "Decides: writer and reader of PROV-JSON use mutually inverse record-kind and formal-attribute key tables, the same reference/time partition, the same envelope and literal-object keys; reader(writer(kind)) = kind for the 8 native value kinds (order-aware isinstance/type dispatch composed with XSD_DATATYPE_PARSERS); the anonymous-id sentinel is the one the resolver maps to 'no identifier'; the container writer declares the namespaces of the container it writes. Not decided: equality of contents over unbounded documents, multiplicity, lexical round trips of numbers/strings/datetimes, json.dump options.",
    "C02": _COMMON + "Decides: PROV-XML element-name tables are injective/inverse/covered by the base-class table; the subtype relabel is guarded by base-class agreement; xsi:type codec identity for bool/int/float/datetime/URI/str/QualifiedName (always-typed set, dispatch order, reader special cases, model parser table); lxml Optional results (.text, .prefix) are None-guarded before use; the XSD-namespace special case agrees on both sides. Not decided: the full attribute x kind x force_types matrix, lxml escaping, string contents.",
    "C03": _COMMON + "Decides: only NamespaceManager methods write the prefix tables; every binding store carries the must-fact `key not in self` (clash => fresh prefix); every QualifiedName returned for a QualifiedName argument is N[local] with a namespace provably carrying the argument's URI (URI-token dataflow incl. map invariants and add_namespace's summary); the renamed-prefix memo is consulted only for prefixes not registered in scope; identity is the URI (hash/eq projections, folder model conformance); no lossy str.replace strip. Known finding: add_namespace does not consult the parent scope the resolver delegates to. Not decided: clause (c) over all interleavings.",
    "C04": _COMMON + "Decides, on propositional formulas extracted from the __eq__/__ne__/__hash__ bodies: swap symmetry, != is the negation of ==, every hash projection is an unconditional equality conjunct, no one-sided containment loop without a size/key-set equality, every content field is compared, no cached/auxiliary state in hash; prov-compare's exit status is doc1 != doc2. Not decided: value-level equality across kinds (1 == True), the O(n^2) matching beyond its shape.",
    "C05": _COMMON + "Decides: the attribute multimap is written only by the normaliser or by stores whose value satisfies the coercion partition for the folded key; the single-value guard covers all 26 formal attributes, raises on a differing value, cannot fall through to the store and is switched off only by call-local facts; reference/time/other partition and None refusal dominate the store; the datatype table maps each xsd type to the kind of its value space; factories bind every formal attribute to the same-named parameter in FORMAL_ATTRIBUTES order with times coerced; convenience methods and aliases forward everything. Not decided: value-level behaviour of the parsers.",
    "C06": _COMMON + "Decides: expression names and formal-argument order equal the PROV-N grammar (independent spec table); framing keywords, ';' and '-' markers; the string quoter escapes backslash before quote; floats are printed losslessly and typed like the sibling writers; every native kind reaches a representation through an order-correct dispatch; kind-dispatching encoders are not memoised by value equality; the bundle printer declares its own namespaces. Not decided: grammar conformance of whole texts, name escaping, lexical forms.",
    "C07": _COMMON + "Narrow claim. Decides: each PROV-O binary property maps back to the factory of the same relation kind; every PROV-O predicate the encoder substitutes is mapped back to the attribute it replaced; the literal datatype written per native kind parses back to that kind; no lossy prefix strip in the URI fallback; absent values are tested with `is None`, not truthiness. Not decided: the qualified-influence pattern, blank nodes, everything rdflib does (553 RDF tests fail under rdflib 7.6 in this sandbox and are outside the baseline).",
    "C08": _COMMON + "Decides: the merge runs on a fresh record through the normaliser with no effect on the source (effect summary); only records of one kind are merged (type in the grouping key or a dominating type test); every bundle is unified and carried over on every iteration; merged records are de-duplicated per merged record, not per identifier; records never share value sets; both unified() return fresh containers and leave the source unchanged. Not decided: idempotence, order and content of the union.",
    "C09": _COMMON + "Decides: in flattened/update/constructors every record (bundle) of an unfiltered source reaches add_record (update) on every loop iteration (CFG post-dominance); add_record/new_record forward type, identifier, formal and extra attributes; no effect on the receiver lies on a path to a refusal in add_bundle/update; update has no content effect on, and retains nothing of, its argument; flattened adds no bundle. Not decided: the multiset identity itself (needs C03 for URIs).",
    "C10": _COMMON + "The independent reader is replaced by independent tables written from the W3C documents (sa/spec/*.json): PROV-JSON kind names, formal keys, envelope and literal keys, datatype families; PROV-XML element/attribute names, namespaces, subtype hierarchy, child order; PROV-DM argument roles and order and their time/reference valuation. Catches symmetric writer+reader mistakes that every round trip hides. Not decided: conformance of whole documents, value lexicals.",
    "C11": _COMMON + "Decides: per-iteration definite assignment in the XML and JSON decoders (no value carried over from the previous element/record); lxml Optionals guarded; foreign shapes discriminated (dict-or-list records, scalar-or-list values, dict-or-scalar literals); the JSON and XML writers give the same kind (after the model's parser table) to the same Python value, so JSON -> model -> XML is kind preserving. Not decided: anything about actual foreign texts.",
    "C12": _COMMON + "Decides: no alias store into an owned container field (fields discovered from __init__); per-attribute value sets are never shared; the insertion point only receives freshly constructed records; copy/unified/deserialize/add_record return fresh objects and flattened returns self only without bundles; add_bundle(document) converts through a fresh bundle with a fresh manager; update/flattened/unified retain nothing of their arguments (retention summaries). Assumes the declared immutable value classes.",
    "C13": _COMMON + "Decides: for 26 export entry points (4 serializers, ProvDocument.serialize, get_provn x2, prov_to_graph, prov_to_dot, the __eq__/__ne__/__hash__ family, unified x2, flattened) the interprocedural effect closure rooted at the exported object contains only EMPTY-INSERT and MEMO effects (no CONTENT, NS, NS-RESOLVE, LINK, GLOBAL-TABLE, OTHER); no module-level table is mutated; every whole-map reader tolerates empty value sets; id generators are per call; records never share value sets. Not decided: in-process set iteration order, RDF isomorphism.",
    "C14": _COMMON + "Decides: the endpoint-inference table covers formal positions 0 and 1 of every relation class (except influence, documented) with PROV-DM's element kind; the inferred-node sentinel written at creation is the one graph_to_prov filters on; the edge runs from the node of formal position 0 to that of position 1; one add_edge per relation iteration guarded only by 'both ends present'; the conversion starts from unified() unconditionally; graph_to_prov re-adds every node/edge record without value-based de-duplication. Not decided: counts on real graphs.",
    "C15": _COMMON + "Decides: every record-derived value that reaches a DOT sink passes a sanitizer adequate for the sink's context (quoted string: backslash then quote, unconditionally; HTML-like text/attribute: html.escape); style tables cover every record kind / inferred class and relation styles carry the PROV-N label; the shared style table is copied before mutation; the annotation filter and the blank-node decision use the same attribute partition; direction reset. Not decided: Graphviz acceptance, layout.",
    "C16": _COMMON + "Decides: stream typestate in prov.read (no consuming call on a possibly consumed stream); each serializer discriminates text/binary targets and converts whole contents with explicit UTF-8; registry has four Serializer classes with both methods and read() enumerates it; a path source is opened in binary mode; a path destination's temporary file is written and closed before the move. Not decided: equality of the produced texts/documents; signature-based sniffing heuristics.",
    "C17": _COMMON + "Decides: the destination handed to the commit call is the caller's path on every reaching definition (identity, or file: URL conversion under an explicit scheme test); no local name is refused (only a non-empty netloc may return early); the commit is dominated by the normal completion of write and close and unreachable from their exceptional exits; the destination is never opened for writing or otherwise touched before the commit. Not decided: atomicity of shutil.move itself (cross-device copies).",
    "C18": _COMMON + "Decides: the record list and the identifier index are mutated only inside insertion points of the bundle, in paired forms; on every path of an insertion point the record is appended to the list, and to the index unless its identifier is None, under its own identifier; every record constructed for a bundle reaches the insertion point; records/get_records return fresh lists and filter by isinstance; lookup resolves its argument through the resolver and answers from this container's index only.",
}

def _decides(v):
    for mark in ("Decides", "Narrow claim. Decides", "The independent reader"):
        if mark in v:
            body = v.split(mark, 1)[1]
            return (mark + body).split(" Not decided")[0][:900]
    return v[:900]


LEVEL_TEXT = {k: "Repository-specific static analysis (level 'other'): every armed rule is a necessary condition of the property, decided for all "
              "inputs/histories at once from the shape of the code; the behavioural core (equality of documents/texts over all inputs) is not decided. "
              + _decides(v) for k, v in EXPLANATIONS.items()}
LEVEL_NOTE = {k: (("Not decided" + v.split("Not decided", 1)[1]) if "Not decided" in v else "Structural clauses only.")
              + " Trusted: no monkey-patching in src/prov (census), external-library signature assumptions, spec tables under sa/spec, declared immutable value classes."
              for k, v in EXPLANATIONS.items()}
NOT_APPLICABLE = {}


def _thorough():
    from .. import thorough

    return {k: thorough.make(k) for k in EXPLANATIONS}


class _Lazy(dict):
    def get(self, k, d=None):
        if not self:
            self.update(_thorough())
        return dict.get(self, k, d)


THOROUGH = _Lazy()
