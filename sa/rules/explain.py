"""Per-property explanation strings (what the static rules decide and what they do not)."""

EXPLANATIONS = {}
THOROUGH = {}
LEVEL_TEXT = {}
LEVEL_NOTE = {}
NOT_APPLICABLE = {}
