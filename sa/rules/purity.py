"""F-OWN rules over the effect / ownership summaries (E4): C13 purity of exporters, C12 no shared
mutable state, C08 unified(), C09 conservation and refusal without change."""
from __future__ import annotations

import ast

from .. import cfg as cfgmod
from ..ctx import DOT, GR, JS, M, PN, RD, XM, Ctx, call_name, calls_in, walk_function
from ..effects import HOP, base_of, get_effects
from ..loader import AnalysisError, dotted, norm
from ..mutation import field_table, is_fresh_expr, mutation_sites, resolve_local
from ..report import Rule, RuleResult
from .paths import BUNDLE, DOC, RECORD, NSM, attr_slot, bundle_slots, get_cfg, insertion_points, node_of, short

RULES = {}


def rule(prop, rid, title, floor, family="F-OWN", decides=""):
    def deco(fn):
        RULES.setdefault(prop, []).append(Rule(rid, title, floor, fn, family, decides))
        return fn

    return deco


ALLOWED = {
    "EMPTY-INSERT": "a defaultdict read leaves an empty entry behind; content-neutral because every whole-map reader tolerates empty value sets (C13.R3)",
    "MEMO": "memo tables (Namespace._cache, anonymous-id counters of a generator created per call)",
}


def exporters(ctx: Ctx):
    """(entry qualname, roots that denote the exported object)"""
    out = []
    reg = ctx.registry_table()
    for fmt, cls in sorted(reg.items()):
        q = ctx.p.lookup_method(cls.qual, "serialize")
        out.append((q, {"self"}, "serialize(format=%r)" % fmt))
    out.append((DOC + ".serialize", {"self"}, "ProvDocument.serialize"))
    out.append((BUNDLE + ".get_provn", {"self"}, "ProvBundle.get_provn"))
    out.append((RECORD + ".get_provn", {"self"}, "ProvRecord.get_provn"))
    out.append((GR + ".prov_to_graph", {ctx.fn(GR + ".prov_to_graph").params[0]}, "prov_to_graph"))
    out.append((DOT + ".prov_to_dot", {ctx.fn(DOT + ".prov_to_dot").params[0]}, "prov_to_dot"))
    for cls in (RECORD, BUNDLE, DOC, M + ".Literal", "prov.identifier.Identifier", "prov.identifier.QualifiedName", "prov.identifier.Namespace"):
        for m in ("__eq__", "__ne__", "__hash__"):
            q = ctx.p.classes[cls].methods.get(m)
            if q:
                fi = ctx.fn(q)
                out.append((q, set(fi.params), "%s.%s" % (cls.rsplit(".", 1)[1], m)))
    out.append((DOC + ".unified", {"self"}, "ProvDocument.unified"))
    out.append((BUNDLE + ".unified", {"self"}, "ProvBundle.unified"))
    out.append((DOC + ".flattened", {"self"}, "ProvDocument.flattened"))
    return out


def _written_field(node):
    """Name of the self-field a writing statement / call touches: self.F = .., self.F[k] = .., self.F.clear() ..."""
    cands = []
    if isinstance(node, ast.Assign):
        cands = list(node.targets)
    elif isinstance(node, (ast.AugAssign, ast.AnnAssign)):
        cands = [node.target]
    elif isinstance(node, ast.Expr) and isinstance(node.value, ast.Call):
        cands = [node.value.func]
    elif isinstance(node, ast.Call):
        cands = [node.func]
    elif isinstance(node, ast.Delete):
        cands = list(node.targets)
    for c in cands:
        cur = c
        while isinstance(cur, (ast.Subscript, ast.Attribute)):
            if isinstance(cur, ast.Attribute) and isinstance(cur.value, ast.Name) and cur.value.id == "self":
                return cur.attr
            cur = cur.value
    return None


def derived_field_consistent(ctx: Ctx, cls: str, F: str):
    """Is field F of class `cls` derived state that is provably kept consistent?  (ok, reason)
    F counts as a consistent cache when (1) every store into it is either a reset (None / empty / .clear()) or a fill, (2) the
    functions that fill it compute from the object's own fields only - no method call or attribute read on another repository
    object, no walk over a container of records - and (3) every write, anywhere in the package, of a field those computations read
    is made on `self` in a method of the same class hierarchy and is accompanied by a reset of F on every path through it."""
    key = "derived:%s:%s" % (cls, F)
    if key in ctx._cache:
        return ctx._cache[key]
    hier = [c for c in ctx.p.classes if cls in ctx.p.mro(c) or c in ctx.p.mro(cls)]
    own_fields = {}
    for c in hier:
        own_fields.update(field_table(ctx, c))

    def is_reset(site):
        n = site.node
        if site.how == "rebind" and isinstance(n, ast.Assign):
            v = n.value
            return (isinstance(v, ast.Constant) and v.value is None) or (isinstance(v, (ast.Dict, ast.List, ast.Set, ast.Tuple)) and not getattr(v, "elts", getattr(v, "keys", []))) or \
                (isinstance(v, ast.Call) and call_name(v) in ("dict", "list", "set") and not v.args)
        return site.how in ("call:clear", "delitem") or (site.how == "call:pop" and site.depth == 0)

    sites = [x for x in mutation_sites(ctx, {F}) if not x.func.endswith(".__init__")]
    if any(x.receiver != "self" or not any(x.func.startswith(c + ".") for c in hier) for x in sites):
        out = (False, "%s is written from outside the class" % F)
        ctx._cache[key] = out
        return out
    fills = [x for x in sites if not is_reset(x)]
    resets = [x for x in sites if is_reset(x)]
    if not fills:
        out = (False, "no computing store into %s found" % F)
        ctx._cache[key] = out
        return out
    # (2) what the fills read
    deps, foreign = set(), []
    seen = set()
    todo = [x.func for x in fills]
    while todo:
        fq = todo.pop()
        if fq in seen:
            continue
        seen.add(fq)
        fi = ctx.fn(fq)
        for n in walk_function(fi.node):
            if isinstance(n, ast.Attribute) and isinstance(n.value, ast.Name) and n.value.id == "self" and isinstance(n.ctx, ast.Load) and n.attr != F:
                if n.attr in own_fields:
                    deps.add(n.attr)
                    fld = own_fields[n.attr]
                else:
                    mq = next((ctx.p.lookup_method(c, n.attr) for c in hier if ctx.p.lookup_method(c, n.attr)), None)
                    if mq:
                        todo.append(mq)
            # state of another object: x.method() / x.attr where x is a field of self holding an object, or a loop variable over a field
            if isinstance(n, ast.Attribute) and isinstance(n.value, ast.Attribute) and isinstance(n.value.value, ast.Name) and n.value.value.id == "self" and n.value.attr in own_fields:
                fld = own_fields[n.value.attr]
                if fld.kind in ("REF", "OWNED") and not fld.container.startswith(("dict", "list", "set", "defaultdict", "{", "[")) and n.attr not in ("uri", "localpart", "namespace", "prefix"):
                    foreign.append("%s: %s" % (short(fq), norm(n)))
            if isinstance(n, (ast.For, ast.comprehension)) and isinstance(n.target, ast.Name):
                it = n.iter
                root = it
                while isinstance(root, (ast.Call, ast.Attribute, ast.Subscript)):
                    root = root.func if isinstance(root, ast.Call) else root.value
                over_field = any(isinstance(x, ast.Attribute) and isinstance(x.value, ast.Name) and x.value.id == "self" and x.attr in own_fields and own_fields[x.attr].container.startswith(("list", "[")) for x in ast.walk(it))
                if over_field:
                    body = n.body if isinstance(n, ast.For) else []
                    if any(isinstance(y, ast.Attribute) and isinstance(y.value, ast.Name) and y.value.id == n.target.id for b in body for y in ast.walk(b)) or isinstance(n, ast.comprehension):
                        foreign.append("%s: walks %s and reads its elements" % (short(fq), norm(it)[:40]))
    if foreign:
        out = (False, "its value is computed from the state of other objects (%s), whose changes this object does not hear of" % "; ".join(sorted(set(foreign))[:2]))
        ctx._cache[key] = out
        return out
    # (3) every writer of a dependency resets F
    for w in mutation_sites(ctx, deps):
        if w.func.endswith(".__init__") and w.receiver == "self":
            continue
        if w.how == "read-insert":
            continue
        if w.receiver != "self" or not any(w.func.startswith(c + ".") for c in hier):
            out = (False, "%s, which it is computed from, is written on another object's behalf in %s (%s)" % (w.field, short(w.func), w.text[:40]))
            ctx._cache[key] = out
            return out
        g = get_cfg(ctx, w.func)
        rs = [r for r in resets if r.func == w.func]
        rs_ids = set()
        for r in rs:
            try:
                rs_ids.add(node_of(g, r.node).id)
            except Exception:
                pass
        # a call on self to a method whose first statements reset F counts as a reset
        for c in calls_in(ctx.fn(w.func).node):
            if isinstance(c.func, ast.Attribute) and isinstance(c.func.value, ast.Name) and c.func.value.id == "self":
                mq = next((ctx.p.lookup_method(k, c.func.attr) for k in hier if ctx.p.lookup_method(k, c.func.attr)), None)
                if mq and any(r.func == mq and any(r.node is st or (isinstance(st, ast.Expr) and st.value is r.node) for st in ctx.fn(mq).node.body) for r in resets):
                    try:
                        rs_ids.add(node_of(g, c).id)
                    except Exception:
                        pass
        try:
            wn = node_of(g, w.node)
        except Exception:
            continue
        if wn.id in rs_ids:
            continue
        before = g.find_path(g.entry, wn, avoid=lambda x: x.id in rs_ids, labels_excluded=("exc", "raise")) is not None
        after = g.find_path(wn, g.exit, avoid=lambda x: x.id in rs_ids, labels_excluded=("exc", "raise")) is not None
        if before and after:
            out = (False, "%s writes %s (%s) on a path that never resets %s" % (short(w.func), w.field, w.text[:40], F))
            ctx._cache[key] = out
            return out
    out = (True, "computed from %s only; every writer of those resets it" % sorted(deps))
    ctx._cache[key] = out
    return out


@rule("C13", "C13.R1", "effect closure of every exporter: nothing reachable from the exported object is written", 20,
      decides="serialising, printing, converting, comparing, hashing, unifying and flattening cannot change content, record order or namespace declarations")
def c13_r1(ctx: Ctx, rule, only=None):
    res = RuleResult()
    eff = get_effects(ctx)
    unresolved = sorted({u for s in eff.sum.values() for u in s.unresolved if not u.rsplit(": ", 1)[1].split("(")[0].endswith(("Exception", "Required", "DoNotExist", "Error"))})
    res.samples = [{"site": "call resolution", "reflective_sites": eff.reflective, "unresolved": unresolved[:10], "fixpoint_iterations": eff.iterations}]
    for q, roots, label in exporters(ctx):
        if only is not None and not only(q, label):
            continue
        s = eff.sum[q]
        closure = eff.closure(q)
        mine = [e for e in s.effects if base_of(e[0]) in roots]
        res.ob("%s: closure of %d functions, %d effects on the exported object, classes %s" % (label, len(closure), len(mine), sorted({e[1] for e in mine})))
        bad = {}
        for e in mine:
            if e[1] in ALLOWED:
                continue
            bad.setdefault((e[0], e[1]), []).append(e)
        for (root, klass), es in sorted(bad.items()):
            chain = eff.explain(q, es[0])
            fq, node = s.sites[es[0]]
            why = ""
            if klass == "OTHER":
                # a field outside content and declarations: acceptable when it is derived state that is provably kept consistent
                verdicts = []
                for e1 in es:
                    fq1, node1 = eff.leaf_site(q, e1)
                    ffi = ctx.p.functions.get(fq1)
                    F = _written_field(node1)
                    if ffi is None or not ffi.cls or F is None:
                        verdicts.append((False, "not a write of an own field"))
                        continue
                    verdicts.append(derived_field_consistent(ctx, ffi.cls, F))
                if verdicts and all(v[0] for v in verdicts):
                    res.ob("%s: writes %s, derived state kept consistent (%s)" % (label, "; ".join(sorted({x[2] for x in es}))[:60], verdicts[0][1][:100]))
                    continue
                why = " [not accepted as a consistent cache: %s]" % next(v[1] for v in verdicts if not v[0])
            res.fail(rule.id, "export-writes::%s::%s::%s" % (q, klass, root.replace(HOP, ">")), ctx.loc(fq, node),
                     "%s has a %s effect on %s (%s): %s%s" % (label, klass, root, "; ".join(sorted({x[2] for x in es}))[:120], " -> ".join(chain), why),
                     "export the document, then export it again (or compare it with a twin built by the same calls): content, order or declarations differ")
    for k, why in ALLOWED.items():
        res.exceptions.append("%s allowed: %s" % (k, why))
    return res


@rule("C13", "C13.R2", "no module-level table is mutated on an export path", 1,
      decides="a second export sees the same style / mapping tables as the first")
def c13_r2(ctx: Ctx, rule):
    res = RuleResult()
    eff = get_effects(ctx)
    for q, roots, label in exporters(ctx):
        s = eff.sum[q]
        g = [e for e in s.effects if e[0].startswith("global:")]
        res.ob("%s: writes to module-level objects: %d" % (label, len(g)), nontrivial=bool(g) or "dot" in q or "serialize" in q)
        for e in g:
            fq, node = s.sites[e]
            res.fail(rule.id, "global-table-write::%s::%s" % (q, e[0]), ctx.loc(fq, node),
                     "%s mutates the module-level object %s (%s): %s" % (label, e[0][7:], e[2], " -> ".join(eff.explain(q, e))),
                     "the second export of an n-ary relation raises KeyError: 'label' / uses a style changed by the first")
    # process-wide registries of third-party libraries are "module-level tables" too
    EXT_GLOBAL_MUTATORS = {"register_namespace", "set_default_parser", "setlocale", "register_adapter", "install_opener", "setdefaultencoding", "set_element_class_lookup"}
    n_ext = 0
    for q, roots, label in exporters(ctx):
        for fq in sorted(eff.closure(q)):
            ffi = ctx.p.functions.get(fq)
            if ffi is None or isinstance(ffi.node, ast.Lambda):
                continue
            for c in calls_in(ffi.node):
                if call_name(c) in EXT_GLOBAL_MUTATORS and isinstance(c.func, ast.Attribute) and not (isinstance(c.func.value, ast.Name) and c.func.value.id == "self"):
                    n_ext += 1
                    res.fail(rule.id, "external-global-registry::%s::%s" % (fq, call_name(c)), ctx.loc(fq, c),
                             "%s calls %s on the export path of %s: a process-wide registry of the library is changed by exporting" % (short(fq), norm(c.func), label),
                             "exporting one document changes the prefixes lxml invents for another: the same document exports to different XML text before and after")
    res.ob("calls that change a process-wide registry of lxml / locale / sqlite3 on export paths: %d" % n_ext, nontrivial=False)
    return res


@rule("C13", "C13.R3", "every reader of the whole attribute multimap tolerates empty value sets", 3, family="F-PATH",
      decides="the empty entries that formal_attributes/args/label/get_attribute leave behind never surface in an export")
def c13_r3(ctx: Ctx, rule):
    res = RuleResult()
    mm = attr_slot(ctx)
    for q, fi in ctx.p.functions.items():
        for n in walk_function(fi.node):
            # for k, vs in X._attributes.items():   /   for k in X._attributes:
            if isinstance(n, (ast.For, ast.comprehension)):
                it = n.iter
                whole = None

                def is_mm(e):
                    # the multimap itself, or a local bound to it once (attributes = self._attributes)
                    if isinstance(e, ast.Name):
                        e = resolve_local(fi.node, e)
                    return isinstance(e, ast.Attribute) and e.attr == mm

                if isinstance(it, ast.Call) and isinstance(it.func, ast.Attribute) and it.func.attr in ("items", "values") and is_mm(it.func.value):
                    whole = it.func.attr
                elif is_mm(it):
                    whole = "keys"
                if not whole:
                    continue
                tgt = n.target
                vname = None
                if whole == "items" and isinstance(tgt, ast.Tuple) and len(tgt.elts) == 2 and isinstance(tgt.elts[1], ast.Name):
                    vname = tgt.elts[1].id
                elif whole == "values" and isinstance(tgt, ast.Name):
                    vname = tgt.id
                body = n.body if isinstance(n, ast.For) else None
                ok, how = False, ""
                if isinstance(n, ast.comprehension) and vname and any(norm(c) in (vname, "len(%s) > 0" % vname, "len(%s)" % vname) or norm(c).startswith(vname + " and ") for c in n.ifs):
                    ok, how = True, "empty sets filtered by the comprehension's own condition"
                elif isinstance(n, ast.comprehension):
                    # [(k, v) for k, vs in m.items() for v in vs]: an empty set contributes nothing
                    ok, how = True, "values only iterated in a nested comprehension clause"
                    comp_parent = [c for c in walk_function(fi.node) if isinstance(c, (ast.ListComp, ast.SetComp, ast.GeneratorExp, ast.DictComp)) and n in c.generators]
                    for c in comp_parent:
                        inner = [g for g in c.generators if g is not n and vname and norm(g.iter) == vname]
                        uses_first = any(isinstance(x, ast.Call) and call_name(x) == "first" for x in ast.walk(c))
                        ok = bool(inner) and not uses_first
                elif whole == "keys":
                    # for attr in m: ... for value in m[attr]  (iteration of the set) or a guarded first()
                    uses_first = [x for b in body for x in ast.walk(b) if isinstance(x, ast.Call) and call_name(x) == "first"]
                    ok, how = not uses_first, "per-key sets are iterated"
                else:
                    # skipping empties before first()/indexing
                    skip = any(isinstance(s0, ast.If) and norm(s0.test) in ("not %s" % vname, "len(%s) == 0" % vname, "not len(%s)" % vname) and any(isinstance(x, ast.Continue) for x in s0.body) for s0 in body[:2])
                    uses_first = [x for b in body for x in ast.walk(b) if isinstance(x, ast.Call) and call_name(x) == "first" and x.args and norm(x.args[0]) == vname]
                    uses_len1 = any(isinstance(x, ast.Compare) and norm(x.left) == "len(%s)" % vname for b in body for x in ast.walk(b))
                    ok = skip or not (uses_first or uses_len1)
                    how = "empty sets skipped before use" if skip else "values only iterated"
                res.ob("%s: iterates %s.%s(): %s (%s)" % (short(q), mm, whole, "tolerant" if ok else "NOT tolerant", how))
                if not ok:
                    res.fail(rule.id, "empty-set-intolerant::%s" % q, ctx.loc(q, n),
                             "%s walks the whole attribute map and applies first()/len()==1 to value sets without skipping empty ones" % short(q),
                             "doc.serialize(format='rdf') (or any read of formal_attributes/label) followed by a JSON export prints None / raises for attributes that were only looked up")
    # `k in X._attributes` is no evidence of a value: reads of the defaultdict leave empty entries behind, so a
    # membership test that guards first()/indexing of the entry must be conjoined with a truth test of the entry
    for q, fi in ctx.p.functions.items():
        for n in walk_function(fi.node):
            if not isinstance(n, (ast.If, ast.IfExp)):
                continue
            conj = n.test.values if isinstance(n.test, ast.BoolOp) and isinstance(n.test.op, ast.And) else [n.test]
            if isinstance(n.test, ast.BoolOp) and isinstance(n.test.op, ast.Or):
                # `k in m or m[k]`: the membership test is an alternative, not a conjunct - the truth test beside it guards nothing
                conj = [v for v in n.test.values if isinstance(v, ast.Compare) and len(v.ops) == 1 and isinstance(v.ops[0], ast.In) and isinstance(v.comparators[0], ast.Attribute) and v.comparators[0].attr == mm]
            for c in conj:
                if not (isinstance(c, ast.Compare) and len(c.ops) == 1 and isinstance(c.ops[0], ast.In) and isinstance(c.comparators[0], ast.Attribute) and c.comparators[0].attr == mm):
                    continue
                entry = "%s[%s]" % (norm(c.comparators[0]), norm(c.left))
                truthy = any(norm(o) in (entry, "len(%s)" % entry, "len(%s) > 0" % entry, "bool(%s)" % entry) for o in conj if o is not c)
                body = n.body if isinstance(n, ast.If) else [n.body]
                firsts = [x for b in body for x in ast.walk(b) if isinstance(x, ast.Call) and call_name(x) in ("first", "next", "min", "max", "sorted") and x.args and entry in norm(x.args[0])]
                firsts += [x for b in body for x in ast.walk(b) if isinstance(x, ast.Subscript) and norm(x.value) in (entry, "list(%s)" % entry)]
                # a private accessor that does the single-value read for a key: self._first_value(k)
                for b in body:
                    for x in ast.walk(b):
                        if isinstance(x, ast.Call) and isinstance(x.func, ast.Attribute) and norm(x.func.value) == norm(c.comparators[0].value) and x.args and norm(x.args[0]) == norm(c.left) and fi.cls:
                            hq = ctx.p.lookup_method(fi.cls, x.func.attr)
                            if hq and any(isinstance(y, ast.Call) and call_name(y) in ("first", "next", "min", "max") and y.args and mm in norm(y.args[0]) for y in walk_function(ctx.fn(hq).node)):
                                firsts.append(x)
                ok = truthy or not firsts
                res.ob("%s: membership test `%s` guards %d single-value read(s) of the entry: %s" % (short(q), norm(c), len(firsts), "conjoined with a truth test of the entry" if truthy else ("no single-value read" if ok else "NOT conjoined with a truth test")))
                if not ok:
                    res.fail(rule.id, "membership-as-presence::%s" % q, ctx.loc(q, n),
                             "%s treats `%s` as proof that the attribute has a value and takes first() of the entry; reads through formal_attributes/args/get_attribute leave empty entries behind" % (short(q), norm(c)),
                             "prov_to_dot(doc) / doc.serialize(format='rdf') followed by doc.get_provn() prints None where '-' was printed before")
    return res


@rule("C13", "C13.R4", "anonymous-identifier generators are created per container call, never shared", 2,
      decides="the second export numbers its blank nodes exactly like the first")
def c13_r4(ctx: Ctx, rule):
    res = RuleResult()
    # the counter behind NamespaceManager's anonymous identifiers is document state: no serializer, exporter or converter module
    # draws from it (each call increments it, so a second export would number its blank nodes differently)
    counter_methods = set()
    for mname, mq in ctx.p.classes[NSM].methods.items():
        f0 = ctx.fn(mq)
        if any(isinstance(x, ast.AugAssign) and isinstance(x.target, ast.Attribute) and norm(x.target.value) == "self" for x in walk_function(f0.node)) and not mname.startswith("__"):
            counter_methods.add(mname)
    n_draw = 0
    for q, fi in ctx.p.functions.items():
        if isinstance(fi.node, ast.Lambda) or not (fi.module.startswith("prov.serializers") or fi.module in (GR, DOT)):
            continue
        for c in calls_in(fi.node):
            if isinstance(c.func, ast.Attribute) and c.func.attr in counter_methods and ctx.p.lookup_method(fi.cls, c.func.attr) is None if fi.cls else isinstance(c.func, ast.Attribute) and c.func.attr in counter_methods:
                n_draw += 1
                res.fail(rule.id, "export-draws-from-document-counter::%s" % q, ctx.loc(q, c),
                         "%s calls %s, which advances a counter kept on the document's namespace manager" % (short(q) if q.count(".") > 2 else q, norm(c.func)[:50]),
                         "serialize(format='json') twice on one document with an unidentified relation: _:id1 the first time, _:id2 the second")
    res.ob("methods of NamespaceManager that advance a counter: %s; calls to them from serializer / graph / dot modules: %d" % (sorted(counter_methods), n_draw))
    for mod in (JS, RD):
        gen = mod + ".AnonymousIDGenerator"
        if gen not in ctx.p.classes:
            raise AnalysisError("anchor vanished: %s" % gen)
        sites = []
        for q, fi in ctx.p.functions.items():
            if fi.module != mod:
                continue
            for c in calls_in(fi.node):
                r = ctx.p.resolve_dotted(fi.module, c.func)
                if r and r[0] == "class" and r[1] == gen:
                    sites.append((q, c))
        # module level instances
        for s in ctx.p.units[mod].tree.body:
            for c in ast.walk(s) if isinstance(s, (ast.Assign, ast.AnnAssign, ast.Expr)) else []:
                if isinstance(c, ast.Call) and dotted(c.func) == "AnonymousIDGenerator":
                    sites.append((mod, c))
        for q, c in sites:
            local = q != mod and not any(isinstance(t, ast.Attribute) for a in walk_function(ctx.fn(q).node) if isinstance(a, ast.Assign) and a.value is c for t in a.targets)
            res.ob("%s creates its generator per call: %s" % (short(q) if q != mod else mod, local))
            if not local:
                res.fail(rule.id, "shared-id-generator::%s" % q, ctx.loc(mod, c), "the anonymous-identifier generator in %s outlives one container call" % q,
                         "the second export of the same document numbers anonymous relations from _:id7 instead of _:id1: the texts differ")
        if not sites:
            # the exporter no longer owns a generator: whatever numbers its blank nodes now is state that outlives the call
            # unless the effect closure (C13.R1) shows otherwise; say so rather than fail the analysis
            res.ob("%s constructs no AnonymousIDGenerator: blank-node numbering is left to C13.R1's effect closure" % mod)
    return res


# ===================================================================================== C12
OWNED_HOLDERS = [BUNDLE, DOC, RECORD, NSM]


@rule("C12", "C12.R1", "no alias store into an owned container field", 10,
      decides="no object ever shares its record list, index, attribute map, bundle map or namespace manager with another")
def c12_r1(ctx: Ctx, rule):
    res = RuleResult()
    owned = {}
    for cls in OWNED_HOLDERS:
        for f in field_table(ctx, cls).values():
            if f.kind == "OWNED":
                owned.setdefault(f.name, set()).add(cls)
    for s in mutation_sites(ctx, set(owned)):
        if s.how != "rebind" or not isinstance(s.node, (ast.Assign, ast.AnnAssign)):
            continue
        fi = ctx.fn(s.func)
        val = s.node.value
        fresh = is_fresh_expr(fi.node, val) or _is_ctor(ctx, fi, val)
        res.ob("%s: %s  [value fresh: %s]" % (short(s.func), s.text[:80], fresh))
        if fresh and s.field == attr_slot(ctx):
            # a fresh *map* is not enough for the attribute multimap: its values are mutable sets
            rv = resolve_local(fi.node, val)
            src = [x for x in ast.walk(rv) if isinstance(x, ast.Attribute) and x.attr == s.field]
            comp = rv if isinstance(rv, ast.DictComp) else next((a for a in (rv.args if isinstance(rv, ast.Call) and call_name(rv) in ("defaultdict", "dict", "OrderedDict") else []) if isinstance(a, ast.DictComp)), None)
            deep = comp is not None and isinstance(comp.value, ast.Call) and call_name(comp.value) in ("set", "list", "frozenset", "tuple", "copy") and all(any(x is y for g in comp.generators for y in ast.walk(g.iter)) for x in src)
            deep = deep or (isinstance(rv, ast.Call) and (dotted(rv.func) or "").endswith("deepcopy"))
            if src and not deep:
                res.ob("%s: %s  [per-attribute sets copied: False]" % (short(s.func), s.text[:80]))
                res.fail(rule.id, "alias-store-element::%s" % s.key, ctx.loc(s.func, s.node),
                         "%s fills %s.%s with a shallow copy of another record's attribute map (%s): the per-attribute value sets are shared" % (short(s.func), s.receiver, s.field, norm(val)[:50]),
                         "c = r.copy(); c.add_attributes({existing_name: new_value}) also changes r")
        if not fresh:
            res.fail(rule.id, "alias-store::%s" % s.key, ctx.loc(s.func, s.node),
                     "%s stores %s into the owned field %s.%s without copying" % (short(s.func), norm(val)[:60], s.receiver, s.field),
                     "the two objects now share that container: registering a namespace / adding a record on one shows up in the other")
    # element level: a mutable container stored *inside* an owned container must be fresh too
    mm = attr_slot(ctx)
    for s in mutation_sites(ctx, {mm}):
        if s.how == "setitem" and s.depth == 0 and isinstance(s.node, ast.Assign):
            fi = ctx.fn(s.func)
            val = s.node.value
            fresh = is_fresh_expr(fi.node, val)
            res.ob("%s: %s  [per-attribute set fresh: %s]" % (short(s.func), s.text[:80], fresh))
            if not fresh:
                res.fail(rule.id, "alias-store-element::%s" % s.key, ctx.loc(s.func, s.node),
                         "%s stores %s as a per-attribute value set without copying" % (short(s.func), norm(val)[:60]),
                         "two records share one value set: adding a value to the copy changes the original")
        elif s.how in ("call:update",) and s.depth == 0:
            res.ob("%s: %s  [bulk update of the attribute map]" % (short(s.func), s.text[:80]))
            res.fail(rule.id, "alias-store-element::%s" % s.key, ctx.loc(s.func, s.node),
                     "%s fills the attribute map with %s: the per-attribute sets of the source are shared, not copied" % (short(s.func), s.text[:60]),
                     "c = r.copy(); c.add_attributes({existing_name: new_value}) also changes r")
    # copy.copy(obj) of an object that owns mutable containers copies the references to them: the "copy" and the original share
    # every one of those containers (for a dict subclass only the dict items are copied, the instance fields are shared)
    n_shallow = 0
    for q, fi in ctx.p.functions.items():
        if fi.module.startswith("scripts.") or isinstance(fi.node, ast.Lambda):
            continue
        for c in calls_in(fi.node):
            r = ctx.p.resolve_dotted(fi.module, c.func) if dotted(c.func) else None
            if not (r and r[0] == "ext" and r[1] == "copy.copy" and c.args):
                continue
            n_shallow += 1
            a = c.args[0]
            cls = fi.cls if isinstance(a, ast.Name) and a.id == "self" else None
            if cls is None and isinstance(a, ast.Attribute) and isinstance(a.value, ast.Name) and fi.cls:
                # copy.copy(x.field) where the field is created as an object of a repository class
                for k in ctx.p.mro(fi.cls):
                    fld = field_table(ctx, k).get(a.attr) if k in ctx.p.classes else None
                    if fld is not None:
                        for cq in ctx.p.classes:
                            nm = cq.rsplit(".", 1)[1]
                            if fld.container in (nm, "<%s>" % nm) or fld.container.startswith(nm + "(") or fld.init.startswith(nm + "("):
                                cls = cq
            if cls is None:
                res.ob("%s: %s: the class of the argument is not known statically: not judged" % (short(q), norm(c)[:50]), nontrivial=False)
                continue
            shared = sorted(f.name for k in ctx.p.mro(cls) if k in ctx.p.classes for f in field_table(ctx, k).values() if f.kind == "OWNED")
            res.ob("%s: %s makes a shallow copy of a %s, which owns the containers %s" % (short(q), norm(c)[:40], cls.rsplit(".", 1)[1], shared))
            if shared:
                res.fail(rule.id, "shallow-copy::%s" % q, ctx.loc(q, c),
                         "%s makes %s: the new %s shares %s with the original" % (short(q), norm(c)[:40], cls.rsplit(".", 1)[1], ", ".join(shared)),
                         "register a namespace (or add a record) on the copy: it appears in the original too")
    res.ob("copy.copy() calls in the package: %d" % n_shallow, nontrivial=False)
    return res


def _is_ctor(ctx, fi, val):
    val = resolve_local(fi.node, val)
    if isinstance(val, ast.Call):
        r = ctx.p.resolve_dotted(fi.module, val.func)
        return bool(r and r[0] == "class")
    return False


@rule("C12", "C12.R2", "the record insertion point only ever receives freshly constructed records", 1,
      decides="records are re-created in the target, never re-parented or shared between containers")
def c12_r2(ctx: Ctx, rule):
    res = RuleResult()
    rl, ix, sites, funcs = insertion_points(ctx)
    ins = {f.rsplit(".", 1)[1] for f in funcs if f.startswith(BUNDLE + ".")}
    for q, fi in ctx.p.functions.items():
        for c in calls_in(fi.node):
            if call_name(c) in ins and isinstance(c.func, ast.Attribute) and c.args:
                from .paths import record_ctor_func

                a = resolve_local(fi.node, c.args[0])
                ok = isinstance(a, ast.Call) and (record_ctor_func(ctx, q, a) is not None or _is_ctor(ctx, fi, a))
                res.ob("%s: %s receives %s: freshly constructed=%s" % (short(q), norm(c.func), norm(a)[:60], ok))
                if not ok:
                    res.fail(rule.id, "shared-record::%s::%s" % (q, norm(c)), ctx.loc(q, c),
                             "%s inserts %s, which is not constructed on the spot" % (short(q), norm(c.args[0])),
                             "the same record object sits in two containers: add_attributes through one changes the other")
    return res


@rule("C12", "C12.R3", "operations documented as returning a new object return a fresh one", 5,
      decides="copy / unified / flattened (with bundles) / deserialize never hand back an alias of their source")
def c12_r3(ctx: Ctx, rule):
    res = RuleResult()
    eff = get_effects(ctx)
    targets = [(RECORD + ".copy", set()), (DOC + ".unified", set()), (BUNDLE + ".unified", set()), (DOC + ".deserialize", set()), (BUNDLE + ".add_record", set()),
               (BUNDLE + ".new_record", set()), (DOC + ".bundle", set())]
    for q, _ in targets:
        s = eff.sum[q]
        arg_roots = {r for r in s.ret_roots if not r.startswith("global:")}
        res.ob("%s: returns fresh=%s (may alias: %s)" % (short(q), not arg_roots, sorted(arg_roots)))
        if arg_roots and q != DOC + ".bundle":
            res.fail(rule.id, "returns-alias::%s" % q, ctx.loc(q, ctx.fn(q).node), "%s can return an object reachable from %s" % (short(q), sorted(arg_roots)),
                     "the caller mutates the 'new' object and changes the source")
    # flattened: the bundle branch must return a fresh document (returning self when there are no bundles is documented)
    q = DOC + ".flattened"
    fi = ctx.fn(q)
    for n in walk_function(fi.node):
        if isinstance(n, ast.Return) and n.value is not None:
            v = resolve_local(fi.node, n.value)
            is_self = norm(n.value) == "self"
            fresh = _is_ctor(ctx, fi, n.value)
            guarded = False
            if is_self:
                # allowed only on the no-bundles branch
                for t in walk_function(fi.node):
                    if isinstance(t, ast.If) and (ctx.field_named(DOC, "bundles", "_bundles") in norm(t.test) or "has_bundles" in norm(t.test) or "self.bundles" in norm(t.test)):
                        neg = isinstance(t.test, ast.UnaryOp)
                        arm = t.body if neg else t.orelse
                        guarded = guarded or any(x is n for b in arm for x in ast.walk(b))
            res.ob("flattened returns %s: fresh=%s self-on-no-bundles=%s" % (norm(n.value), fresh, guarded))
            if not fresh and not guarded:
                res.fail(rule.id, "returns-alias::%s::%s" % (q, norm(n.value)), ctx.loc(q, n), "flattened() can return %s for a document with bundles" % norm(n.value),
                         "mutating the flattened document changes the original")
    return res


@rule("C12", "C12.R4", "attaching or merging takes nothing by reference from a document argument", 3,
      decides="add_bundle(document) converts through a fresh bundle; update() re-creates bundles instead of adopting them")
def c12_r4(ctx: Ctx, rule):
    res = RuleResult()
    eff = get_effects(ctx)
    # 1. add_bundle: on the is_document() path the stored bundle is a fresh ProvBundle built from registered namespaces
    q = DOC + ".add_bundle"
    fi = ctx.fn(q)
    par = fi.params[1]
    doc_branch = [n for n in walk_function(fi.node) if isinstance(n, ast.If) and "is_document" in norm(n.test) and par in norm(n.test)]
    if not doc_branch:
        raise AnalysisError("add_bundle: is_document() branch not found")
    rebinds = [a for a in ast.walk(doc_branch[0]) if isinstance(a, ast.Assign) and any(isinstance(t, ast.Name) and t.id == par for t in a.targets)]
    ok = bool(rebinds) and all(_is_ctor(ctx, fi, a.value) for a in rebinds)
    res.ob("add_bundle(document): the parameter is rebound to a freshly constructed bundle: %s" % ok)
    if not ok:
        res.fail(rule.id, "document-attached-by-reference", ctx.loc(q, doc_branch[0]), "add_bundle keeps the document object itself (or a non-fresh object) as the bundle",
                 "records added to the source document later appear in the target's bundle")
    # nothing of the source manager is copied by reference inside that branch
    for a in ast.walk(doc_branch[0]):
        if isinstance(a, ast.Assign):
            for t in a.targets:
                if isinstance(t, ast.Attribute) and t.attr == "_namespaces":
                    fresh = _is_ctor(ctx, fi, a.value) and not any(isinstance(x, ast.Call) and call_name(x) in ("copy",) for x in ast.walk(a.value))
                    shallow = any(isinstance(x, ast.Call) and (dotted(x.func) or "").endswith("copy.copy") or (isinstance(x, ast.Call) and call_name(x) == "copy") for x in ast.walk(a.value))
                    res.ob("add_bundle(document): %s  [fresh manager: %s, shallow copy: %s]" % (norm(a)[:70], fresh, shallow))
                    if not fresh or shallow:
                        res.fail(rule.id, "manager-shared::%s" % norm(a)[:60], ctx.loc(q, a), "add_bundle gives the new bundle %s: the inner registries of the source manager are shared" % norm(a.value)[:60],
                                 "source.add_namespace('late', uri) afterwards makes the target's bundle declare 'late'")
    # 2. retention summaries: which callee parameters are kept by reference
    for q2 in (DOC + ".update", BUNDLE + ".update", DOC + ".flattened", DOC + ".unified", BUNDLE + ".unified"):
        s = eff.sum[q2]
        kept = {k: v for k, v in s.retains.items() if base_of(k) in ctx.fn(q2).params[1:] or k == "self"}
        res.ob("%s retains by reference: %s" % (short(q2), kept or "nothing"))
        for k, how in kept.items():
            res.fail(rule.id, "retains-argument::%s::%s" % (q2, k.replace(HOP, ">")), ctx.loc(q2, ctx.fn(q2).node),
                     "%s keeps (part of) its argument %s by reference: %s" % (short(q2), k, how),
                     "d.update(other): a bundle of `other` becomes a bundle of d as well; adding a record through d changes other")
    return res


@rule("C12", "C12.R5", "what a deriving operation stores by reference into its result is made on the spot", 1,
      decides="unified / flattened / update never attach an object of the source (a bundle, a record) to the derived document")
def c12_r5(ctx: Ctx, rule):
    res = RuleResult()
    eff = get_effects(ctx)
    # callee name -> positions / names of parameters the callee keeps by reference (from the retention summaries)
    keepers = {}
    for q, s in eff.sum.items():
        fi = ctx.p.functions.get(q)
        if fi is None or not fi.cls or fi.cls not in (BUNDLE, DOC) or isinstance(fi.node, ast.Lambda):
            continue
        ps = fi.params
        for k in s.retains:
            if HOP not in k and k in ps[1:] and "prov.identifier.QualifiedName" not in eff.param_types.get(q, {}).get(k, set()):
                keepers.setdefault(fi.name, set()).add((ps.index(k) - 1, k))
    res.ob("methods of ProvBundle/ProvDocument that keep an argument by reference: %s" % sorted("%s(%s)" % (m, ",".join(sorted(k for _, k in v))) for m, v in keepers.items()), nontrivial=bool(keepers))
    if not keepers:
        raise AnalysisError("no retaining method found (add_bundle should keep its bundle)")
    for q in (DOC + ".unified", BUNDLE + ".unified", DOC + ".flattened", DOC + ".update", BUNDLE + ".update"):
        fi = ctx.fn(q)
        for fq in ctx.helper_closure(q, 1):
            ffi = ctx.fn(fq)
            for c in calls_in(ffi.node):
                if not isinstance(c.func, ast.Attribute) or c.func.attr not in keepers:
                    continue
                for idx, pname in sorted(keepers[c.func.attr]):
                    a = c.args[idx] if idx < len(c.args) and not any(isinstance(x, ast.Starred) for x in c.args) else next((k.value for k in c.keywords if k.arg == pname), None)
                    if a is None:
                        continue
                    ok, why = _made_on_the_spot(ctx, eff, ffi, a)
                    res.ob("%s: %s keeps %s by reference: %s" % (short(fq), norm(c)[:60], norm(a), why))
                    if not ok:
                        res.fail(rule.id, "attaches-source-object::%s::%s" % (q, norm(c)[:50]), ctx.loc(fq, c),
                                 "%s hands %s to %s, which keeps it by reference, and %s" % (short(fq), norm(a), c.func.attr, why),
                                 "u = d.unified(); adding a record to a bundle of u adds it to the bundle of d")
    return res


def _made_on_the_spot(ctx, eff, fi, a):
    """Every value the expression can denote is constructed in this function (constructor or a callee whose result is fresh)."""
    def fresh_call(v):
        if not isinstance(v, ast.Call):
            return False
        if _is_ctor(ctx, fi, v):
            return True
        name = call_name(v)
        cands = [q for q, f2 in ctx.p.functions.items() if f2.name == name and f2.cls and not isinstance(f2.node, ast.Lambda)] if isinstance(v.func, ast.Attribute) else []
        if isinstance(v.func, ast.Name):
            r = ctx.p.resolve_name(fi.module, v.func.id)
            cands = [r[1]] if r and r[0] == "func" else []
        return bool(cands) and all(eff.sum[q].ret_fresh and not eff.sum[q].ret_roots and not eff.sum[q].ret_elem_roots for q in cands)

    if isinstance(a, ast.Call):
        return (fresh_call(a), "it is %sconstructed by the call" % ("" if fresh_call(a) else "not provably "))
    if not isinstance(a, ast.Name):
        return False, "it is %s, an existing object" % norm(a)
    if a.id in fi.params:
        return False, "it is the parameter %s" % a.id
    defs = []
    for n in walk_function(fi.node):
        if isinstance(n, ast.Assign):
            for t in n.targets:
                if isinstance(t, ast.Name) and t.id == a.id:
                    defs.append(n.value)
                elif isinstance(t, (ast.Tuple, ast.List)) and any(isinstance(x, ast.Name) and x.id == a.id for x in ast.walk(t)):
                    defs.append(None)
        elif isinstance(n, (ast.For, ast.comprehension)) and any(isinstance(x, ast.Name) and x.id == a.id for x in ast.walk(n.target)):
            defs.append(None)
        elif isinstance(n, (ast.With,)) and any(i.optional_vars is not None and any(isinstance(x, ast.Name) and x.id == a.id for x in ast.walk(i.optional_vars)) for i in n.items):
            defs.append(None)
        elif isinstance(n, ast.NamedExpr) and n.target.id == a.id:
            defs.append(n.value)
    if not defs:
        return False, "it has no local definition"
    bad = [d for d in defs if d is None or not fresh_call(d)]
    if bad:
        return False, "it can be %s, which is not made on the spot" % ("a loop/unpacking variable" if bad[0] is None else norm(bad[0])[:50])
    return True, "every definition of %s is a constructor or fresh-result call (%s)" % (a.id, "; ".join(norm(d)[:40] for d in defs))


# ===================================================================================== caches (shared)
CACHE_DECOS = ("cached_property", "lru_cache", "cache", "memoize", "memoized", "cached")
CACHE_ENTRIES = {
    "C07": [RD + ".ProvRDFSerializer.serialize", RD + ".ProvRDFSerializer.deserialize"],
    "C08": [DOC + ".unified", BUNDLE + ".unified"],
    "C09": [DOC + ".flattened", DOC + ".update", BUNDLE + ".update", DOC + ".add_bundle"],
    "C12": [RECORD + ".copy", DOC + ".unified", BUNDLE + ".unified", DOC + ".flattened", DOC + ".update", BUNDLE + ".update", DOC + ".add_bundle", DOC + ".deserialize", "prov.read",
            BUNDLE + ".add_record", BUNDLE + ".new_record"],
    "C14": [GR + ".prov_to_graph", GR + ".graph_to_prov"],
    "C15": [DOT + ".prov_to_dot"],
    "C16": [DOC + ".serialize", DOC + ".deserialize", "prov.read"],
}


def cached_functions(ctx: Ctx):
    out = []
    for q, fi in ctx.p.functions.items():
        if isinstance(fi.node, ast.Lambda) or fi.module.startswith("scripts."):
            continue
        for d in fi.node.decorator_list:
            if _is_cache_deco(d):
                out.append((q, fi, norm(d)))
    return out


def _is_cache_deco(d):
    name = (dotted(d.func) if isinstance(d, ast.Call) else dotted(d)) or ""
    return name.rsplit(".", 1)[-1] in CACHE_DECOS


_POSITIVE = """
import functools
from functools import lru_cache, cache
class K:
    @functools.cached_property
    def a(self): return 1
    @lru_cache(maxsize=None)
    def b(self, x): return x
    @cache
    def c(self): return 2
    @property
    def d(self): return 3
"""


def _matcher_selfcheck():
    hits = [f.name for f in ast.walk(ast.parse(_POSITIVE)) if isinstance(f, ast.FunctionDef) and any(_is_cache_deco(d) for d in f.decorator_list)]
    if hits != ["a", "b", "c"]:
        raise AnalysisError("cache-decorator matcher self-check failed: %s" % hits)
    return len(hits)


def _reaches(ctx, eff, entries, target):
    """Is `target` in the call closure of an entry, or named (as attribute / call) by a function of that closure?"""
    tname = target.rsplit(".", 1)[1]
    for e in entries:
        if e not in ctx.p.functions:
            raise AnalysisError("anchor vanished: function %s" % e)
        cl = eff.closure(e)
        if target in cl:
            return e, "called"
        for f in cl:
            fi = ctx.p.functions.get(f)
            if fi is None or isinstance(fi.node, ast.Lambda):
                continue
            for n in walk_function(fi.node):
                if isinstance(n, ast.Attribute) and n.attr == tname:
                    return e, "read in %s" % short(f)
                if isinstance(n, ast.Name) and n.id == tname and isinstance(n.ctx, ast.Load) and fi.module == ctx.p.functions[target].module:
                    return e, "called in %s" % short(f)
    return None, ""


def cache_rule(prop):
    def run(ctx: Ctx, rule):
        res = RuleResult()
        eff = get_effects(ctx)
        entries = CACHE_ENTRIES[prop]
        cached = cached_functions(ctx)
        res.ob("decorator matcher recognises %d of 3 caching spellings in the built-in positive example (and not @property)" % _matcher_selfcheck())
        res.ob("functions under a caching decorator in the package: %d %s" % (len(cached), [short(q) for q, _, _ in cached]), nontrivial=False)
        res.ob("entry points whose closure is searched for cached functions: %s" % [short(e) for e in entries])
        for e in entries:
            if e not in ctx.p.functions:
                raise AnalysisError("anchor vanished: function %s" % e)
        for q, fi, deco in cached:
            entry, how = _reaches(ctx, eff, entries, q)
            if entry is None:
                res.ob("%s (%s) is not reachable from this property's entry points" % (short(q), deco), nontrivial=False)
                continue
            # (a) a cached view of instance state that has writers
            if fi.cls:
                reads, todo, seen_f = set(), list(ctx.helper_closure(q, 2)), set()
                while todo:
                    fq = todo.pop()
                    if fq in seen_f:
                        continue
                    seen_f.add(fq)
                    for n in walk_function(ctx.fn(fq).node):
                        if isinstance(n, ast.Attribute) and isinstance(n.value, ast.Name) and n.value.id == "self" and isinstance(n.ctx, ast.Load):
                            reads.add(n.attr)
                            getter = ctx.p.lookup_method(fi.cls, n.attr)  # a property of the same class: its reads are this function's reads
                            if getter and ctx.fn(getter).is_property:
                                todo.append(getter)
                fields = {f for f in reads if any(f in field_table(ctx, c) for c in ctx.p.mro(fi.cls))}
                writers = [s for s in mutation_sites(ctx, fields) if not s.func.endswith(".__init__") and s.func != q] if fields else []
                res.ob("%s caches a value computed from %s; writers of those fields outside __init__: %d" % (short(q), sorted(fields), len(writers)))
                if writers:
                    w = writers[0]
                    res.fail(rule.id, "stale-cache::%s" % q, ctx.loc(q, fi.node),
                             "%s is cached (%s) but computed from %s, which %s still writes (%s): the cached value goes stale (reached from %s: %s)" % (short(q), deco, sorted(fields), short(w.func), w.text[:50], short(entry), how),
                             "read the view once (export / unified()), complete the record with add_attributes()/set_time(), then %s again: the result is built from the old view" % short(entry))
                    continue
            # (b) a cached function handing out a mutable object
            rt = {t for t in eff.sum[q].ret_types if t in ctx.p.classes and t not in ("prov.identifier.Namespace", "prov.identifier.Identifier", "prov.identifier.QualifiedName", M + ".Literal")}
            sm = eff.sum[q]
            makes = sm.ret_fresh or not sm.ret_roots  # an object handed back from an argument is the caller's own: caching it shares nothing new
            res.ob("%s returns repository objects of mutable classes: %s; made by the call: %s" % (short(q), sorted(x.rsplit(".", 1)[1] for x in rt) or "none", makes))
            if rt and makes:
                res.fail(rule.id, "cached-mutable-result::%s" % q, ctx.loc(q, fi.node),
                         "%s is cached (%s) and returns a %s: every caller gets the same object (reached from %s: %s)" % (short(q), deco, "/".join(sorted(x.rsplit(".", 1)[1] for x in rt)), short(entry), how),
                         "two calls with equal arguments return one object: modifying the first result changes the second")
        return res

    return run


for _p, _r in (("C07", "C07.R7"), ("C08", "C08.R8"), ("C09", "C09.R8"), ("C12", "C12.R6"), ("C14", "C14.R5"), ("C15", "C15.R5"), ("C16", "C16.R6")):
    RULES.setdefault(_p, []).append(Rule(_r, "no cached view of state that can still change, and no cached function handing out a mutable object, on this property's paths", 1, cache_rule(_p), "F-OWN",
                                         "what is computed from a record or read from a source reflects its current state, and results are not shared between calls"))


# ===================================================================================== one-shot iterators (shared)
ONE_SHOT_CALLS = {"iter", "map", "filter", "zip", "chain", "from_iterable", "reversed", "enumerate", "islice", "starmap", "zip_longest", "product", "groupby", "imap", "ifilter", "izip", "accumulate", "takewhile", "dropwhile"}
MATERIALISERS = {"list", "tuple", "set", "frozenset", "sorted", "dict"}


def _iteration_sites(fnode, name):
    """Syntactic sites that walk `name` as an iterable."""
    sites = []
    for n in walk_function(fnode):
        if isinstance(n, (ast.For, ast.comprehension)) and isinstance(n.iter, ast.Name) and n.iter.id == name:
            sites.append(n)
        elif isinstance(n, ast.Call) and call_name(n) in (MATERIALISERS | {"sum", "min", "max", "any", "all", "len", "first", "next", "extend", "update", "join"}) and any(isinstance(a, ast.Name) and a.id == name for a in n.args):
            if call_name(n) not in ("len",):
                sites.append(n)
        elif isinstance(n, ast.Compare) and any(isinstance(o, (ast.In, ast.NotIn)) for o in n.ops) and any(isinstance(c, ast.Name) and c.id == name for c in n.comparators):
            sites.append(n)
        elif isinstance(n, ast.Starred) and isinstance(n.value, ast.Name) and n.value.id == name:
            sites.append(n)
    return sites


def multipass_params(ctx: Ctx):
    """(function qual, parameter) pairs whose argument is walked more than once (directly, or by being forwarded to such a parameter)
    without first being materialised."""
    direct, forwards = {}, {}
    for q, fi in ctx.p.functions.items():
        if isinstance(fi.node, ast.Lambda) or fi.module.startswith("scripts."):
            continue
        for p in fi.params:
            if p in ("self", "cls"):
                continue
            rebinds = [a for a in walk_function(fi.node) if isinstance(a, ast.Assign) and any(isinstance(t, ast.Name) and t.id == p for t in a.targets)]
            if any(isinstance(a.value, ast.Call) and call_name(a.value) in MATERIALISERS for a in rebinds):
                continue  # materialised by the callee itself
            sites = _iteration_sites(fi.node, p)
            direct[(q, p)] = len(sites)
            for c in calls_in(fi.node):
                for i, a in enumerate(c.args):
                    if isinstance(a, ast.Name) and a.id == p:
                        forwards.setdefault((q, p), []).append((call_name(c), i, None, isinstance(c.func, ast.Attribute)))
                for k in c.keywords:
                    if isinstance(k.value, ast.Name) and k.value.id == p and k.arg:
                        forwards.setdefault((q, p), []).append((call_name(c), None, k.arg, isinstance(c.func, ast.Attribute)))
    by_name = {}
    for q, fi in ctx.p.functions.items():
        if not isinstance(fi.node, ast.Lambda):
            by_name.setdefault(fi.name, []).append(q)
    for cq, ci in ctx.p.classes.items():
        init = ctx.p.lookup_method(cq, "__init__")
        if init:
            by_name.setdefault(cq.rsplit(".", 1)[1], []).append(init)

    def callee_params(name, idx, kw, is_method):
        out = []
        for q in by_name.get(name, []):
            ps = ctx.fn(q).params
            off = 1 if ps and ps[0] in ("self", "cls") else 0
            if kw is not None:
                if kw in ps:
                    out.append((q, kw))
            elif idx is not None and idx + off < len(ps):
                out.append((q, ps[idx + off]))
        return out

    multi = {k for k, v in direct.items() if v >= 2}
    changed = True
    while changed:
        changed = False
        for k, fw in forwards.items():
            if k in multi:
                continue
            hits = [t for (name, idx, kw, meth) in fw for t in callee_params(name, idx, kw, meth) if t in multi]
            walks = direct.get(k, 0) + len(fw)
            if hits and (walks >= 1):
                if hits and (direct.get(k, 0) >= 1 or len(fw) >= 2 or hits):
                    multi.add(k)
                    changed = True
    return multi, callee_params


def _is_one_shot(ctx, fi, e, depth=0):
    e0 = e
    if isinstance(e, ast.Name) and depth < 3:
        defs = [a.value for a in walk_function(fi.node) if isinstance(a, ast.Assign) and any(isinstance(t, ast.Name) and t.id == e.id for t in a.targets)]
        if e.id in fi.params or not defs:
            return None
        hits = [_is_one_shot(ctx, fi, d, depth + 1) for d in defs]
        return next((h for h in hits if h), None)
    if isinstance(e, ast.GeneratorExp):
        return "a generator expression"
    if isinstance(e, ast.Call):
        name = call_name(e)
        if name in ONE_SHOT_CALLS and not (isinstance(e.func, ast.Attribute) and isinstance(e.func.value, ast.Name) and e.func.value.id in ("self",)):
            return "%s(...)" % (dotted(e.func) or name)
        r = ctx.p.resolve_dotted(fi.module, e.func) if not isinstance(e.func, ast.Attribute) or isinstance(e.func.value, ast.Name) else None
        if r and r[0] == "func" and any(isinstance(x, (ast.Yield, ast.YieldFrom)) for x in walk_function(ctx.fn(r[1]).node)):
            return "the generator function %s" % r[1]
    return None


def one_shot_rule(ctx: Ctx, rule):
    res = RuleResult()
    multi, callee_params = multipass_params(ctx)
    res.ob("parameters walked more than once without being materialised: %s" % sorted("%s(%s)" % (short(q), p) for q, p in multi))
    probe = ast.parse("def f(xs):\n    if K in [x[0] for x in xs]:\n        pass\n    for a, b in xs:\n        pass\n").body[0]
    if len(_iteration_sites(probe, "xs")) != 2:
        raise AnalysisError("iteration-site matcher self-check failed")
    if not any(q.endswith(".add_attributes") for q, _ in multi):
        res.ob("add_attributes no longer walks its argument twice: a one-shot iterator is harmless there", nontrivial=False)
    n = 0
    for q, fi in ctx.p.functions.items():
        if isinstance(fi.node, ast.Lambda) or fi.module.startswith("scripts."):
            continue
        for c in calls_in(fi.node):
            name = call_name(c)
            for i, a in list(enumerate(c.args)) + [(None, k) for k in c.keywords]:
                kw = a.arg if isinstance(a, ast.keyword) else None
                expr = a.value if isinstance(a, ast.keyword) else a
                if isinstance(a, ast.keyword) and not a.arg:
                    continue
                targets = [t for t in callee_params(name, i, kw, isinstance(c.func, ast.Attribute)) if t in multi]
                if not targets:
                    continue
                n += 1
                why = _is_one_shot(ctx, fi, expr)
                if why:
                    res.ob("%s: %s receives %s: ONE-SHOT" % (short(q), norm(c.func), why))
                    res.fail(rule.id, "one-shot-to-multipass::%s::%s" % (q, name), ctx.loc(q, c),
                             "%s passes %s to %s, whose parameter `%s` is walked more than once: the second walk sees nothing" % (short(q), why, name, targets[0][1]),
                             "unified() of two records with one identifier: the merged record has no attributes at all")
    res.ob("call sites handing an argument to a multi-pass parameter: %d, none of them a one-shot iterator" % n)
    return res


for _p, _r, _d in (("C05", "C05.R9", "every supplied attribute reaches the record: add_attributes walks its argument twice (collection test, then the store loop)"),
                   ("C08", "C08.R9", "the merged record receives every attribute of every source record"),
                   ("C14", "C14.R6", "conversion starts from unified(): merged records keep their attributes and endpoints"),
                   ("C15", "C15.R6", "prov_to_dot draws unified(): merged records keep their attributes and endpoints")):
    RULES.setdefault(_p, []).append(Rule(_r, "a parameter that is walked more than once never receives a one-shot iterator", 2, one_shot_rule, "F-PATH", _d))


def ufn(ctx, q, keep=()):
    """The function with the private helpers it delegates to inlined (sa/inline.py); helpers named in `keep` stay calls
    (the merging helper of unified(): the rules have a summary of it and look for the call)."""
    from ..inline import inlined_function

    keep = set(keep) | {unified_helper(ctx).rsplit(".", 1)[1]}
    return inlined_function(ctx, q, exclude=frozenset(keep))


def ucfg(ctx, q):
    k = "ucfg:" + q
    if k not in ctx._cache:
        ctx._cache[k] = cfgmod.build(ufn(ctx, q).node)
    return ctx._cache[k]


# ===================================================================================== C08
def unified_helper(ctx: Ctx):
    q = BUNDLE + "._unified_records"
    if q not in ctx.p.functions:
        # discovered: the ProvBundle method both unified() variants call
        cands = set()
        for u in (BUNDLE + ".unified", DOC + ".unified"):
            cands |= {call_name(c) for c in calls_in(ctx.fn(u).node) if isinstance(c.func, ast.Attribute) and norm(c.func.value) == "self"}
        cands = [ctx.p.lookup_method(BUNDLE, c) for c in cands if ctx.p.lookup_method(BUNDLE, c)]
        cands = [c for c in cands if any(call_name(x) == "add_attributes" for x in calls_in(ctx.fn(c).node))]
        if len(cands) != 1:
            raise AnalysisError("cannot identify the record-merging helper of unified()")
        q = cands[0]
    return q


@rule("C08", "C08.R1", "the merge happens on a fresh record, through the normaliser", 1,
      decides="the source records are never the receiver of the merging add_attributes; conflicts surface as ProvException")
def c08_r1(ctx: Ctx, rule):
    res = RuleResult()
    eff = get_effects(ctx)
    q = unified_helper(ctx)
    fi = ctx.fn(q)
    merges = [c for q2 in ctx.helper_closure(q) if q2.startswith(BUNDLE + ".") for c in calls_in(ctx.fn(q2).node) if call_name(c) == "add_attributes" and isinstance(c.func, ast.Attribute)]
    if not merges:
        raise AnalysisError("%s: no merging add_attributes call" % short(q))
    # receiver freshness is read off the effect summary: no CONTENT effect rooted at self may come from this helper
    s = eff.sum[q]
    bad = [e for e in s.effects if base_of(e[0]) == "self" and e[1] in ("CONTENT", "NS", "NS-RESOLVE", "LINK", "OTHER")]
    for c in merges:
        recv = resolve_local(fi.node, c.func.value)
        res.ob("%s: merge receiver %s = %s; effects on the source: %s" % (short(q), norm(c.func.value), norm(recv)[:70], sorted({(e[0], e[1]) for e in bad}) or "none"))
    for e in bad:
        fq, node = s.sites[e]
        res.fail(rule.id, "merge-touches-source::%s::%s" % (e[1], e[0].replace(HOP, ">")), ctx.loc(fq, node),
                 "%s has a %s effect on the source (%s): %s" % (short(q), e[1], e[2], " -> ".join(eff.explain(q, e))),
                 "after d.unified() a record of d carries the attributes of its namesakes, or d's bundle declares new prefixes")
    # what is merged: *all* attributes of every record of the group (formal ones included - an optional formal argument may be
    # given by a later statement only), i.e. the whole-attribute view, not a partial one
    whole = attr_slot(ctx)
    hclosure = [q2 for q2 in ctx.helper_closure(q) if q2.startswith(BUNDLE + ".")]
    for c in merges:
        a = resolve_local(fi.node, c.args[0]) if c.args else None
        partial = [x.attr for x in ast.walk(a) if isinstance(x, ast.Attribute) and x.attr in ("extra_attributes", "formal_attributes", "args")] if a is not None else []
        allattrs = a is not None and any(isinstance(x, ast.Attribute) and (x.attr == "attributes" or x.attr == whole) for x in ast.walk(a))
        # the loop feeding the merge walks every record after the one the merged record was built from
        for q2 in hclosure:
            for loop in walk_function(ctx.fn(q2).node):
                if isinstance(loop, ast.For) and any(x is c for x in ast.walk(loop)) and isinstance(loop.iter, ast.Subscript) and isinstance(loop.iter.slice, ast.Slice):
                    sl = loop.iter.slice
                    lo = sl.lower.value if isinstance(sl.lower, ast.Constant) else (None if sl.lower is None else "?")
                    okr = sl.upper is None and sl.step is None and lo in (None, 0, 1)
                    res.ob("%s: the merge loop walks %s: every later record: %s" % (short(q2), norm(loop.iter), okr))
                    if not okr:
                        res.fail(rule.id, "merge-loop-partial::%s" % norm(loop.iter), ctx.loc(q2, loop), "the merge loop walks %s, not all the records after the first" % norm(loop.iter),
                                 "three statements about ex:e, the middle one alone carrying ex:k: the unified record has no ex:k")
        res.ob("%s: merges %s: the record's whole attribute list: %s" % (short(q), norm(c.args[0])[:50] if c.args else "?", allattrs and not partial))
        if partial and not allattrs:
            res.fail(rule.id, "merge-partial-attributes::%s" % partial[0], ctx.loc(q, c),
                     "%s merges only %s of the records sharing an identifier: the other attributes of later statements are dropped" % (short(q), partial[0]),
                     "activity(ex:a) followed by activity(ex:a, t0, t1): the unified activity has no times")
    # raw stores (bypassing the single-value guard) are C05.R1's business; here: the merge call is the normaliser
    from .paths import find_normaliser

    nq, _, _ = find_normaliser(ctx)
    ok = nq.endswith(".add_attributes")
    res.ob("merging goes through the normaliser %s: %s" % (short(nq), ok))
    return res


@rule("C08", "C08.R2", "only records of one kind are merged: the grouping key contains the record type", 1, family="F-PATH",
      decides="an entity and an agent sharing an identifier both survive unification")
def c08_r2(ctx: Ctx, rule):
    res = RuleResult()
    q = unified_helper(ctx)
    fi = ctx.fn(q)
    hcl = [x for x in ctx.helper_closure(q) if x.startswith(BUNDLE + ".")]
    merges = [c for x in hcl for c in calls_in(ctx.fn(x).node) if call_name(c) == "add_attributes"]
    ok = False
    why = ""
    split = len(hcl) > 1 and not any(call_name(c) == "add_attributes" for c in calls_in(fi.node))
    # shape 1: groups are built under a key that includes get_type() / type()
    for x in hcl:
        for n in walk_function(ctx.fn(x).node):
            if isinstance(n, ast.Subscript) and isinstance(n.slice, ast.Tuple):
                if any(isinstance(y, ast.Call) and call_name(y) in ("get_type", "type") for y in ast.walk(n.slice)):
                    ok, why = True, "grouping key %s" % norm(n.slice)
    if ok and split:
        res.ob("%s merges only records of one kind: True (%s; grouping and merging live in helper methods)" % (short(q), why))
        return res
    # shape 2: the merge is guarded by a type comparison
    for n in walk_function(fi.node):
        if isinstance(n, ast.If) and any(call_name(c) == "add_attributes" for c in ast.walk(n) if isinstance(c, ast.Call)):
            if "get_type" in norm(n.test) or "type(" in norm(n.test) or "isinstance" in norm(n.test):
                ok, why = True, "guard %s" % norm(n.test)
    # the groups being merged must be the ones built under that key: the loop that merges iterates the keyed container
    if ok and why.startswith("grouping key"):
        keyed = None
        for n in walk_function(fi.node):
            if isinstance(n, ast.Subscript) and isinstance(n.slice, ast.Tuple) and isinstance(n.value, ast.Name):
                keyed = n.value.id
        loops = [n for n in walk_function(fi.node) if isinstance(n, ast.For) and any(c in merges for c in ast.walk(n))]
        outer = [l for l in loops if keyed and keyed in norm(l.iter)]
        if not outer:
            ok, why = False, "records are keyed by type in %s but the merging loop does not iterate it" % keyed
    res.ob("%s merges only records of one kind: %s (%s)" % (short(q), ok, why))
    if not ok:
        res.fail(rule.id, "merge-across-kinds", ctx.loc(q, merges[0] if merges else fi.node),
                 "%s merges every record sharing an identifier, whatever its kind%s" % (short(q), (": " + why) if why else ""),
                 "entity(ex:x) + agent(ex:x): unified() returns one entity carrying the agent's attributes; the agent disappears")
    return res


@rule("C08", "C08.R4", "every bundle is carried over under its identifier; every unified record is emitted once, per merged record", 3, family="F-PATH",
      decides="no bundle and no record kind is lost on the way into the unified document")
def c08_r4(ctx: Ctx, rule):
    res = RuleResult()
    q = DOC + ".unified"
    fi = ufn(ctx, q)
    g = ucfg(ctx, q)
    loops = [n for n in walk_function(fi.node) if isinstance(n, ast.For) and "bundles" in norm(n.iter)]
    if not loops:
        raise AnalysisError("ProvDocument.unified: no loop over the bundles")
    for l in loops:
        v = norm(l.target)
        adds = [c for c in ast.walk(l) if isinstance(c, ast.Call) and call_name(c) in ("add_bundle",)]
        uni = [c for c in ast.walk(l) if isinstance(c, ast.Call) and call_name(c) == "unified" and norm(c.func.value) == v]
        ok = bool(adds) and bool(uni)
        if ok:
            ln = g.nodes_of(l)[0]
            an = node_of(g, adds[0])
            body_entry = [m for m, lab in ln.succ if lab == "iter"][0]
            skip = body_entry is not an and g.exists_path(body_entry, ln, avoid=lambda n: n is an, labels_excluded=("exc", "raise"))
            ok = not skip
        filt = isinstance(l.iter, (ast.ListComp, ast.GeneratorExp)) or (isinstance(l.iter, ast.Call) and call_name(l.iter) == "filter")
        res.ob("unified: every bundle is unified and added on every iteration: %s (filtered iteration: %s)" % (ok, filt))
        if not ok or filt:
            res.fail(rule.id, "bundle-dropped", ctx.loc(q, l), "a bundle can be skipped on its way into the unified document", "a bundle (e.g. an empty one) disappears from unified()")
    # the emit loop of the helper de-duplicates per merged record object, not per identifier
    hq = unified_helper(ctx)
    hf = ctx.fn(hq)
    hcl = [x for x in ctx.helper_closure(hq) if x.startswith(BUNDLE + ".")]
    emit = [c for x in hcl for c in calls_in(ctx.fn(x).node) if call_name(c) == "append"]
    seen_sets = [c for x in hcl for c in calls_in(ctx.fn(x).node) if call_name(c) == "add" and isinstance(c.func, ast.Attribute) and isinstance(c.func.value, ast.Name)]
    for c in seen_sets:
        arg = norm(c.args[0]) if c.args else ""
        by_identifier = "identifier" in arg
        res.ob("%s: emitted-set is keyed by %s (per merged record: %s)" % (short(hq), arg, not by_identifier))
        if by_identifier:
            res.fail(rule.id, "dedupe-by-identifier::%s" % arg, ctx.loc(hq, c), "merged records are de-duplicated by %s, which two merged records of different kinds share" % arg,
                     "entity x2 + agent x2 under one identifier: the agent's merged record is never emitted")
    res.ob("%s emits through %d append site(s)" % (short(hq), len(emit)))
    return res


@rule("C08", "C08.R5", "unified() leaves its source unchanged and returns a new container", 2,
      decides="instance of C13.R1 / C12.R3 for the two unified() methods")
def c08_r5(ctx: Ctx, rule):
    res = RuleResult()
    eff = get_effects(ctx)
    for q in (DOC + ".unified", BUNDLE + ".unified"):
        s = eff.sum[q]
        bad = [e for e in s.effects if base_of(e[0]) == "self" and e[1] not in ALLOWED]
        res.ob("%s: effects on self: %s; returns fresh: %s" % (short(q), sorted({(e[0], e[1]) for e in bad}) or "none (beyond empty-insert/memo)", not s.ret_roots))
        for e in bad:
            fq, node = s.sites[e]
            res.fail(rule.id, "unified-writes-source::%s::%s::%s" % (q, e[1], e[0].replace(HOP, ">")), ctx.loc(fq, node),
                     "%s has a %s effect on its source: %s" % (short(q), e[1], " -> ".join(eff.explain(q, e))), "content or declarations of d differ before and after d.unified()")
        if s.ret_roots:
            res.fail(rule.id, "unified-returns-alias::%s" % q, ctx.loc(q, ctx.fn(q).node), "%s may return (part of) its source: %s" % (short(q), sorted(s.ret_roots)))
    return res


# ===================================================================================== C09
def loops_adding_records(ctx: Ctx, q):
    fi = ctx.fn(q)
    out = []
    for n in walk_function(fi.node):
        if isinstance(n, ast.For) and isinstance(n.target, ast.Name):
            adds = [c for c in ast.walk(n) if isinstance(c, ast.Call) and call_name(c) in ("add_record", "update") and c.args and norm(c.args[0]) == n.target.id]
            if adds:
                out.append((n, adds))
    return out


def expr_closure_text(fi, e, depth=0):
    """Text of the expression plus, transitively, of everything assigned to / appended into the local names it mentions."""
    from ..mutation import all_assignments

    seen, out, stack = set(), [norm(e)], [x.id for x in ast.walk(e) if isinstance(x, ast.Name)]
    while stack:
        nme = stack.pop()
        if nme in seen or nme in ("self",):
            continue
        seen.add(nme)
        srcs = [d for d in all_assignments(fi.node, nme) if d is not None]
        for n in walk_function(fi.node):
            if isinstance(n, ast.Call) and isinstance(n.func, ast.Attribute) and n.func.attr in ("extend", "append", "update", "add") and norm(n.func.value) == nme:
                srcs += list(n.args)
            if isinstance(n, (ast.For, ast.comprehension)) and any(isinstance(x, ast.Name) and x.id == nme for x in ast.walk(n.target)):
                srcs.append(n.iter)
        for d in srcs:
            out.append(norm(d))
            stack += [x.id for x in ast.walk(d) if isinstance(x, ast.Name)]
    return " ".join(out)


@rule("C09", "C09.R1", "conservation loops: every record (bundle) of the source reaches add_record (update) on every iteration, from an unfiltered source", 5, family="F-PATH",
      decides="flattened / update / construction from records never drop or skip a record")
def c09_r1(ctx: Ctx, rule):
    res = RuleResult()
    targets = []
    for q0 in [DOC + ".flattened", BUNDLE + ".update", DOC + ".update", BUNDLE + ".__init__", DOC + ".unified", GR + ".graph_to_prov"]:
        targets += [x for x in ctx.helper_closure(q0, depth=1) if x not in targets and not x.endswith((".add_record", ".new_record", "._add_record", ".add_bundle", ".bundle", "._unified_records", ".unified", ".update"))or x == q0 and x not in targets]
    for q in targets:
        fi = ctx.fn(q)
        g = get_cfg(ctx, q)
        for loop, adds in loops_adding_records(ctx, q):
            ln = g.nodes_of(loop)[0]
            add_nodes = {node_of(g, a).id for a in adds}
            body_entry = [m for m, lab in ln.succ if lab == "iter"][0]
            # some path through the body (back to the header, or out of the loop) that passes no add call?
            skip = None
            if body_entry.id not in add_nodes:
                for tgt in [ln] + [m for m, lab in ln.succ if lab == "done"]:
                    p = g.find_path(body_entry, tgt, avoid=lambda n: n.id in add_nodes, labels_excluded=("exc", "raise", "done"))
                    if p is not None and tgt is ln:
                        skip = p
                # break edges
                for n in g.nodes:
                    if isinstance(n.stmt, ast.Break) and any(x is n.stmt for x in ast.walk(loop)):
                        skip = skip or [(n, "break")]
            it = resolve_local(fi.node, loop.iter)
            src = norm(it)
            filtered = any(isinstance(x, (ast.ListComp, ast.GeneratorExp)) and any(g2.ifs for g2 in x.generators) for x in ast.walk(it)) or any(
                isinstance(x, ast.Call) and (call_name(x) == "filter" or (call_name(x) == "get_records" and (x.args or x.keywords)) or call_name(x) in ("set", "frozenset", "unique", "dict")) for x in ast.walk(it))
            whole_graph = not q.startswith(GR + ".")  # graph_to_prov (and what it delegates to) filters inferred nodes on purpose: C14.R2 decides that filter
            res.ob("%s: for %s in %s: %s(%s) on every iteration: %s; source unfiltered: %s" % (short(q) if q.count(".") > 2 else q, loop.target.id, src[:60], call_name(adds[0]), loop.target.id, skip is None, not filtered))
            if whole_graph and skip is not None:
                res.fail(rule.id, "record-skipped::%s::%s" % (q, loop.target.id), ctx.loc(q, loop),
                         "%s can finish an iteration over %s without adding %s: %s" % (short(q), src[:50], loop.target.id, " -> ".join(repr(n) for n, _ in skip[:6])),
                         "a record that looks like a duplicate (or fails the added test) is silently dropped from the result")
            if whole_graph and filtered:
                res.fail(rule.id, "source-filtered::%s::%s" % (q, loop.target.id), ctx.loc(q, loop), "%s iterates a filtered / de-duplicated view of the source: %s" % (short(q), src[:80]),
                         "repeated identical records collapse; the multiset of records is not conserved")
    # flattened covers the document's own records and every bundle's records
    q = DOC + ".flattened"
    fi = ctx.fn(q)
    rl, ix, ft = bundle_slots(ctx)
    for loop, adds in loops_adding_records(ctx, q):
        txt = expr_closure_text(fi, loop.iter)
        own = rl in txt or "self.records" in txt or "self.get_records" in txt
        bundles = ctx.field_named(DOC, "bundles", "_bundles") in txt or "self.bundles" in txt
        res.ob("flattened walks the document's own records (%s) and its bundles' records (%s)" % (own, bundles))
        if not (own and bundles):
            res.fail(rule.id, "flattened-source-incomplete", ctx.loc(q, loop), "flattened() does not walk both the document's own records and all bundles' records", "top-level or bundled records are missing from the flattened document")
    return res


@rule("C09", "C09.R2", "add_record forwards type, identifier, formal and extra attributes; new_record passes both attribute groups to the record", 6, family="F-FWD",
      decides="a re-created record carries everything the original carried")
def c09_r2(ctx: Ctx, rule):
    res = RuleResult()
    q = BUNDLE + ".add_record"
    fi = ctx.fn(q)
    rec = fi.params[1]
    calls = [c for c in calls_in(fi.node) if call_name(c) == "new_record"]
    if len(calls) != 1:
        raise AnalysisError("add_record: expected one call to new_record")
    c = calls[0]
    args = [norm(a) for a in c.args] + [norm(k.value) for k in c.keywords]
    need = {"type": lambda a: a in ("%s.get_type()" % rec, "%s.%s" % (rec, ctx.type_field())),
            "identifier": lambda a: a in ("%s.identifier" % rec, "%s._identifier" % rec),
            "formal attributes": lambda a: a in ("%s.formal_attributes" % rec, "%s.attributes" % rec),
            "extra attributes": lambda a: a in ("%s.extra_attributes" % rec, "%s.attributes" % rec)}
    for what, pred in need.items():
        ok = any(pred(a) for a in args)
        res.ob("add_record forwards the record's %s: %s" % (what, ok))
        if not ok:
            res.fail(rule.id, "add_record-drops::%s" % what.replace(" ", "-"), ctx.loc(q, c), "add_record does not pass the record's %s to new_record (%s)" % (what, args),
                     "records lose their %s when copied into another container by update/flattened/add_bundle" % what)
    nq = BUNDLE + ".new_record"
    nf = ctx.fn(nq)
    from .paths import record_ctor_func

    ctor = [c2 for c2 in calls_in(nf.node) if record_ctor_func(ctx, nq, c2) is not None]
    if len(ctor) != 1 or len(ctor[0].args) < 3:
        raise AnalysisError("new_record: constructor call not found")
    closure_txt = expr_closure_text(nf, ctor[0].args[2])
    feeds = {}
    import re as _re
    for p in nf.params[3:5]:
        if _re.search(r"(?<![A-Za-z0-9_])%s(?![A-Za-z0-9_])" % _re.escape(p), closure_txt.replace("other_" + p, "") if p == "attributes" else closure_txt):
            feeds[p] = True
    for p in nf.params[3:5]:
        res.ob("new_record passes `%s` into the record's attribute list: %s" % (p, feeds.get(p, False)))
        if not feeds.get(p):
            res.fail(rule.id, "new_record-drops::%s" % p, ctx.loc(nq, ctor[0]), "new_record never adds `%s` to the list handed to the record constructor" % p, "factory calls lose their %s" % p)
    return res


def self_mutating_calls(ctx: Ctx, q):
    """Statements of q with a CONTENT/NS/LINK effect rooted at self (direct or through a callee)."""
    eff = get_effects(ctx)
    s = eff.sum[q]
    out = []
    for e, (fq, node) in s.sites.items():
        if fq == q and base_of(e[0]) == "self" and e[1] in ("CONTENT", "NS", "LINK", "NS-RESOLVE", "OTHER"):
            out.append((e, node))
    return out


@rule("C09", "C09.R3", "validate before commit: no effect on the receiver lies on a path to a refusal", 4, family="F-PATH",
      decides="add_bundle / update refuse a bad argument without having changed the document")
def c09_r3(ctx: Ctx, rule):
    res = RuleResult()
    for q in (DOC + ".add_bundle", BUNDLE + ".update", DOC + ".update"):
        fi = ctx.fn(q)
        g = get_cfg(ctx, q)
        raises = [n for n in g.nodes if isinstance(n.stmt, ast.Raise)]
        muts = self_mutating_calls(ctx, q)
        # only CONTENT/NS/LINK: resolving a name (NS-RESOLVE) before refusing is an observation (see DESIGN 7b)
        hard = [(e, node) for e, node in muts if e[1] in ("CONTENT", "NS", "LINK", "OTHER")]
        for r in raises:
            witness = None
            for e, node in hard:
                for mn in g.node_containing(node):
                    if mn is r or g.exists_path(mn, r, labels_excluded=("exc",)):
                        witness = (e, node)
            res.ob("%s: `%s` is reached with the receiver untouched: %s" % (short(q), norm(r.stmt)[:60], witness is None))
            if witness:
                e, node = witness
                res.fail(rule.id, "commit-before-refusal::%s::%s" % (q, norm(r.stmt)[:50]), ctx.loc(q, node),
                         "%s performs `%s` (%s on self) on a path that then raises `%s`" % (short(q), norm(node)[:60], e[1], norm(r.stmt)[:50]),
                         "a refused add_bundle/update leaves the bundle registered / records half added")
    return res


@rule("C09", "C09.R4", "the argument is not modified: no content effect rooted at `other` in update / flattened; add_bundle(ProvBundle) attaches by reference by design", 3,
      decides="d.update(other) leaves other unchanged")
def c09_r4(ctx: Ctx, rule):
    res = RuleResult()
    eff = get_effects(ctx)
    for q in (BUNDLE + ".update", DOC + ".update"):
        fi = ctx.fn(q)
        par = fi.params[1]
        s = eff.sum[q]
        bad = [e for e in s.effects if base_of(e[0]) == par and e[1] not in ALLOWED]
        res.ob("%s: effects on `%s`: %s" % (short(q), par, sorted({(e[0], e[1]) for e in bad}) or "none (beyond empty-insert/memo)"))
        for e in bad:
            fq, node = s.sites[e]
            res.fail(rule.id, "argument-modified::%s::%s::%s" % (q, e[1], e[0].replace(HOP, ">")), ctx.loc(fq, node),
                     "%s has a %s effect on its argument (%s): %s" % (short(q), e[1], e[2], " -> ".join(eff.explain(q, e))),
                     "after d.update(other), other's bundles are re-parented / its records or declarations changed")
        kept = {k: v for k, v in s.retains.items() if base_of(k) == par}
        res.ob("%s keeps nothing of `%s` by reference: %s" % (short(q), par, not kept))
        for k, how in kept.items():
            res.fail(rule.id, "argument-retained::%s::%s" % (q, k.replace(HOP, ">")), ctx.loc(q, fi.node), "%s keeps part of `%s` by reference: %s" % (short(q), par, how),
                     "a bundle object ends up owned by both documents")
    res.exceptions.append("ProvDocument.add_bundle(ProvBundle): attaches the bundle object itself (documented design); its effects on the argument are LINK/NS(parent)")
    q = DOC + ".add_bundle"
    s = eff.sum[q]
    par = ctx.fn(q).params[1]
    bad = [e for e in s.effects if base_of(e[0]) == par and e[1] in ("CONTENT",)]
    res.ob("add_bundle: CONTENT effects on the attached bundle: %s" % (sorted({e[2] for e in bad}) or "none"))
    for e in bad:
        fq, node = s.sites[e]
        res.fail(rule.id, "argument-modified::%s::CONTENT" % q, ctx.loc(fq, node), "add_bundle changes the records of the bundle it attaches: %s" % e[2])
    return res


@rule("C09", "C09.R5", "flattened() never adds a bundle to its result", 1, decides="the flattened document is bundle-free")
def c09_r5(ctx: Ctx, rule):
    res = RuleResult()
    eff = get_effects(ctx)
    q = DOC + ".flattened"
    closure_calls = {call_name(c) for c in calls_in(ctx.fn(q).node)}
    bad = closure_calls & {"add_bundle", "bundle"}
    res.ob("flattened calls bundle-creating methods: %s" % (sorted(bad) or "none"))
    if bad:
        res.fail(rule.id, "flattened-adds-bundle", ctx.loc(q, ctx.fn(q).node), "flattened() calls %s" % sorted(bad), "the flattened document still has bundles")
    return res


# shared instances: the alias rule is a necessary condition of C08 (the merge must not write through to the source
# records) and of C13 (unified()/dot/graph must not change the source) as well
RULES.setdefault("C08", []).append(Rule("C08.R3", "records never share per-attribute value sets (instance of C12.R1)", 10, c12_r1, "F-OWN",
                                        "merging into a copy cannot write through to the original record"))
RULES.setdefault("C13", []).append(Rule("C13.R5", "records never share per-attribute value sets (instance of C12.R1)", 10, c12_r1, "F-OWN",
                                        "unified(), and the exporters built on it, cannot write through a copied record into the source"))


@rule("C09", "C09.R7", "add_bundle files the bundle under the requested identifier: the bundle's own identifier is only a fallback", 1, family="F-PATH",
      decides="add_bundle(b, ex:requested) attaches under ex:requested, and a duplicate requested identifier is refused")
def c09_r7(ctx: Ctx, rule):
    res = RuleResult()
    q = DOC + ".add_bundle"
    fi = ctx.fn(q)
    bpar, ipar = fi.params[1], fi.params[2]
    for n in walk_function(fi.node):
        if isinstance(n, ast.Assign) and any(isinstance(t, ast.Name) and t.id == ipar for t in n.targets) and "identifier" in norm(n.value) and bpar in norm(n.value):
            v = n.value
            ok = False
            how = norm(n)
            # form 1: inside `if identifier is None:` / `if not identifier:`
            for t in walk_function(fi.node):
                if isinstance(t, ast.If) and any(x is n for b in t.body for x in ast.walk(b)) and norm(t.test) in ("%s is None" % ipar, "not %s" % ipar):
                    ok = True
            # form 2: identifier or bundle.identifier   /   identifier if identifier is not None else bundle.identifier
            if isinstance(v, ast.BoolOp) and isinstance(v.op, ast.Or) and norm(v.values[0]) == ipar:
                ok = True
            if isinstance(v, ast.IfExp) and norm(v.body) == ipar and ipar in norm(v.test):
                ok = True
            res.ob("add_bundle: `%s` lets the requested identifier win: %s" % (how[:70], ok))
            if not ok:
                res.fail(rule.id, "requested-identifier-overridden::%s" % how[:50], ctx.loc(q, n),
                         "add_bundle replaces the requested identifier by the bundle's own one (`%s`)" % how[:70],
                         "a bundle that already has an identifier, attached under another requested one, is filed under its own; a duplicate requested identifier is not refused")
    if not res.instances:
        res.ob("add_bundle never falls back on the bundle's own identifier", nontrivial=False)
    return res


@rule("C08", "C08.R6", "unified() always goes through the merging helper: no fast path decides from auxiliary state that nothing needs merging", 2, family="F-PATH",
      decides="repeated identifiers are merged whatever lookups were made on the bundle before")
def c08_r6(ctx: Ctx, rule):
    res = RuleResult()
    helper = unified_helper(ctx).rsplit(".", 1)[1]
    from ..mutation import all_assignments

    for q in (BUNDLE + ".unified", DOC + ".unified"):
        fi = ufn(ctx, q)
        sources = []
        for c in calls_in(fi.node):
            for k in c.keywords:
                if k.arg == "records":
                    sources.append(k.value)
            r = ctx.p.resolve_dotted(fi.module, c.func) if dotted(c.func) else None
            if r and r[0] == "class" and r[1] in (BUNDLE, DOC) and c.args:
                sources.append(c.args[0])
        for n in walk_function(fi.node):
            if isinstance(n, ast.For) and any(call_name(c) == "add_record" for c in ast.walk(n) if isinstance(c, ast.Call)):
                sources.append(n.iter)
        if not sources:
            raise AnalysisError("%s: record source not found" % short(q))
        for src in sources:
            exprs = [src]
            if isinstance(src, ast.Name):
                exprs = [d for d in all_assignments(fi.node, src.id)]
            ok = all(d is not None and isinstance(d, ast.Call) and call_name(d) == helper and norm(d.func.value) == "self" for d in exprs)
            res.ob("%s: records come from %s only through self.%s(): %s" % (short(q), norm(src)[:40], helper, ok))
            if not ok:
                res.fail(rule.id, "unified-bypasses-merge::%s" % q, ctx.loc(q, src), "%s can take its records from %s instead of self.%s()" % (short(q), [norm(d)[:40] for d in exprs if d is not None], helper),
                         "a bundle with repeated identifiers on which get_record() was asked for as many unknown identifiers as there are surplus records is returned un-merged")
    return res


def c16_r9(ctx: Ctx, rule):
    return c13_r1(ctx, rule, only=lambda q, label: label.startswith("serialize(") or label in ("ProvDocument.serialize", "ProvBundle.get_provn", "ProvRecord.get_provn"))


RULES.setdefault("C16", []).append(Rule("C16.R9", "serialising is repeatable: the text exporters leave the document as it was (C13.R1 restricted to serialize / get_provn)", 6, c16_r9, "F-OWN",
                                        "the string returned by one serialize() call and the text a second call writes to a stream or a path are the same"))


# ===================================================================================== C12.R8 state shared through the class or a default argument
MUTABLE_LITERAL_CALLS = {"list", "dict", "set", "defaultdict", "OrderedDict", "deque", "Counter", "bytearray"}


def _is_mutable_literal(e):
    if isinstance(e, (ast.List, ast.Dict, ast.Set, ast.ListComp, ast.DictComp, ast.SetComp)):
        return True
    return isinstance(e, ast.Call) and call_name(e) in MUTABLE_LITERAL_CALLS


def _escaping_uses(fnode, name):
    """Uses of a parameter that make a mutable default observable across calls: mutation, storing into an attribute / container, returning."""
    out = []
    for n in walk_function(fnode):
        if isinstance(n, ast.Call) and isinstance(n.func, ast.Attribute) and isinstance(n.func.value, ast.Name) and n.func.value.id == name and n.func.attr in MUTATORS_LOCAL:
            out.append(n)
        elif isinstance(n, (ast.Assign, ast.AugAssign)):
            tg = n.targets if isinstance(n, ast.Assign) else [n.target]
            if any(isinstance(t, ast.Subscript) and isinstance(t.value, ast.Name) and t.value.id == name for t in tg):
                out.append(n)
            if isinstance(n, ast.Assign) and isinstance(n.value, ast.Name) and n.value.id == name and any(isinstance(t, (ast.Attribute, ast.Subscript)) for t in tg):
                out.append(n)
            if isinstance(n, ast.AugAssign) and isinstance(n.target, ast.Name) and n.target.id == name:
                out.append(n)
        elif isinstance(n, ast.Return) and isinstance(n.value, ast.Name) and n.value.id == name:
            out.append(n)
    return out


MUTATORS_LOCAL = {"append", "extend", "insert", "add", "update", "setdefault", "pop", "popitem", "remove", "discard", "clear", "sort", "reverse", "appendleft"}


def c12_r8(ctx: Ctx, rule):
    res = RuleResult()
    # matcher self-check on a built-in positive example
    probe = ast.parse("class K:\n    table = {}\n    def f(self, xs=[], ys=None, zs=()):\n        xs.append(1)\n        self.table[1] = 2\n        return xs\n")
    pf = probe.body[0].body[1]
    if not (_is_mutable_literal(pf.args.defaults[0]) and not _is_mutable_literal(pf.args.defaults[2]) and len(_escaping_uses(pf, "xs")) == 2):
        raise AnalysisError("mutable-default matcher self-check failed")
    res.ob("matcher self-check: the built-in example's mutable default and its 2 escaping uses are recognised")
    n_params = n_attrs = 0
    for q, fi in ctx.p.functions.items():
        if isinstance(fi.node, ast.Lambda) or fi.module.startswith("scripts.") or ".tests" in fi.module:
            continue
        a = fi.node.args
        pos = a.posonlyargs + a.args
        pairs = list(zip(pos[len(pos) - len(a.defaults):], a.defaults)) + [(k, d) for k, d in zip(a.kwonlyargs, a.kw_defaults) if d is not None]
        for arg, d in pairs:
            n_params += 1
            if not _is_mutable_literal(d):
                continue
            uses = _escaping_uses(fi.node, arg.arg)
            res.ob("%s: parameter %s defaults to a mutable object (%s); mutated, stored or returned: %s" % (short(q) if q.count(".") > 2 else q, arg.arg, norm(d), bool(uses)))
            if uses:
                res.fail(rule.id, "mutable-default::%s::%s" % (q, arg.arg), ctx.loc(q, uses[0]),
                         "%s keeps or changes its default `%s=%s` (%s): every call that omits the argument shares one object" % (short(q) if q.count(".") > 2 else q, arg.arg, norm(d), norm(uses[0])[:40]),
                         "two documents built without that argument share the container: adding to one shows up in the other")
    res.ob("parameters with defaults examined: %d" % n_params)
    for cq, ci in ctx.p.classes.items():
        if ci.module.startswith("scripts.") or ".tests" in ci.module:
            continue
        for name, val in ci.class_attrs.items():
            if not _is_mutable_literal(val):
                continue
            n_attrs += 1
            # mutated through an instance without being rebound per instance in __init__
            init = ci.methods.get("__init__")
            rebound = bool(init) and any(isinstance(n, ast.Assign) and any(isinstance(t, ast.Attribute) and norm(t.value) == "self" and t.attr == name for t in n.targets) for n in walk_function(ctx.fn(init).node))
            muts = []
            for mq in ci.methods.values():
                for n in walk_function(ctx.fn(mq).node):
                    if isinstance(n, ast.Call) and isinstance(n.func, ast.Attribute) and n.func.attr in MUTATORS_LOCAL and norm(n.func.value) in ("self." + name, "cls." + name, cq.rsplit(".", 1)[1] + "." + name):
                        muts.append((mq, n))
                    if isinstance(n, (ast.Assign, ast.AugAssign)):
                        for t in (n.targets if isinstance(n, ast.Assign) else [n.target]):
                            if isinstance(t, ast.Subscript) and norm(t.value) in ("self." + name, "cls." + name):
                                muts.append((mq, n))
            res.ob("%s.%s is a class-level mutable object; rebound per instance: %s; mutated through instances: %d" % (cq.rsplit(".", 1)[1], name, rebound, len(muts)))
            if muts and not rebound:
                mq, n = muts[0]
                res.fail(rule.id, "class-level-state::%s.%s" % (cq, name), ctx.loc(mq, n),
                         "%s.%s is created once for the class and %s changes it through an instance (%s)" % (cq.rsplit(".", 1)[1], name, short(mq), norm(n)[:40]),
                         "all documents share that table: a prefix renamed in one manager resolves in every other manager")
    res.ob("class-level mutable attributes in the package: %d" % n_attrs, nontrivial=False)
    return res


RULES.setdefault("C12", []).append(Rule("C12.R8", "no state shared through a class-level container or a mutable default argument", 3, c12_r8, "F-OWN",
                                        "independent documents, managers and records never meet in an object created at import time"))


# ===================================================================================== C09.R10 add_bundle resolves the identifier in the right scope, and checks the result
def c09_r10(ctx: Ctx, rule):
    """(a) The requested identifier may be a 'prefix:local' string whose prefix only the *document* declares: it resolves through the
    bundle's manager only after that manager has been linked to the document's (`bundle._namespaces.parent = self._namespaces`).
    (b) valid_qualified_name returns None for a string it cannot resolve: the result is None-tested before it becomes the bundle's
    identifier and its key in the document (as ProvDocument.bundle() does)."""
    res = RuleResult()
    q = DOC + ".add_bundle"
    fi = ctx.fn(q)
    g = get_cfg(ctx, q)
    bpar = fi.params[1]
    resolves = [c for c in calls_in(fi.node) if call_name(c) == "valid_qualified_name" and isinstance(c.func, ast.Attribute)]
    if not resolves:
        raise AnalysisError("add_bundle no longer resolves the requested identifier")
    links = [n for n in walk_function(fi.node) if isinstance(n, ast.Assign) and any(isinstance(t, ast.Attribute) and t.attr == "parent" for t in n.targets)]
    dom = g.dominators(labels_excluded=("exc", "raise"))
    for c in resolves:
        recv = norm(c.func.value)
        through_bundle = recv.split(".")[0] not in ("self",)
        cn = node_of(g, c)
        if through_bundle:
            ln = {x.id for l in links for x in g.node_containing(l)}
            ok = bool(dom.get(cn.id, set()) & ln)
            res.ob("%s resolves in the bundle's scope after that scope was linked to the document's: %s" % (norm(c)[:50], ok))
            if not ok:
                res.fail(rule.id, "resolved-before-parent-link", ctx.loc(q, c), "add_bundle resolves the identifier through %s before the bundle's manager is linked to the document's" % recv,
                         "d declares ex; d.add_bundle(b, 'ex:b5') with b not declaring ex: the identifier resolves to None and the bundle is stored under the key None")
        else:
            res.ob("%s resolves in the document's own scope" % norm(c)[:50])
        # (b) None test of the result before it is stored
        tgt = next((a.targets[0].id for a in walk_function(fi.node) if isinstance(a, ast.Assign) and a.value is c and isinstance(a.targets[0], ast.Name)), None)
        stores = [n for n in walk_function(fi.node) if isinstance(n, ast.Assign) and tgt and any(isinstance(t, ast.Subscript) and isinstance(t.slice, ast.Name) and t.slice.id == tgt for t in n.targets)]
        # the duplicate test and the store use the same (resolved) key
        bmap = {norm(t.value) for st in stores for t in st.targets if isinstance(t, ast.Subscript)}
        for n in walk_function(fi.node):
            if isinstance(n, ast.Compare) and len(n.ops) == 1 and isinstance(n.ops[0], (ast.In, ast.NotIn)) and norm(n.comparators[0]) in bmap and tgt:
                okk = isinstance(n.left, ast.Name) and n.left.id == tgt
                res.ob("the duplicate test `%s` uses the resolved identifier `%s`: %s" % (norm(n)[:50], tgt, okk))
                if not okk:
                    res.fail(rule.id, "duplicate-test-on-unresolved-identifier", ctx.loc(q, n), "add_bundle tests `%s` but stores under `%s`: a string identifier never matches the QualifiedName keys" % (norm(n)[:50], tgt),
                             "d.add_bundle(b, 'ex:b0') while ex:b0 exists: the duplicate is not refused, the existing bundle is silently replaced")
        for st in stores:
            sn = node_of(g, st)
            tested = any(g.nodes[i].kind == "test" and tgt in norm(g.nodes[i].stmt.test) and ("None" in norm(g.nodes[i].stmt.test) or norm(g.nodes[i].stmt.test) in (tgt, "not %s" % tgt)) for i in dom.get(sn.id, set()))
            res.ob("the resolved identifier `%s` is None-tested before `%s`: %s" % (tgt, norm(st)[:40], tested))
            if not tested:
                res.fail(rule.id, "unresolved-identifier-stored::%s" % tgt, ctx.loc(q, st), "add_bundle stores the bundle under `%s` without testing that the identifier could be resolved (valid_qualified_name returns None for an unknown prefix)" % tgt,
                         "d.add_bundle(b, 'zz:b1') with zz declared nowhere: the bundle is attached under the identifier None")
    return res


RULES.setdefault("C09", []).append(Rule("C09.R10", "add_bundle resolves the requested identifier after linking the scopes and refuses an identifier it cannot resolve", 2, c09_r10, "F-PATH",
                                        "the bundle is attached under the requested identifier, or refused"))


def unified_is_fresh(ctx: Ctx, rule):
    """prov_to_dot / prov_to_graph draw `unified()`: both unified() methods build their result on every path (no `return self`
    shortcut - a document without repeated identifiers at its own level may still have them inside a bundle)."""
    res = RuleResult()
    eff = get_effects(ctx)
    for q in (DOC + ".unified", BUNDLE + ".unified"):
        s = eff.sum[q]
        roots = {r for r in s.ret_roots if not r.startswith("global:")}
        res.ob("%s builds its result on every path (returns nothing reachable from its source): %s" % (short(q), not roots))
        if roots:
            res.fail(rule.id, "unified-shortcut::%s" % q, ctx.loc(q, ctx.fn(q).node), "%s can hand back (part of) its source (%s) instead of a unified copy" % (short(q), sorted(roots)),
                     "a document whose only repeated identifiers are inside a bundle: the shortcut skips the bundles, and the element is drawn twice in its cluster")
    # every bundle goes through unified(): the document-level method calls <bundle>.unified() inside its loop over the bundles
    dq = DOC + ".unified"
    df = ctx.fn(dq)
    loops = [n for n in walk_function(ufn(ctx, dq).node) if isinstance(n, ast.For) and "bundle" in norm(n.iter)]
    ok = any(isinstance(c, ast.Call) and call_name(c) == "unified" for l in loops for c in ast.walk(l))
    res.ob("ProvDocument.unified unifies each bundle in its loop over the bundles: %s" % ok)
    if not ok:
        res.fail(rule.id, "bundles-not-unified", ctx.loc(dq, df.node), "ProvDocument.unified does not call unified() on each of its bundles", "repeated identifiers inside a bundle stay separate records")
    return res


for _p, _r in (("C15", "C15.R7"), ("C14", "C14.R7"), ("C08", "C08.R13")):
    RULES.setdefault(_p, []).append(Rule(_r, "unified() always builds a unified copy, bundles included (no shortcut that returns the source)", 3, unified_is_fresh, "F-OWN",
                                         "what is drawn / converted is the unified form of every bundle"))


# C07, C14 and C15 are stated against the *unified* document: the core rules of unified() are necessary conditions of theirs too
for _p, _n in (("C07", 12), ("C14", 8), ("C15", 8)):
    RULES.setdefault(_p, []).append(Rule("%s.R%d" % (_p, _n), "unified() merges the whole attribute lists of same-kind records on a fresh record (shared with C08.R1)", 1, c08_r1, "F-OWN",
                                         "the unified form this property is stated against carries every attribute of every statement"))
    RULES.setdefault(_p, []).append(Rule("%s.R%d" % (_p, _n + 1), "unified() groups records by kind and identifier (shared with C08.R2)", 1, c08_r2, "F-PATH",
                                         "records of different kinds sharing an identifier stay apart, same-kind ones are merged wherever they stand"))


# ===================================================================================== a list is not changed while it is being walked (C10.R16 = C02.R15 = C13.R7)
def no_mutation_while_iterating(ctx: Ctx, rule):
    """`for x in L:` with `L.remove(x)` / `del L[i]` / `L.insert(..)` in the body skips (or repeats) elements.  The writers order a
    record's attributes with sorted_attributes(), whose loop removes the pairs it has emitted from the list it walks - correct only
    because it walks a *copy* (`for e in list(attributes)`)."""
    res = RuleResult()
    n = 0
    for q, fi in ctx.p.functions.items():
        if fi.module.startswith("scripts.") or isinstance(fi.node, ast.Lambda):
            continue
        for loop in walk_function(fi.node):
            if not isinstance(loop, ast.For) or not isinstance(loop.iter, ast.Name):
                continue
            L = loop.iter.id
            muts = [c for b in loop.body for c in ast.walk(b) if isinstance(c, ast.Call) and isinstance(c.func, ast.Attribute) and isinstance(c.func.value, ast.Name) and c.func.value.id == L
                    and c.func.attr in ("remove", "pop", "insert", "append", "extend", "clear", "sort", "reverse")]
            muts += [d for b in loop.body for d in ast.walk(b) if isinstance(d, ast.Delete) and any(isinstance(t, ast.Subscript) and isinstance(t.value, ast.Name) and t.value.id == L for t in d.targets)]
            # a change followed, in the same statement list, by break / return / raise ends the walk: nothing is skipped
            def leaves_loop_after(m):
                for lst in [x for y in ast.walk(loop) for x in (getattr(y, "body", None), getattr(y, "orelse", None), getattr(y, "finalbody", None)) if isinstance(x, list)]:
                    for i, st in enumerate(lst):
                        if any(z is m for z in ast.walk(st)):
                            if any(isinstance(t, (ast.Break, ast.Return, ast.Raise)) for t in lst[i:]):
                                return True
                return False

            muts = [m for m in muts if not leaves_loop_after(m)]
            if not muts:
                continue
            n += 1
            res.ob("%s: `for .. in %s` changes %s in its body (%s)" % (short(q) if q.count(".") > 2 else q, L, L, norm(muts[0])[:40]))
            res.fail(rule.id, "list-changed-while-walked::%s::%s" % (q, L), ctx.loc(q, muts[0]),
                     "%s walks `%s` and changes it in the loop body (%s): elements are skipped" % (short(q) if q.count(".") > 2 else q, L, norm(muts[0])[:40]),
                     "a record with two prov:label values: the second one is emitted after prov:value and the foreign attributes, breaking the PROV-XML child order")
    # the instance this rule was confirmed on: sorted_attributes walks a copy
    sq = M + ".sorted_attributes"
    if sq not in ctx.p.functions:
        raise AnalysisError("anchor vanished: function %s" % sq)
    copies = [l for l in walk_function(ctx.fn(sq).node) if isinstance(l, ast.For) and isinstance(l.iter, (ast.Call, ast.Subscript))]
    res.ob("sorted_attributes walks a copy of the list it removes from: %s" % bool(copies))
    res.ob("loops that change the list they walk: %d" % n, nontrivial=False)
    return res


for _p, _r, _d in (("C10", "C10.R16", "attributes are emitted in the schema's order: none is skipped by the ordering helper"), ("C02", "C02.R15", "every attribute value is written"),
                   ("C13", "C13.R7", "the same attribute list is ordered the same way on every export")):
    RULES.setdefault(_p, []).append(Rule(_r, "no list is changed while it is being walked (sorted_attributes walks a copy)", 1, no_mutation_while_iterating, "F-PATH", _d))


# ===================================================================================== value sets are heterogeneous: no ordering without a key (C15.R10 = C13.R8)
def no_ordering_of_value_sets(ctx: Ctx, rule):
    """The values of one attribute may be of different kinds (str, Literal, QualifiedName, int ...), which Python cannot order: min /
    max / sorted without a key on a value set raises TypeError for such records (prov_to_dot only catches ProvException)."""
    res = RuleResult()
    mm = attr_slot(ctx)
    n = 0
    for q, fi in ctx.p.functions.items():
        if fi.module.startswith("scripts.") or isinstance(fi.node, ast.Lambda):
            continue
        for c in calls_in(fi.node):
            if call_name(c) not in ("min", "max", "sorted") or not isinstance(c.func, ast.Name) or not c.args or any(k.arg == "key" for k in c.keywords):
                continue
            a = resolve_local(fi.node, c.args[0])
            from_values = any(isinstance(x, ast.Subscript) and isinstance(x.value, ast.Attribute) and x.value.attr == mm for x in ast.walk(a)) or \
                any(isinstance(x, ast.Call) and call_name(x) in ("get_attribute", "get_asserted_types") for x in ast.walk(a))
            if not from_values:
                continue
            n += 1
            res.ob("%s orders a set of attribute values without a key: %s" % (short(q), norm(c)[:50]))
            res.fail(rule.id, "value-set-ordered::%s" % q, ctx.loc(q, c), "%s applies %s to the values of an attribute, which may be of kinds Python cannot compare" % (short(q), norm(c)[:40]),
                     "an element with prov:label values 'x' and Literal('y', langtag='en'): prov_to_dot(use_labels=True) raises TypeError")
    res.ob("min/max/sorted without key over attribute value sets: %d" % n, nontrivial=False)
    lq = ctx.p.lookup_method(RECORD, "label")
    if lq is None:
        raise AnalysisError("anchor vanished: ProvRecord.label")
    res.ob("ProvRecord.label picks a value with first(): %s" % any(call_name(c) == "first" for q2 in ctx.helper_closure(lq, 1) for c in calls_in(ctx.fn(q2).node)))
    return res


for _p, _r, _d in (("C15", "C15.R10", "prov_to_dot returns DOT text for every document, whatever kinds its label values have"), ("C13", "C13.R8", "exports do not depend on an ordering of unorderable values")):
    RULES.setdefault(_p, []).append(Rule(_r, "attribute value sets are never ordered without a key", 1, no_ordering_of_value_sets, "F-PATH", _d))


# ===================================================================================== round-5 rules around copies between containers
def c12_r9(ctx: Ctx, rule):
    """The bundle returned by ProvBundle.unified() is a new, free-standing object: its constructor is not given the source's document
    (or any other REF parameter taken from self) - otherwise what the derived bundle reports (its default namespace, its document)
    changes when the source's document changes."""
    res = RuleResult()
    n = 0
    for q in (BUNDLE + ".unified", DOC + ".unified"):
        fi = ufn(ctx, q)
        for c in calls_in(fi.node):
            r = ctx.p.resolve_dotted(fi.module, c.func) if dotted(c.func) else None
            if not (r and r[0] == "class" and r[1] in (BUNDLE, DOC)):
                continue
            n += 1
            refs = [k for k in c.keywords if k.arg in ("document", "parent", "bundle") and any(isinstance(x, ast.Name) and x.id == "self" for x in ast.walk(k.value))]
            res.ob("%s constructs its result with %s: linked to the source: %s" % (short(q), norm(c)[:70], bool(refs)))
            for k in refs:
                res.fail(rule.id, "result-linked-to-source::%s::%s" % (q, k.arg), ctx.loc(q, c), "%s builds its result with %s=%s: the derived object stays attached to the source's %s" % (short(q), k.arg, norm(k.value), k.arg),
                         "b2 = b.unified(); doc.set_default_namespace(u): b2.get_default_namespace() changes although b2 was never touched")
    if not n:
        raise AnalysisError("no result construction found in unified()")
    return res


RULES.setdefault("C12", []).append(Rule("C12.R9", "the result of unified() is constructed without a reference to the source's document", 2, c12_r9, "F-OWN",
                                        "derived bundles do not observe later changes of the source's document"))


def c09_r13(ctx: Ctx, rule):
    """(a) The literal converter hands native Python values back as they are: no arm returns int(x) / float(x) / bool(x) of its argument
    (bool is an int for isinstance and for numbers.Integral, so such an arm turns True into 1 when a record is re-created).
    (b) A bundle identifier travels between containers as the QualifiedName object: it is never passed on as str(identifier),
    whose prefix would be resolved again in the receiving container's scope."""
    res = RuleResult()
    q = RECORD + "." + ctx.literal_converter()
    if q not in ctx.p.functions:
        raise AnalysisError("anchor vanished: function %s" % q)
    n = 0
    for q2 in ctx.helper_closure(q, 2):
        fi = ctx.fn(q2)
        if fi.module != M or fi.cls != RECORD:
            continue  # the datatype parsers convert *lexical forms* (strings): int(value) there is the exact conversion
        subj = (fi.params[1:] if fi.cls and not fi.is_static else fi.params)
        for r in walk_function(fi.node):
            if isinstance(r, ast.Return) and isinstance(r.value, ast.Call) and isinstance(r.value.func, ast.Name) and r.value.func.id in ("int", "float", "bool", "complex") and r.value.args and isinstance(r.value.args[0], ast.Name) and r.value.args[0].id in subj:
                n += 1
                res.fail(rule.id, "native-value-converted::%s" % r.value.func.id, ctx.loc(q2, r), "%s returns %s: a value of another kind admitted by the guarding test (True is an int) is converted" % (short(q2), norm(r.value)),
                         "Literal('true', xsd:boolean) is stored as True; flattened()/update() re-create the record through the converter and store 1: PROV-N prints 1 instead of '1' %% xsd:boolean")
    res.ob("the literal converter converts native values through int()/float()/bool(): %d arm(s)" % n)
    m = 0
    for q2, fi in ctx.p.functions.items():
        if fi.module != M or not fi.cls or fi.cls not in (BUNDLE, DOC) or isinstance(fi.node, ast.Lambda):
            continue
        for c in calls_in(fi.node):
            if not (isinstance(c.func, ast.Attribute) and isinstance(c.func.value, ast.Name) and c.func.value.id in ("self",) or isinstance(c.func, ast.Attribute) and call_name(c) in ("bundle", "add_bundle", "get_record", "valid_qualified_name", "new_record")):
                continue
            for a in list(c.args) + [k.value for k in c.keywords]:
                if isinstance(a, ast.Call) and isinstance(a.func, ast.Name) and a.func.id == "str" and a.args and isinstance(a.args[0], ast.Attribute) and a.args[0].attr in ("identifier", "_identifier"):
                    m += 1
                    res.fail(rule.id, "identifier-reprinted::%s" % q2, ctx.loc(q2, c), "%s passes %s on: the printed form is resolved again, in the receiving container's scope" % (short(q2), norm(a)),
                             "d.update(other) where other has bundle ex:b1 and d binds ex to another URI: the bundle is appended under d's URI for ex")
    res.ob("identifiers passed between containers in printed form: %d" % m)
    return res


RULES.setdefault("C09", []).append(Rule("C09.R13", "records and bundle identifiers are re-created from the objects themselves: no int()/float() conversion of native values, no str(identifier) re-resolution", 2, c09_r13, "F-OWN",
                                        "flattened/update/add_bundle conserve value kinds and bundle URIs"))
RULES.setdefault("C05", []).append(Rule("C05.R14", "the literal converter hands native Python values back unchanged (shared with C09.R13)", 2, c09_r13, "F-OWN",
                                        "a bool stays a bool whichever entry path stored it"))


# whole-map readers tolerating empty entries is what makes the text exporters independent of earlier reads: also a condition of
# the PROV-N text (an absent argument prints '-', not None) and of the JSON text (no "prov:plan": "None", nothing skipped)
for _p, _r, _d in (("C06", "C06.R14", "an absent optional argument is printed as '-' whatever was read from the record before"),
                   ("C01", "C01.R15", "the JSON text does not depend on attributes having been looked up before"),
                   ("C10", "C10.R17", "no 'None' name and no empty value list is emitted for attributes that were only looked up")):
    RULES.setdefault(_p, []).append(Rule(_r, "readers of the attribute multimap tolerate empty value sets and do not take key membership for a value (shared with C13.R3)", 3, c13_r3, "F-PATH", _d))

RULES.setdefault("C12", []).append(Rule("C12.R10", "update() leaves its argument unchanged and walks all of it (shared with C09.R4)", 5, c09_r4, "F-OWN",
                                        "d1.update(d2) never writes into d2"))


# ===================================================================================== C08.R15 / C18.R12: the identifier index is a defaultdict
def index_size_rule(ctx: Ctx, rule):
    """ProvBundle's identifier index is a defaultdict(list): every lookup of an absent identifier (get_record) leaves an empty
    entry behind.  Its size, its key set and key membership are therefore no evidence of records: nothing may count the index
    (`len(index)`), test it for membership without looking at the entry, or take its truth value.  Walking `.items()` / `.values()`
    and then the lists is fine (an empty list contributes nothing).  Vacuous if the index is not created on demand."""
    res = RuleResult()
    rl, ix, ft = bundle_slots(ctx)
    on_demand = ft[ix].container.startswith("defaultdict")
    res.ob("identifier index `%s` is created as %s: lookups can add empty entries: %s" % (ix, ft[ix].container[:30], on_demand))
    if not on_demand:
        return res
    n_uses = 0
    for q, fi in ctx.p.functions.items():
        if fi.module.startswith("scripts.") or isinstance(fi.node, ast.Lambda):
            continue
        parents = None
        for n in walk_function(fi.node):
            if not (isinstance(n, ast.Attribute) and n.attr == ix and isinstance(n.ctx, ast.Load)):
                continue
            n_uses += 1
            if parents is None:
                parents = {}
                for a in ast.walk(fi.node):
                    for ch in ast.iter_child_nodes(a):
                        parents[id(ch)] = a
            p = parents.get(id(n))
            bad = None
            if isinstance(p, ast.Call) and call_name(p) in ("len", "bool", "any", "all", "set", "list", "sorted", "tuple", "frozenset", "iter") and p.args and p.args[0] is n:
                bad = "%s(..) of the index" % call_name(p)
            elif isinstance(p, ast.Compare) and any(c is n for c in p.comparators) and any(isinstance(o, (ast.In, ast.NotIn)) for o in p.ops):
                # `k in index and index[k]` is fine: the entry is looked at
                entry = "%s[%s]" % (norm(n), norm(p.left))
                pp = parents.get(id(p))
                conj = pp.values if isinstance(pp, ast.BoolOp) and isinstance(pp.op, ast.And) else []
                if not any(norm(o) in (entry, "len(%s)" % entry, "len(%s) > 0" % entry) for o in conj if o is not p):
                    bad = "membership test `%s`" % norm(p)[:40]
            elif isinstance(p, (ast.If, ast.While, ast.IfExp)) and p.test is n or (isinstance(p, ast.UnaryOp) and isinstance(p.op, ast.Not)) or (isinstance(p, ast.BoolOp)):
                bad = "truth value of the index"
            elif isinstance(p, (ast.For, ast.comprehension)) and p.iter is n:
                bad = "iteration over the keys of the index"
            elif isinstance(p, ast.Attribute) and p.attr == "keys":
                bad = "keys() of the index"
            res.ob("%s: use of the index `%s`: %s" % (short(q) if q.count(".") > 2 else q, norm(p)[:50] if p is not None else norm(n), bad or "by entry"))
            if bad:
                res.fail(rule.id, "index-size-as-evidence::%s" % q, ctx.loc(q, n),
                         "%s relies on %s, but the index gains an empty entry for every identifier that was merely looked up" % (short(q) if q.count(".") > 2 else q, bad),
                         "doc.get_record('ex:absent') once, then unified() / the lookup: the count of index entries no longer equals the number of identifiers in use")
    if not n_uses:
        raise AnalysisError("no read of the identifier index %s found" % ix)
    return res


RULES.setdefault("C08", []).append(Rule("C08.R15", "the identifier index is created on demand: its size, key set and key membership are never taken as evidence of records", 2, index_size_rule, "F-PATH",
                                        "unified() merges what has to be merged whatever identifiers were looked up before"))
RULES.setdefault("C18", []).append(Rule("C18.R12", "the identifier index is created on demand: its size and key membership are no evidence of records (shared with C08.R15)", 2, index_size_rule, "F-PATH",
                                        "a failed lookup does not change what later lookups and unified() see"))


# ===================================================================================== C08.R16: originals pass through unified() by identity
def c08_r16(ctx: Ctx, rule):
    """Records compare and hash by content.  unified() keeps records without identifier "as they are", and as many of them as there
    were: in the loop that emits the result, a set (or dict) that suppresses repeats may only ever hold *merged* records - values
    read from the merge map - never the records of the source list themselves."""
    res = RuleResult()
    uq = unified_helper(ctx)
    f = ufn(ctx, uq, keep=())
    rl, ix, ft = bundle_slots(ctx)
    loops = [lp for lp in walk_function(f.node) if isinstance(lp, ast.For) and isinstance(lp.target, ast.Name) and any(isinstance(x, ast.Attribute) and x.attr == rl for x in ast.walk(lp.iter))
             and any(isinstance(c, ast.Call) and call_name(c) in ("append", "add", "extend") for b in lp.body for c in ast.walk(b))]
    if not loops:
        res.ob("%s: no loop over the record list that emits records (the result is built another way): not judged" % short(uq), nontrivial=False)
        return res
    for lp in loops:
        v = lp.target.id
        # names that can hold the loop's own record: v, and locals assigned from an expression in which v appears outside a
        # subscript / lookup key position  (x = d.get(v, v); x = v if c else m)
        may_be_original = {v}
        changed = True
        while changed:
            changed = False
            for a in [x for b in lp.body for x in ast.walk(b) if isinstance(x, ast.Assign)]:
                tg = {t.id for t in a.targets if isinstance(t, ast.Name)}
                if not tg or tg <= may_be_original and False:
                    continue
                val = a.value
                flows = False
                if isinstance(val, ast.Name) and val.id in may_be_original:
                    flows = True
                elif isinstance(val, ast.IfExp) and any(isinstance(x, ast.Name) and x.id in may_be_original for x in (val.body, val.orelse)):
                    flows = True
                elif isinstance(val, ast.Call) and call_name(val) in ("get", "setdefault", "pop") and len(val.args) == 2 and isinstance(val.args[1], ast.Name) and val.args[1].id in may_be_original:
                    flows = True
                elif isinstance(val, ast.BoolOp) and any(isinstance(x, ast.Name) and x.id in may_be_original for x in val.values):
                    flows = True
                if flows and not tg <= may_be_original:
                    may_be_original |= tg
                    changed = True
        bad = []
        for b in lp.body:
            for x in ast.walk(b):
                if isinstance(x, ast.Call) and isinstance(x.func, ast.Attribute) and x.func.attr == "add" and x.args and isinstance(x.args[0], ast.Name) and x.args[0].id in may_be_original:
                    # adding to the *result* (a list has append; a set named as result would be caught as well, rightly)
                    bad.append(x)
        # a rebinding of the loop variable itself to a merged record under a test is fine only if the set never receives originals:
        # `record = merged_records[record]` inside `if record in merged_records:` makes v merged there; handle by excluding adds that
        # sit under a membership test of the merge map on that name
        def under_merge_test(node, name):
            for t in [y for b in lp.body for y in ast.walk(b) if isinstance(y, ast.If)]:
                if any(z is node for bb in t.body for z in ast.walk(bb)):
                    for c in ast.walk(t.test):
                        if isinstance(c, ast.Compare) and len(c.ops) == 1 and isinstance(c.ops[0], ast.In) and isinstance(c.left, ast.Name) and c.left.id in (name, v):
                            return True
            return False
        bad = [x for x in bad if not under_merge_test(x, x.args[0].id)]
        res.ob("%s: loop over %s: names that can hold a source record: %s; repeat-suppressing sets that receive one: %d" % (short(uq), rl, sorted(may_be_original), len(bad)))
        for x in bad[:1]:
            res.fail(rule.id, "originals-deduplicated::%s" % norm(x)[:40], ctx.loc(uq, x),
                     "%s puts records of the source list themselves into a set (%s): records compare by content, so a second, equal record without identifier is dropped" % (short(uq), norm(x)[:40]),
                     "two equal used(a, e) statements without identifier (e.g. contributed by update() from two sources): unified() keeps one; ex:n=1 and ex:n=True collapse as well")
    return res


RULES.setdefault("C08", []).append(Rule("C08.R16", "records of the source pass through unified() by identity: repeat suppression only ever looks at merged records", 1, c08_r16, "F-PATH",
                                        "records without identifier are kept as they are, and as many as there were"))


# ===================================================================================== C06.R15 / C09.R14: nothing is remembered between two calls
def c06_r15(ctx: Ctx, rule):
    return c13_r1(ctx, rule, only=lambda q, label: label in ("ProvBundle.get_provn", "ProvRecord.get_provn") or label.startswith("serialize(format='provn'"))


RULES.setdefault("C06", []).append(Rule("C06.R15", "printing PROV-N leaves no trace on the document: nothing computed for one text is kept for the next (C13.R1 restricted to get_provn)", 2, c06_r15, "F-OWN",
                                        "the prefix declarations printed are those in force when the text is produced, not those of an earlier call"))


def c09_r14(ctx: Ctx, rule):
    return c13_r1(ctx, rule, only=lambda q, label: label in ("ProvDocument.flattened",))


RULES.setdefault("C09", []).append(Rule("C09.R14", "flattened() leaves no trace on the document: its result is built from the current records at every call (C13.R1 restricted to flattened)", 1, c09_r14, "F-OWN",
                                        "records added to a bundle, or attributes added to a bundled record, after a first flattened() appear in the next one"))


# ===================================================================================== C04.R11: comparing and hashing keep no stale state
def c04_r11(ctx: Ctx, rule):
    return c13_r1(ctx, rule, only=lambda q, label: label.endswith((".__eq__", ".__ne__", ".__hash__")))


RULES.setdefault("C04", []).append(Rule("C04.R11", "comparing and hashing write nothing, except a cache that every writer of the compared fields resets (C13.R1 restricted to __eq__ / __ne__ / __hash__)", 10, c04_r11, "F-OWN",
                                        "a == b and hash(a) are computed from the current content: a record changed after a first comparison does not keep its old identity"))


# ===================================================================================== one-shot locals walked twice (shared)
ONE_SHOT_ENTRIES = dict(CACHE_ENTRIES)
ONE_SHOT_ENTRIES.update({
    "C06": [BUNDLE + ".get_provn", RECORD + ".get_provn"],
    "C13": [DOC + ".serialize", BUNDLE + ".get_provn", DOC + ".unified", DOC + ".flattened", GR + ".prov_to_graph", DOT + ".prov_to_dot"],
    "C18": [BUNDLE + ".get_records", BUNDLE + ".get_record"],
    "C01": [JS + ".ProvJSONSerializer.serialize", JS + ".ProvJSONSerializer.deserialize"],
    "C02": [XM + ".ProvXMLSerializer.serialize", XM + ".ProvXMLSerializer.deserialize"],
})


def one_shot_local_rule(prop):
    def run(ctx: Ctx, rule):
        """A generator expression, map / filter / zip / itertools object or generator-function result held in a local can be
        walked once.  If the local has two walking sites and the second is reachable from the first (CFG), the second sees nothing
        - typically a count or a log line placed in front of the real loop.  Materialising (`list(x)`) in between is a rebinding
        and ends the one-shot value."""
        res = RuleResult()
        eff = get_effects(ctx)
        entries = ONE_SHOT_ENTRIES[prop]
        closure = set()
        for e in entries:
            if e not in ctx.p.functions:
                raise AnalysisError("anchor vanished: function %s" % e)
            closure |= set(eff.closure(e)) | {e}
        probe = ast.parse("def f(a):\n    g = (x for x in a)\n    n = sum(1 for _ in g)\n    for y in g:\n        pass\n").body[0]
        if len(_iteration_sites(probe, "g")) != 2:
            raise AnalysisError("iteration-site matcher self-check failed")
        n_locals = 0
        for q in sorted(closure):
            fi = ctx.p.functions.get(q)
            if fi is None or isinstance(fi.node, ast.Lambda) or fi.module.startswith("scripts."):
                continue
            for a in walk_function(fi.node):
                if not (isinstance(a, ast.Assign) and len(a.targets) == 1 and isinstance(a.targets[0], ast.Name)):
                    continue
                name = a.targets[0].id
                why = _is_one_shot(ctx, fi, a.value)
                if not why:
                    continue
                defs = [x for x in walk_function(fi.node) if isinstance(x, ast.Assign) and any(isinstance(t, ast.Name) and t.id == name for t in x.targets)]
                other_defs = [x for x in defs if x is not a]
                n_locals += 1
                sites = _iteration_sites(fi.node, name)
                # sites that consume: a `for` / comprehension / materialiser / sum(..) over the name, also inside a nested genexp
                extra = [c for c in walk_function(fi.node) if isinstance(c, ast.Call) and call_name(c) in ("zip", "enumerate", "chain", "map", "filter") and any(isinstance(x, ast.Name) and x.id == name for x in c.args)]
                sites = sites + [c for c in extra if c not in sites]
                for gen in [x for x in walk_function(fi.node) if isinstance(x, (ast.GeneratorExp, ast.ListComp, ast.SetComp, ast.DictComp))]:
                    for g2 in gen.generators:
                        if isinstance(g2.iter, ast.Name) and g2.iter.id == name and g2 not in sites:
                            sites.append(g2)
                # handing the iterator to the caller after a walk hands over an exhausted one: `return name` counts as a use
                walked = list(sites)
                sites = sites + [r for r in walk_function(fi.node) if isinstance(r, ast.Return) and isinstance(r.value, ast.Name) and r.value.id == name]
                if not walked:
                    continue
                res.ob("%s: local `%s` holds %s; walking sites: %d" % (short(q) if q.count(".") > 2 else q, name, why, len(sites)))
                if len(sites) < 2:
                    continue
                g = get_cfg(ctx, q)
                nodes = []
                try:
                    na = node_of(g, a)
                    od = {node_of(g, x).id for x in other_defs}
                except Exception:
                    continue
                for st in sites:
                    try:
                        nd = node_of(g, st if not isinstance(st, ast.comprehension) else st.iter)
                    except Exception:
                        continue
                    # only walks that can see THIS value: reachable from its definition without passing a rebinding
                    if nd.id not in od and g.find_path(na, nd, avoid=lambda x: x.id in od, labels_excluded=("exc", "raise")) is not None:
                        nodes.append((nd, st))
                bad = None
                for i, (n1, s1) in enumerate(nodes):
                    for j, (n2, s2) in enumerate(nodes):
                        if i != j and (n1.id == n2.id and i < j or (n1.id != n2.id and g.find_path(n1, n2, avoid=lambda x: x.id in od, labels_excluded=("exc", "raise")) is not None)):
                            bad = (s1, s2)
                            break
                    if bad:
                        break
                if bad:
                    res.fail(rule.id, "one-shot-walked-twice::%s::%s" % (q, name), ctx.loc(q, bad[1] if not isinstance(bad[1], ast.comprehension) else bad[1].iter),
                             "%s walks `%s` (%s) at line %d and again at line %d: the second walk sees nothing" % (short(q) if q.count(".") > 2 else q, name, why, getattr(bad[0], "lineno", getattr(getattr(bad[0], "iter", None), "lineno", 0)), getattr(bad[1], "lineno", getattr(getattr(bad[1], "iter", None), "lineno", 0))),
                             "with DEBUG logging on (or whenever the first walk runs), the records / bundles the second walk was meant to process are silently missing from the result")
        res.ob("one-shot locals in the closure of %s: %d" % ([short(e) for e in entries], n_locals), nontrivial=False)
        return res

    return run


for _p, _r in (("C06", "C06.R16"), ("C09", "C09.R15"), ("C13", "C13.R9"), ("C18", "C18.R14"), ("C08", "C08.R17"), ("C12", "C12.R12"), ("C14", "C14.R10"), ("C15", "C15.R13"), ("C16", "C16.R15"), ("C07", "C07.R15"), ("C01", "C01.R18"), ("C02", "C02.R19")):
    RULES.setdefault(_p, []).append(Rule(_r, "a one-shot iterator held in a local is walked at most once on any path of this property's entry points", 0, one_shot_local_rule(_p), "F-PATH",
                                         "counting or logging what is about to be processed does not consume it"))


# ===================================================================================== C08.R18: a conflict between merged records is not absorbed
def c08_r18(ctx: Ctx, rule):
    """unified() "either raises ProvException (two records with the same identifier disagree on a single-valued formal attribute)
    or returns" the merged form.  The refusal comes from add_attributes; in the merging helper and in both unified() methods, the
    calls that merge (new_record / add_attributes / the helper itself) do not sit in a `try` whose handler takes ProvException (or
    something broader) and carries on."""
    res = RuleResult()
    uq = unified_helper(ctx)
    roots = [uq, BUNDLE + ".unified", DOC + ".unified"]
    n_try = 0
    for q in roots:
        if q not in ctx.p.functions:
            continue
        fi = ufn(ctx, q) if q != uq else ufn(ctx, q, keep=())
        for t in walk_function(fi.node):
            if not isinstance(t, ast.Try):
                continue
            merges = [c for b in t.body for c in ast.walk(b) if isinstance(c, ast.Call) and call_name(c) in ("add_attributes", "new_record", uq.rsplit(".", 1)[1], "unified", "add_record")]
            if not merges:
                continue
            for h in t.handlers:
                names = [norm(x) for x in (h.type.elts if isinstance(h.type, ast.Tuple) else [h.type])] if h.type is not None else ["<bare>"]
                broad = [nm for nm in names if nm in ("<bare>", "Exception", "BaseException") or nm.endswith("ProvException")]
                reraises = any(isinstance(x, ast.Raise) for b in h.body for x in ast.walk(b))
                if broad and not reraises:
                    n_try += 1
                    res.fail(rule.id, "merge-conflict-absorbed::%s" % q, ctx.loc(q, h),
                             "%s catches %s around %s and carries on: records that disagree on a single-valued formal attribute are left un-merged instead of being refused" % (short(q), "/".join(broad), norm(merges[0].func)[:30]),
                             "activity ex:a stated twice with different start times: unified() returns a document in which ex:a still occurs on two activity records")
    res.ob("handlers that absorb the refusal of a merge in %s: %d" % ([short(q) for q in roots], n_try))
    return res


RULES.setdefault("C08", []).append(Rule("C08.R18", "the refusal of a conflicting merge is not absorbed: no handler for ProvException (or broader) around the merging calls of unified()", 1, c08_r18, "F-PATH",
                                        "unified() raises ProvException when same-identifier records disagree on a single-valued formal attribute"))


# ===================================================================================== C04.R12: floats are compared as they are
def c04_r12(ctx: Ctx, rule):
    """Equality discriminates every attribute value: in the closure of ProvRecord.__eq__ / __hash__ (and Literal's), a float is
    never replaced by a formatted stand-in of limited precision (`"%E" % v`, `"%g"`, `round(v, n)`, `format(v, ".6g")`)."""
    import re as _re
    res = RuleResult()
    lossy_fmt = _re.compile(r"%[-#0 +]*\d*(?:\.\d+)?[eEfgG]")
    n = 0
    seen = set()
    for cls in (RECORD, M + ".Literal"):
        for m in ("__eq__", "__hash__"):
            mq = ctx.p.lookup_method(cls, m)
            if not mq:
                continue
            for q in ctx.helper_closure(mq, 2):
                if q in seen:
                    continue
                seen.add(q)
                fi = ctx.p.functions.get(q)
                if fi is None or isinstance(fi.node, ast.Lambda) or fi.module not in (M, "prov.identifier"):
                    continue
                if fi.name in ("get_provn", "provn_representation", "__repr__", "__str__", "encoding_provn_value"):
                    continue
                for x in walk_function(fi.node):
                    what = None
                    if isinstance(x, ast.BinOp) and isinstance(x.op, ast.Mod) and isinstance(x.left, ast.Constant) and isinstance(x.left.value, str) and lossy_fmt.search(x.left.value.replace("%%", "")):
                        what = "%r %% .." % x.left.value
                    elif isinstance(x, ast.Call) and call_name(x) == "round" and len(x.args) >= 1:
                        what = norm(x)[:30]
                    elif isinstance(x, ast.Call) and call_name(x) == "format" and len(x.args) == 2 and isinstance(x.args[1], ast.Constant) and _re.search(r"[eEfgG]$", str(x.args[1].value)):
                        what = norm(x)[:30]
                    elif isinstance(x, ast.FormattedValue) and x.format_spec is not None and _re.search(r"[eEfgG]$", norm(x.format_spec).strip("'\"f")):
                        what = "f-string spec %s" % norm(x.format_spec)
                    if what:
                        n += 1
                        res.fail(rule.id, "lossy-comparison-key::%s" % q, ctx.loc(q, x),
                                 "%s, on the path of record equality / hashing, replaces a number by %s: values that differ beyond that precision compare equal" % (short(q) if q.count(".") > 2 else q, what),
                                 "ex:reading = 0.3 and ex:reading = 0.1 + 0.2: the two documents compare equal and hash alike although one attribute value differs")
    res.ob("precision-limited stand-ins for numbers on the equality / hash path: %d (functions looked at: %d)" % (n, len(seen)))
    return res


RULES.setdefault("C04", []).append(Rule("C04.R12", "numbers are compared as they are: no precision-limited formatting or rounding on the equality / hash path", 1, c04_r12, "F-TAINT",
                                        "a single changed float attribute value falsifies equality"))
