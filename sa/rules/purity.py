"""F-OWN rules over the effect / ownership summaries (E4): C13 purity of exporters, C12 no shared
mutable state, C08 unified(), C09 conservation and refusal without change."""
from __future__ import annotations

import ast

from .. import cfg as cfgmod
from ..ctx import DOT, GR, JS, M, PN, RD, XM, Ctx, call_name, calls_in, walk_function
from ..effects import HOP, base_of, get_effects
from ..loader import AnalysisError, dotted, norm
from ..mutation import field_table, is_fresh_expr, mutation_sites, resolve_local
from ..report import Rule, RuleResult
from .paths import BUNDLE, DOC, RECORD, NSM, attr_slot, bundle_slots, get_cfg, insertion_points, node_of, short

RULES = {}


def rule(prop, rid, title, floor, family="F-OWN", decides=""):
    def deco(fn):
        RULES.setdefault(prop, []).append(Rule(rid, title, floor, fn, family, decides))
        return fn

    return deco


ALLOWED = {
    "EMPTY-INSERT": "a defaultdict read leaves an empty entry behind; content-neutral because every whole-map reader tolerates empty value sets (C13.R3)",
    "MEMO": "memo tables (Namespace._cache, anonymous-id counters of a generator created per call)",
}


def exporters(ctx: Ctx):
    """(entry qualname, roots that denote the exported object)"""
    out = []
    ctx.fenv("prov.serializers.Registry.load_serializers")
    reg = ctx.f.class_attr("prov.serializers.Registry", "serializers")
    for fmt, cls in sorted(reg.items()):
        q = ctx.p.lookup_method(cls.qual, "serialize")
        out.append((q, {"self"}, "serialize(format=%r)" % fmt))
    out.append((DOC + ".serialize", {"self"}, "ProvDocument.serialize"))
    out.append((BUNDLE + ".get_provn", {"self"}, "ProvBundle.get_provn"))
    out.append((RECORD + ".get_provn", {"self"}, "ProvRecord.get_provn"))
    out.append((GR + ".prov_to_graph", {ctx.fn(GR + ".prov_to_graph").params[0]}, "prov_to_graph"))
    out.append((DOT + ".prov_to_dot", {ctx.fn(DOT + ".prov_to_dot").params[0]}, "prov_to_dot"))
    for cls in (RECORD, BUNDLE, DOC, M + ".Literal", "prov.identifier.Identifier", "prov.identifier.QualifiedName", "prov.identifier.Namespace"):
        for m in ("__eq__", "__ne__", "__hash__"):
            q = ctx.p.classes[cls].methods.get(m)
            if q:
                fi = ctx.fn(q)
                out.append((q, set(fi.params), "%s.%s" % (cls.rsplit(".", 1)[1], m)))
    out.append((DOC + ".unified", {"self"}, "ProvDocument.unified"))
    out.append((BUNDLE + ".unified", {"self"}, "ProvBundle.unified"))
    out.append((DOC + ".flattened", {"self"}, "ProvDocument.flattened"))
    return out


@rule("C13", "C13.R1", "effect closure of every exporter: nothing reachable from the exported object is written", 20,
      decides="serialising, printing, converting, comparing, hashing, unifying and flattening cannot change content, record order or namespace declarations")
def c13_r1(ctx: Ctx, rule):
    res = RuleResult()
    eff = get_effects(ctx)
    unresolved = sorted({u for s in eff.sum.values() for u in s.unresolved if not u.rsplit(": ", 1)[1].split("(")[0].endswith(("Exception", "Required", "DoNotExist", "Error"))})
    res.samples = [{"site": "call resolution", "reflective_sites": eff.reflective, "unresolved": unresolved[:10], "fixpoint_iterations": eff.iterations}]
    for q, roots, label in exporters(ctx):
        s = eff.sum[q]
        closure = eff.closure(q)
        mine = [e for e in s.effects if base_of(e[0]) in roots]
        res.ob("%s: closure of %d functions, %d effects on the exported object, classes %s" % (label, len(closure), len(mine), sorted({e[1] for e in mine})))
        bad = {}
        for e in mine:
            if e[1] in ALLOWED:
                continue
            bad.setdefault((e[0], e[1]), []).append(e)
        for (root, klass), es in sorted(bad.items()):
            chain = eff.explain(q, es[0])
            fq, node = s.sites[es[0]]
            res.fail(rule.id, "export-writes::%s::%s::%s" % (q, klass, root.replace(HOP, ">")), ctx.loc(fq, node),
                     "%s has a %s effect on %s (%s): %s" % (label, klass, root, "; ".join(sorted({x[2] for x in es}))[:120], " -> ".join(chain)),
                     "export the document, then export it again (or compare it with a twin built by the same calls): content, order or declarations differ")
    for k, why in ALLOWED.items():
        res.exceptions.append("%s allowed: %s" % (k, why))
    return res


@rule("C13", "C13.R2", "no module-level table is mutated on an export path", 1,
      decides="a second export sees the same style / mapping tables as the first")
def c13_r2(ctx: Ctx, rule):
    res = RuleResult()
    eff = get_effects(ctx)
    for q, roots, label in exporters(ctx):
        s = eff.sum[q]
        g = [e for e in s.effects if e[0].startswith("global:")]
        res.ob("%s: writes to module-level objects: %d" % (label, len(g)), nontrivial=bool(g) or "dot" in q or "serialize" in q)
        for e in g:
            fq, node = s.sites[e]
            res.fail(rule.id, "global-table-write::%s::%s" % (q, e[0]), ctx.loc(fq, node),
                     "%s mutates the module-level object %s (%s): %s" % (label, e[0][7:], e[2], " -> ".join(eff.explain(q, e))),
                     "the second export of an n-ary relation raises KeyError: 'label' / uses a style changed by the first")
    return res


@rule("C13", "C13.R3", "every reader of the whole attribute multimap tolerates empty value sets", 3, family="F-PATH",
      decides="the empty entries that formal_attributes/args/label/get_attribute leave behind never surface in an export")
def c13_r3(ctx: Ctx, rule):
    res = RuleResult()
    mm = attr_slot(ctx)
    for q, fi in ctx.p.functions.items():
        for n in walk_function(fi.node):
            # for k, vs in X._attributes.items():   /   for k in X._attributes:
            if isinstance(n, (ast.For, ast.comprehension)):
                it = n.iter
                whole = None
                if isinstance(it, ast.Call) and isinstance(it.func, ast.Attribute) and it.func.attr in ("items", "values") and isinstance(it.func.value, ast.Attribute) and it.func.value.attr == mm:
                    whole = it.func.attr
                elif isinstance(it, ast.Attribute) and it.attr == mm:
                    whole = "keys"
                if not whole:
                    continue
                tgt = n.target
                vname = None
                if whole == "items" and isinstance(tgt, ast.Tuple) and len(tgt.elts) == 2 and isinstance(tgt.elts[1], ast.Name):
                    vname = tgt.elts[1].id
                elif whole == "values" and isinstance(tgt, ast.Name):
                    vname = tgt.id
                body = n.body if isinstance(n, ast.For) else None
                ok, how = False, ""
                if isinstance(n, ast.comprehension):
                    # [(k, v) for k, vs in m.items() for v in vs]: an empty set contributes nothing
                    ok, how = True, "values only iterated in a nested comprehension clause"
                    comp_parent = [c for c in walk_function(fi.node) if isinstance(c, (ast.ListComp, ast.SetComp, ast.GeneratorExp, ast.DictComp)) and n in c.generators]
                    for c in comp_parent:
                        inner = [g for g in c.generators if g is not n and vname and norm(g.iter) == vname]
                        uses_first = any(isinstance(x, ast.Call) and call_name(x) == "first" for x in ast.walk(c))
                        ok = bool(inner) and not uses_first
                elif whole == "keys":
                    # for attr in m: ... for value in m[attr]  (iteration of the set) or a guarded first()
                    uses_first = [x for b in body for x in ast.walk(b) if isinstance(x, ast.Call) and call_name(x) == "first"]
                    ok, how = not uses_first, "per-key sets are iterated"
                else:
                    # skipping empties before first()/indexing
                    skip = any(isinstance(s0, ast.If) and norm(s0.test) in ("not %s" % vname, "len(%s) == 0" % vname, "not len(%s)" % vname) and any(isinstance(x, ast.Continue) for x in s0.body) for s0 in body[:2])
                    uses_first = [x for b in body for x in ast.walk(b) if isinstance(x, ast.Call) and call_name(x) == "first" and x.args and norm(x.args[0]) == vname]
                    uses_len1 = any(isinstance(x, ast.Compare) and norm(x.left) == "len(%s)" % vname for b in body for x in ast.walk(b))
                    ok = skip or not (uses_first or uses_len1)
                    how = "empty sets skipped before use" if skip else "values only iterated"
                res.ob("%s: iterates %s.%s(): %s (%s)" % (short(q), mm, whole, "tolerant" if ok else "NOT tolerant", how))
                if not ok:
                    res.fail(rule.id, "empty-set-intolerant::%s" % q, ctx.loc(q, n),
                             "%s walks the whole attribute map and applies first()/len()==1 to value sets without skipping empty ones" % short(q),
                             "doc.serialize(format='rdf') (or any read of formal_attributes/label) followed by a JSON export prints None / raises for attributes that were only looked up")
    # the truth test of the multimap as a whole must not be the only guard
    return res


@rule("C13", "C13.R4", "anonymous-identifier generators are created per container call, never shared", 2,
      decides="the second export numbers its blank nodes exactly like the first")
def c13_r4(ctx: Ctx, rule):
    res = RuleResult()
    for mod in (JS, RD):
        gen = mod + ".AnonymousIDGenerator"
        if gen not in ctx.p.classes:
            raise AnalysisError("anchor vanished: %s" % gen)
        sites = []
        for q, fi in ctx.p.functions.items():
            if fi.module != mod:
                continue
            for c in calls_in(fi.node):
                r = ctx.p.resolve_dotted(fi.module, c.func)
                if r and r[0] == "class" and r[1] == gen:
                    sites.append((q, c))
        # module level instances
        for s in ctx.p.units[mod].tree.body:
            for c in ast.walk(s) if isinstance(s, (ast.Assign, ast.AnnAssign, ast.Expr)) else []:
                if isinstance(c, ast.Call) and dotted(c.func) == "AnonymousIDGenerator":
                    sites.append((mod, c))
        for q, c in sites:
            local = q != mod and not any(isinstance(t, ast.Attribute) for a in walk_function(ctx.fn(q).node) if isinstance(a, ast.Assign) and a.value is c for t in a.targets)
            res.ob("%s creates its generator per call: %s" % (short(q) if q != mod else mod, local))
            if not local:
                res.fail(rule.id, "shared-id-generator::%s" % q, ctx.loc(mod, c), "the anonymous-identifier generator in %s outlives one container call" % q,
                         "the second export of the same document numbers anonymous relations from _:id7 instead of _:id1: the texts differ")
        if not sites:
            raise AnalysisError("no AnonymousIDGenerator construction found in %s" % mod)
    return res


# ===================================================================================== C12
OWNED_HOLDERS = [BUNDLE, DOC, RECORD, NSM]


@rule("C12", "C12.R1", "no alias store into an owned container field", 10,
      decides="no object ever shares its record list, index, attribute map, bundle map or namespace manager with another")
def c12_r1(ctx: Ctx, rule):
    res = RuleResult()
    owned = {}
    for cls in OWNED_HOLDERS:
        for f in field_table(ctx, cls).values():
            if f.kind == "OWNED":
                owned.setdefault(f.name, set()).add(cls)
    for s in mutation_sites(ctx, set(owned)):
        if s.how != "rebind" or not isinstance(s.node, (ast.Assign, ast.AnnAssign)):
            continue
        fi = ctx.fn(s.func)
        val = s.node.value
        fresh = is_fresh_expr(fi.node, val) or _is_ctor(ctx, fi, val)
        res.ob("%s: %s  [value fresh: %s]" % (short(s.func), s.text[:80], fresh))
        if not fresh:
            res.fail(rule.id, "alias-store::%s" % s.key, ctx.loc(s.func, s.node),
                     "%s stores %s into the owned field %s.%s without copying" % (short(s.func), norm(val)[:60], s.receiver, s.field),
                     "the two objects now share that container: registering a namespace / adding a record on one shows up in the other")
    # element level: a mutable container stored *inside* an owned container must be fresh too
    mm = attr_slot(ctx)
    for s in mutation_sites(ctx, {mm}):
        if s.how == "setitem" and s.depth == 0 and isinstance(s.node, ast.Assign):
            fi = ctx.fn(s.func)
            val = s.node.value
            fresh = is_fresh_expr(fi.node, val)
            res.ob("%s: %s  [per-attribute set fresh: %s]" % (short(s.func), s.text[:80], fresh))
            if not fresh:
                res.fail(rule.id, "alias-store-element::%s" % s.key, ctx.loc(s.func, s.node),
                         "%s stores %s as a per-attribute value set without copying" % (short(s.func), norm(val)[:60]),
                         "two records share one value set: adding a value to the copy changes the original")
        elif s.how in ("call:update",) and s.depth == 0:
            res.ob("%s: %s  [bulk update of the attribute map]" % (short(s.func), s.text[:80]))
            res.fail(rule.id, "alias-store-element::%s" % s.key, ctx.loc(s.func, s.node),
                     "%s fills the attribute map with %s: the per-attribute sets of the source are shared, not copied" % (short(s.func), s.text[:60]),
                     "c = r.copy(); c.add_attributes({existing_name: new_value}) also changes r")
    return res


def _is_ctor(ctx, fi, val):
    val = resolve_local(fi.node, val)
    if isinstance(val, ast.Call):
        r = ctx.p.resolve_dotted(fi.module, val.func)
        return bool(r and r[0] == "class")
    return False


@rule("C12", "C12.R2", "the record insertion point only ever receives freshly constructed records", 1,
      decides="records are re-created in the target, never re-parented or shared between containers")
def c12_r2(ctx: Ctx, rule):
    res = RuleResult()
    rl, ix, sites, funcs = insertion_points(ctx)
    ins = {f.rsplit(".", 1)[1] for f in funcs if f.startswith(BUNDLE + ".")}
    for q, fi in ctx.p.functions.items():
        for c in calls_in(fi.node):
            if call_name(c) in ins and isinstance(c.func, ast.Attribute) and c.args:
                a = resolve_local(fi.node, c.args[0])
                ok = isinstance(a, ast.Call) and (isinstance(a.func, ast.Subscript) or _is_ctor(ctx, fi, a))
                res.ob("%s: %s receives %s: freshly constructed=%s" % (short(q), norm(c.func), norm(a)[:60], ok))
                if not ok:
                    res.fail(rule.id, "shared-record::%s::%s" % (q, norm(c)), ctx.loc(q, c),
                             "%s inserts %s, which is not constructed on the spot" % (short(q), norm(c.args[0])),
                             "the same record object sits in two containers: add_attributes through one changes the other")
    return res


@rule("C12", "C12.R3", "operations documented as returning a new object return a fresh one", 5,
      decides="copy / unified / flattened (with bundles) / deserialize never hand back an alias of their source")
def c12_r3(ctx: Ctx, rule):
    res = RuleResult()
    eff = get_effects(ctx)
    targets = [(RECORD + ".copy", set()), (DOC + ".unified", set()), (BUNDLE + ".unified", set()), (DOC + ".deserialize", set()), (BUNDLE + ".add_record", set()),
               (BUNDLE + ".new_record", set()), (DOC + ".bundle", set())]
    for q, _ in targets:
        s = eff.sum[q]
        arg_roots = {r for r in s.ret_roots if not r.startswith("global:")}
        res.ob("%s: returns fresh=%s (may alias: %s)" % (short(q), not arg_roots, sorted(arg_roots)))
        if arg_roots and q != DOC + ".bundle":
            res.fail(rule.id, "returns-alias::%s" % q, ctx.loc(q, ctx.fn(q).node), "%s can return an object reachable from %s" % (short(q), sorted(arg_roots)),
                     "the caller mutates the 'new' object and changes the source")
    # flattened: the bundle branch must return a fresh document (returning self when there are no bundles is documented)
    q = DOC + ".flattened"
    fi = ctx.fn(q)
    for n in walk_function(fi.node):
        if isinstance(n, ast.Return) and n.value is not None:
            v = resolve_local(fi.node, n.value)
            is_self = norm(n.value) == "self"
            fresh = _is_ctor(ctx, fi, n.value)
            guarded = False
            if is_self:
                # allowed only on the no-bundles branch
                for t in walk_function(fi.node):
                    if isinstance(t, ast.If) and "_bundles" in norm(t.test) or (isinstance(t, ast.If) and "has_bundles" in norm(t.test)):
                        neg = isinstance(t.test, ast.UnaryOp)
                        arm = t.body if neg else t.orelse
                        guarded = guarded or any(x is n for b in arm for x in ast.walk(b))
            res.ob("flattened returns %s: fresh=%s self-on-no-bundles=%s" % (norm(n.value), fresh, guarded))
            if not fresh and not guarded:
                res.fail(rule.id, "returns-alias::%s::%s" % (q, norm(n.value)), ctx.loc(q, n), "flattened() can return %s for a document with bundles" % norm(n.value),
                         "mutating the flattened document changes the original")
    return res


@rule("C12", "C12.R4", "attaching or merging takes nothing by reference from a document argument", 3,
      decides="add_bundle(document) converts through a fresh bundle; update() re-creates bundles instead of adopting them")
def c12_r4(ctx: Ctx, rule):
    res = RuleResult()
    eff = get_effects(ctx)
    # 1. add_bundle: on the is_document() path the stored bundle is a fresh ProvBundle built from registered namespaces
    q = DOC + ".add_bundle"
    fi = ctx.fn(q)
    par = fi.params[1]
    doc_branch = [n for n in walk_function(fi.node) if isinstance(n, ast.If) and "is_document" in norm(n.test) and par in norm(n.test)]
    if not doc_branch:
        raise AnalysisError("add_bundle: is_document() branch not found")
    rebinds = [a for a in ast.walk(doc_branch[0]) if isinstance(a, ast.Assign) and any(isinstance(t, ast.Name) and t.id == par for t in a.targets)]
    ok = bool(rebinds) and all(_is_ctor(ctx, fi, a.value) for a in rebinds)
    res.ob("add_bundle(document): the parameter is rebound to a freshly constructed bundle: %s" % ok)
    if not ok:
        res.fail(rule.id, "document-attached-by-reference", ctx.loc(q, doc_branch[0]), "add_bundle keeps the document object itself (or a non-fresh object) as the bundle",
                 "records added to the source document later appear in the target's bundle")
    # nothing of the source manager is copied by reference inside that branch
    for a in ast.walk(doc_branch[0]):
        if isinstance(a, ast.Assign):
            for t in a.targets:
                if isinstance(t, ast.Attribute) and t.attr == "_namespaces":
                    fresh = _is_ctor(ctx, fi, a.value) and not any(isinstance(x, ast.Call) and call_name(x) in ("copy",) for x in ast.walk(a.value))
                    shallow = any(isinstance(x, ast.Call) and (dotted(x.func) or "").endswith("copy.copy") or (isinstance(x, ast.Call) and call_name(x) == "copy") for x in ast.walk(a.value))
                    res.ob("add_bundle(document): %s  [fresh manager: %s, shallow copy: %s]" % (norm(a)[:70], fresh, shallow))
                    if not fresh or shallow:
                        res.fail(rule.id, "manager-shared::%s" % norm(a)[:60], ctx.loc(q, a), "add_bundle gives the new bundle %s: the inner registries of the source manager are shared" % norm(a.value)[:60],
                                 "source.add_namespace('late', uri) afterwards makes the target's bundle declare 'late'")
    # 2. retention summaries: which callee parameters are kept by reference
    for q2 in (DOC + ".update", BUNDLE + ".update", DOC + ".flattened", DOC + ".unified", BUNDLE + ".unified"):
        s = eff.sum[q2]
        kept = {k: v for k, v in s.retains.items() if base_of(k) in ctx.fn(q2).params[1:] or k == "self"}
        res.ob("%s retains by reference: %s" % (short(q2), kept or "nothing"))
        for k, how in kept.items():
            res.fail(rule.id, "retains-argument::%s::%s" % (q2, k.replace(HOP, ">")), ctx.loc(q2, ctx.fn(q2).node),
                     "%s keeps (part of) its argument %s by reference: %s" % (short(q2), k, how),
                     "d.update(other): a bundle of `other` becomes a bundle of d as well; adding a record through d changes other")
    return res
