"""E8 / F-TAINT - string sinks with contexts (DOT quoted strings, HTML-like labels, PROV-N strings),
escaper summaries, lossy number formatting, value-keyed memoisation of kind-dependent encoders."""
from __future__ import annotations

import ast
import re

from ..ctx import DOT, GR, JS, M, RD, XM, C, Ctx, call_name, calls_in, walk_function
from ..fold import is_unknown
from ..loader import AnalysisError, dotted, norm
from ..mutation import all_assignments
from ..report import Rule, RuleResult
from .paths import get_cfg, short

RULES = {}


def rule(prop, rid, title, floor, family="F-TAINT", decides=""):
    def deco(fn):
        RULES.setdefault(prop, []).append(Rule(rid, title, floor, fn, family, decides))
        return fn

    return deco


# ------------------------------------------------------------------------------------------ escaper summaries
def escaper_summary(ctx: Ctx, q):
    """For a function that quotes/escapes a string: ordered (char, replacement) pairs of its .replace chain,
    whether any replace is conditional, and the constant wrapper it puts around the result."""
    fi = ctx.fn(q)
    pairs = []
    conditional = False

    def chain(e):
        # innermost first
        if isinstance(e, ast.Call) and isinstance(e.func, ast.Attribute) and e.func.attr == "replace" and len(e.args) == 2:
            chain(e.func.value)
            a, b = e.args
            if isinstance(a, ast.Constant) and isinstance(b, ast.Constant):
                pairs.append((a.value, b.value, e))

    for n in walk_function(fi.node):
        if isinstance(n, ast.Call) and isinstance(n.func, ast.Attribute) and n.func.attr == "replace":
            # only outermost replace of each chain
            pass
    outer = []
    inner_ids = set()
    for n in walk_function(fi.node):
        if isinstance(n, ast.Call) and isinstance(n.func, ast.Attribute) and n.func.attr == "replace":
            v = n.func.value
            if isinstance(v, ast.Call) and isinstance(v.func, ast.Attribute) and v.func.attr == "replace":
                inner_ids.add(id(v))
    stmts_order = []
    for n in walk_function(fi.node):
        if isinstance(n, ast.Call) and isinstance(n.func, ast.Attribute) and n.func.attr == "replace" and id(n) not in inner_ids:
            stmts_order.append(n)
    stmts_order.sort(key=lambda n: (n.lineno, n.col_offset))
    for n in stmts_order:
        chain(n)
    # conditional: a replace inside an if / conditional expression / loop, or an early return before the chain
    for n in walk_function(fi.node):
        if isinstance(n, (ast.If, ast.IfExp, ast.While, ast.For)):
            body_nodes = list(ast.walk(n))
            if any(p[2] in body_nodes for p in pairs):
                conditional = True
        if isinstance(n, ast.If) and pairs and any(isinstance(x, ast.Return) for b in n.body for x in ast.walk(b)) and n.lineno < pairs[0][2].lineno:
            conditional = True
    return [(a, b) for a, b, _ in pairs], conditional


def covers_quoted_string(pairs):
    """Escapes backslash first, then the double quote (the order in which the escape character itself is not re-escaped)."""
    chars = [a for a, b in pairs]
    if "\\" not in chars or '"' not in chars:
        return False, "does not escape %s" % ("backslash" if "\\" not in chars else "the double quote")
    if chars.index("\\") > chars.index('"'):
        return False, "escapes the quote before the backslash: the backslash added for the quote is escaped again"
    rep = dict(pairs)
    if rep["\\"] != "\\\\" or rep['"'] != '\\"':
        return False, "unexpected replacement text"
    return True, ""


# ------------------------------------------------------------------------------------------ string templates
class Seg:
    def __init__(self, kind, text="", expr=None, san=frozenset(), numeric=False):
        self.kind, self.text, self.expr, self.san, self.numeric = kind, text, expr, set(san), numeric

    def __repr__(self):
        return self.text if self.kind == "const" else "{%s|%s}" % (norm(self.expr)[:30], ",".join(sorted(self.san)) or "raw")


def segments(ctx: Ctx, q, e, san=frozenset(), depth=0, quoters=frozenset()):
    """Flatten a string-building expression into constant and dynamic segments (with the sanitizers applied)."""
    fi = ctx.fn(q)
    if depth > 14:
        return [Seg("dyn", expr=e, san=san)]
    if isinstance(e, ast.Constant):
        return [Seg("const", str(e.value))]
    if isinstance(e, ast.JoinedStr):
        out = []
        for part in e.values:
            if isinstance(part, ast.Constant):
                out.append(Seg("const", str(part.value)))
            else:
                out += segments(ctx, q, part.value, san, depth + 1, quoters)
        return out
    if isinstance(e, ast.BinOp) and isinstance(e.op, ast.Add):
        return segments(ctx, q, e.left, san, depth + 1, quoters) + segments(ctx, q, e.right, san, depth + 1, quoters)
    if isinstance(e, ast.BinOp) and isinstance(e.op, ast.Mod):
        fmt = None
        try:
            fmt = ctx.eval_in(q, e.left)
        except AnalysisError:
            pass
        if isinstance(fmt, str):
            args = list(e.right.elts) if isinstance(e.right, ast.Tuple) else [e.right]
            parts = re.split(r"(%[-#0 +]*\d*(?:\.\d+)?[sdrifgeEGxX%])", fmt)
            out, i = [], 0
            for p in parts:
                if re.fullmatch(r"%[-#0 +]*\d*(?:\.\d+)?[sdrifgeEGxX]", p or ""):
                    a = args[i] if i < len(args) else None
                    i += 1
                    if a is None:
                        out.append(Seg("dyn", expr=e, san=san))
                    elif p[-1] in "dixXfgeEG":
                        out.append(Seg("dyn", expr=a, san=san, numeric=True))
                    else:
                        out += segments(ctx, q, a, san, depth + 1, quoters)
                elif p == "%%":
                    out.append(Seg("const", "%"))
                elif p:
                    out.append(Seg("const", p))
            return out
        return [Seg("dyn", expr=e, san=san)]
    if isinstance(e, ast.IfExp):
        a = segments(ctx, q, e.body, san, depth + 1, quoters)
        b = segments(ctx, q, e.orelse, san, depth + 1, quoters)
        # both alternatives must be safe: represent as the concatenation of their dynamic parts in a neutral context
        return [Seg("alt", expr=e, san=san, text=(a, b))]
    if isinstance(e, ast.Call):
        name = call_name(e)
        if name == "str" and len(e.args) == 1:
            return segments(ctx, q, e.args[0], san, depth + 1, quoters)
        if name == "escape" and e.args:
            # which escape?  html.escape quotes by default; xml.sax.saxutils.escape and cgi.escape do not
            r = ctx.p.resolve_dotted(fi.module, e.func) if dotted(e.func) else None
            origin = r[1] if r and r[0] == "ext" else ""
            quote_off = any(k.arg == "quote" and isinstance(k.value, ast.Constant) and k.value.value is False for k in e.keywords)
            quote_on = any(k.arg == "quote" and isinstance(k.value, ast.Constant) and k.value.value is True for k in e.keywords)
            if origin in ("html.escape",):
                gives = {"html-text"} if quote_off else {"html-text", "html-attr"}
            elif origin in ("xml.sax.saxutils.escape",):
                ents = e.args[1] if len(e.args) > 1 else next((k.value for k in e.keywords if k.arg == "entities"), None)
                gives = {"html-text", "html-attr"} if ents is not None and '"' in norm(ents) else {"html-text"}
            elif origin in ("cgi.escape",):
                gives = {"html-text", "html-attr"} if quote_on else {"html-text"}
            elif origin in ("xml.sax.saxutils.quoteattr",):
                gives = {"html-text", "html-attr"}
            else:
                gives = set()  # an unknown function that happens to be called escape sanitises nothing we can rely on
            return segments(ctx, q, e.args[0], set(san) | gives, depth + 1, quoters)
        if name in quoters and e.args:
            return [Seg("const", '"')] + segments(ctx, q, e.args[0], set(san) | {"dotq"}, depth + 1, quoters) + [Seg("const", '"')]
        if name == "isoformat":
            return [Seg("dyn", expr=e, san=set(san) | {"plain"})]
        if name == "join" and isinstance(e.func, ast.Attribute) and e.args:
            return segments(ctx, q, e.args[0], san, depth + 1, quoters)
        if isinstance(e.func, ast.Name) and name not in quoters:
            r = ctx.p.resolve_name(fi.module, e.func.id)
            # a nested helper defined in this function or an enclosing one
            cur = q
            while cur:
                cand = "%s.<locals>.%s" % (cur, e.func.id)
                if cand in ctx.p.functions:
                    r = ("func", cand)
                    break
                cur = ctx.p.functions[cur].parent
            if r and r[0] == "func" and ctx.p.functions[r[1]].module == fi.module and depth < 10:
                hf = ctx.fn(r[1])
                rets = [n for n in walk_function(hf.node) if isinstance(n, ast.Return) and n.value is not None and not (isinstance(n.value, ast.Constant) and n.value.value is None)]
                if rets:
                    alts = tuple(segments(ctx, r[1], n.value, san, depth + 1, quoters) for n in rets)
                    return list(alts[0]) if len(alts) == 1 else [Seg("alt", expr=e, san=san, text=alts)]
        return [Seg("dyn", expr=e, san=san)]
    if isinstance(e, ast.Name) and e.id in fi.params and fi.parent and not all_assignments(fi.node, e.id) and depth < 10:
        # a parameter of a nested helper, never rebound: what reaches it is what its call sites pass (each in its caller's context)
        k = fi.params.index(e.id)
        sites = []
        for cq, cf in ctx.p.functions.items():
            if cf.module != fi.module or isinstance(cf.node, ast.Lambda):
                continue
            for c in calls_in(cf.node):
                if isinstance(c.func, ast.Name) and c.func.id == fi.name and not any(isinstance(a, ast.Starred) for a in c.args):
                    # the name must resolve to this very function from the call site (nearest enclosing definition)
                    cur, hit = cq, None
                    while cur and hit is None:
                        cand = "%s.<locals>.%s" % (cur, fi.name)
                        if cand in ctx.p.functions:
                            hit = cand
                        cur = ctx.p.functions[cur].parent
                    if hit != q:
                        continue
                    a = c.args[k] if k < len(c.args) else next((kw.value for kw in c.keywords if kw.arg == e.id), None)
                    if a is not None:
                        sites.append((cq, a))
        if sites:
            alts = tuple(segments(ctx, cq, a, san, depth + 1, quoters) for cq, a in sites)
            return list(alts[0]) if len(alts) == 1 else [Seg("alt", expr=e, san=san, text=alts)]
    if isinstance(e, ast.Name):
        defs = [d for d in all_assignments(fi.node, e.id)]
        if len(defs) == 1 and isinstance(defs[0], (ast.List, ast.Tuple)) and e.id not in fi.params:
            # a list built up piecewise and joined later: literal elements, then every append/extend in source order
            out = []
            for x in defs[0].elts:
                out += segments(ctx, q, x, san, depth + 1, quoters)
            adds = [c for c in walk_function(fi.node) if isinstance(c, ast.Call) and isinstance(c.func, ast.Attribute) and c.func.attr in ("append", "extend", "insert") and norm(c.func.value) == e.id and c.args]
            adds.sort(key=lambda c: (c.lineno, c.col_offset))
            for c in adds:
                out += segments(ctx, q, c.args[-1], san, depth + 1, quoters)
            return out
        if defs and all(d is not None for d in defs) and len(defs) <= 4 and e.id not in fi.params:
            if len(defs) == 1:
                return segments(ctx, q, defs[0], san, depth + 1, quoters)
            return [Seg("alt", expr=e, san=san, text=tuple(segments(ctx, q, d, san, depth + 1, quoters) for d in defs))]
        try:
            v = ctx.eval_in(q, e)
            if isinstance(v, str):
                return [Seg("const", v)]
        except AnalysisError:
            pass
        return [Seg("dyn", expr=e, san=san)]
    if isinstance(e, (ast.ListComp, ast.GeneratorExp)):
        return segments(ctx, q, e.elt, san, depth + 1, quoters)
    try:
        v = ctx.eval_in(q, e)
        if isinstance(v, str):
            return [Seg("const", v)]
    except AnalysisError:
        pass
    return [Seg("dyn", expr=e, san=san)]


def check_template(segs, problems, where=""):
    """Walk the segments tracking the lexical context: outside / inside "..." / inside an HTML attribute / HTML text."""
    if any(s.kind == "alt" for s in segs):
        for s in segs:
            if s.kind == "alt":
                for alt in s.text:
                    # substitute each alternative in place
                    i = segs.index(s)
                    check_template(segs[:i] + list(alt) + segs[i + 1:], problems, where)
                return problems
    text_so_far = ""
    first = next((s.text.lstrip()[:1] for s in segs if s.kind == "const" and s.text.strip()), "")
    html = first == "<"
    in_quote = False
    for s in segs:
        if s.kind == "const":
            for ch in s.text:
                if ch == '"':
                    in_quote = not in_quote
            text_so_far += s.text
            continue
        if s.numeric or "plain" in s.san:
            continue
        if html:
            need = "html-attr" if in_quote else "html-text"
            ctxname = "HTML-like label, %s" % ("attribute value" if in_quote else "text")
        elif in_quote:
            need = "dotq"
            ctxname = 'DOT "..." string'
        else:
            need = "ident"
            ctxname = "bare DOT token"
        if need == "ident":
            problems.append((s, ctxname, "a record-derived value is emitted outside any quoting"))
        elif need not in s.san:
            problems.append((s, ctxname, "needs %s, has %s" % ({"dotq": 'backslash and quote escaping', "html-text": "html.escape", "html-attr": "html.escape (quote=True)"}[need], sorted(s.san) or "nothing")))
    return problems


def dot_quoters(ctx: Ctx):
    """Module-level functions of prov.dot whose result is '"' + escaped(arg) + '"'."""
    out = {}
    for qn, fi in ctx.p.functions.items():
        if fi.module != DOT or fi.cls or fi.parent:
            continue
        pairs, cond = escaper_summary(ctx, qn)
        if not pairs:
            continue
        rets = [n for n in walk_function(fi.node) if isinstance(n, ast.Return) and n.value is not None]
        wraps = any('"' in c.value for r in rets for c in ast.walk(r.value) if isinstance(c, ast.Constant) and isinstance(c.value, str) and c.value.count('"') >= 2) or any(
            isinstance(c, ast.Constant) and c.value == '"%s"' for r in rets for c in ast.walk(r.value))
        for r in rets:  # f'"{escaped}"' / '"' + escaped + '"': the constant pieces open and close the quotes
            cs = sorted((c for c in ast.walk(r.value) if isinstance(c, ast.Constant) and isinstance(c.value, str)), key=lambda c: (c.lineno, c.col_offset))
            if len(cs) >= 2 and cs[0].value.startswith('"') and cs[-1].value.endswith('"'):
                wraps = True
        if wraps:
            out[fi.name] = (qn, pairs, cond)
    return out


@rule("C15", "C15.R1", "taint by sink context: every record-derived value reaching a DOT attribute is escaped for the context it lands in", 8,
      decides="no identifier, label, URI or attribute value can break the DOT syntax or inject markup")
def c15_r1(ctx: Ctx, rule):
    res = RuleResult()
    quoters = dot_quoters(ctx)
    for name, (qn, pairs, cond) in quoters.items():
        ok, why = covers_quoted_string(pairs)
        res.ob("quoting helper %s: replaces %s; unconditional=%s; adequate for DOT strings=%s" % (name, [a for a, b in pairs], not cond, ok))
        if not ok or cond:
            res.fail(rule.id, "dot-quoter::%s" % name, ctx.loc(qn, ctx.fn(qn).node),
                     "the DOT quoting helper %s %s" % (name, why if not ok else "escapes only on some paths (a fast path skips the escaping)"),
                     "an identifier ending in a backslash (without any quote) yields an unterminated DOT string; Graphviz rejects the output")
    SINK_KW = {"label", "URL", "tooltip", "href", "xlabel", "headlabel", "taillabel", "target"}
    for q, fi in ctx.p.functions.items():
        if fi.module != DOT:
            continue
        for c in calls_in(fi.node):
            sinks = []
            d = dotted(c.func) or ""
            if d.startswith("pydot.") or call_name(c) in ("Node", "Edge", "Cluster", "Dot", "Subgraph"):
                for k in c.keywords:
                    if k.arg in SINK_KW:
                        sinks.append((k.arg, k.value))
            elif call_name(c).startswith("set_") and call_name(c)[4:] in SINK_KW | {"URL"} and c.args:
                sinks.append((call_name(c)[4:], c.args[0]))
            for kw, val in sinks:
                segs = segments(ctx, q, val, quoters=frozenset(quoters))
                problems = check_template(segs, [])
                dyn = [s for s in _flatten(segs) if s.kind == "dyn" and not s.numeric]
                res.ob("%s: %s=%s  -> %s" % (short(q) if q.count(".") > 2 else q, kw, norm(val)[:50], "ok" if not problems else "UNSAFE"), nontrivial=bool(dyn))
                for s, ctxname, why in problems:
                    res.fail(rule.id, "dot-sink::%s::%s::%s" % (fi.name, kw, norm(s.expr)[:40]), ctx.loc(q, val),
                             "%s: `%s` reaches the %s attribute inside a %s unescaped (%s)" % (fi.name, norm(s.expr)[:50], kw, ctxname, why),
                             "a label such as 'a<b' with use_labels=True, or an identifier containing '\"' or a trailing backslash: Graphviz rejects the text, or the value injects markup")
    # subscript stores into a style dict that is expanded into pydot calls: style["label"] = <expr>
    for q, fi in ctx.p.functions.items():
        if fi.module != DOT:
            continue
        for n in walk_function(fi.node):
            if isinstance(n, ast.Assign) and isinstance(n.targets[0], ast.Subscript) and isinstance(n.targets[0].slice, ast.Constant) and n.targets[0].slice.value in SINK_KW:
                val = n.value
                safe_localpart = isinstance(val, ast.Attribute) and val.attr == "localpart"
                segs = segments(ctx, q, val, quoters=frozenset(quoters))
                problems = [] if safe_localpart else check_template(segs, [])
                res.ob("%s: style[%r] = %s -> %s" % (fi.name, n.targets[0].slice.value, norm(val)[:40], "ok" if not problems else "UNSAFE"))
                if safe_localpart:
                    res.exceptions.append("%s: style['label'] = <formal attribute>.localpart - formal attribute names are the fixed PROV role names" % fi.name)
                for s, ctxname, why in problems:
                    res.fail(rule.id, "dot-sink::%s::style::%s" % (fi.name, norm(s.expr)[:40]), ctx.loc(q, n), "%s: `%s` is used as an edge %s %s" % (fi.name, norm(s.expr)[:50], n.targets[0].slice.value, why))
    return res


def _flatten(segs):
    out = []
    for s in segs:
        if s.kind == "alt":
            for alt in s.text:
                out += _flatten(list(alt))
        else:
            out.append(s)
    return out


@rule("C15", "C15.R4", "drawing decisions: element/relation partition, direction reset, and the blank-node decision uses the partition the annotation uses", 3, family="F-SIB",
      decides="a relation whose only non-reference attribute is its time still gets its annotation")
def c15_r4(ctx: Ctx, rule):
    res = RuleResult()
    q = DOT + ".prov_to_dot"
    fi = ctx.fn(q)
    # direction reset
    ok = False
    for n in walk_function(fi.node):
        if isinstance(n, ast.If) and isinstance(n.test, ast.Compare) and isinstance(n.test.ops[0], ast.NotIn) and norm(n.test.left) == "direction":
            v = ctx.eval_in(q, n.test.comparators[0])
            if isinstance(v, (set, frozenset, list, tuple)) and set(v) == {"BT", "TB", "LR", "RL"} and any(isinstance(s, ast.Assign) and norm(s.targets[0]) == "direction" for s in n.body):
                ok = True
    res.ob("an invalid direction is reset to a valid rankdir: %s" % ok)
    if not ok:
        res.fail(rule.id, "direction-reset", ctx.loc(q, fi.node), "prov_to_dot no longer maps an invalid direction to a valid rankdir", "direction='XX' yields rankdir=XX, which Graphviz ignores with a warning / lays out differently")
    bq = q + ".<locals>._bundle_to_dot"
    bf = ctx.fn(bq)
    part = [n for n in walk_function(bf.node) if isinstance(n, ast.If) and "is_element" in norm(n.test)]
    okp = bool(part) and any(call_name(c) == "_add_node" for c in ast.walk(part[0]) if isinstance(c, ast.Call)) and any(call_name(c) == "append" for b in part[0].orelse for c in ast.walk(b) if isinstance(c, ast.Call))
    res.ob("every record is either drawn as a node or kept as a relation: %s" % okp)
    if not okp:
        res.fail(rule.id, "element-relation-partition", ctx.loc(bq, bf.node), "the element / relation partition of _bundle_to_dot is incomplete", "some records are neither drawn as nodes nor as edges")

    # the attribute partitions
    def loop_partition(fq, var):
        """var = []; for a, v in X.attributes: if a not in S: var.append(..)   ->  (source, S)"""
        f = ctx.fn(fq)
        for n in walk_function(f.node):
            if isinstance(n, ast.For) and "attributes" in norm(n.iter):
                for t in ast.walk(n):
                    if isinstance(t, ast.If) and isinstance(t.test, ast.Compare) and isinstance(t.test.ops[0], (ast.NotIn, ast.In)):
                        appends = [c for c in ast.walk(t) if isinstance(c, ast.Call) and call_name(c) == "append" and norm(c.func.value) == var]
                        skips = isinstance(t.test.ops[0], ast.In) and any(isinstance(x, ast.Continue) for x in t.body)
                        if appends or skips:
                            try:
                                sset = ctx.eval_in(fq, t.test.comparators[0])
                            except AnalysisError:
                                sset = None
                            return norm(n.iter).split(".")[-1], (frozenset(sset) if isinstance(sset, (set, frozenset)) else norm(t.test.comparators[0])), n
        return None

    def partition(fq0, name_hint):
      for fq in ctx.helper_closure(fq0):
        if ctx.fn(fq).module != DOT or fq.endswith("sorted_attributes"):
            continue
        f = ctx.fn(fq)
        for n in walk_function(f.node):
            if isinstance(n, (ast.ListComp, ast.GeneratorExp)) and n.generators and any(n.generators[0].ifs):
                g0 = n.generators[0]
                src = norm(g0.iter)
                cond = g0.ifs[0]
                if isinstance(cond, ast.Compare) and isinstance(cond.ops[0], ast.NotIn):
                    try:
                        s = ctx.eval_in(fq, cond.comparators[0])
                    except AnalysisError:
                        s = None
                    if "attributes" in src:
                        return src.split(".")[-1], (frozenset(s) if isinstance(s, (set, frozenset)) else norm(cond.comparators[0])), n
      return None

    aq = bq + ".<locals>._attach_attribute_annotation"
    pa = partition(aq, "annotation") or loop_partition(aq, "attributes")
    # in the relation loop: the variable deciding add_attribute_annotation
    dec = None
    # the relation loop body may sit in _bundle_to_dot itself or in a nested helper it calls per relation
    holders = [bq] + [q2 for q2 in ctx.helper_closure(bq, 1) if q2.startswith(bq + ".<locals>.") and q2 != aq]
    bq0, bf0 = bq, bf
    for bq, bf in [(h, ctx.fn(h)) for h in holders]:
      for n in walk_function(bf.node):
        if isinstance(n, ast.Assign) and norm(n.targets[0]) == "add_attribute_annotation":
            names = [x.id for x in ast.walk(n.value) if isinstance(x, ast.Name)]
            for nm in names:
                for d in all_assignments(bf.node, nm):
                    if d is None:
                        continue
                    if isinstance(d, (ast.ListComp, ast.GeneratorExp)) and d.generators and d.generators[0].ifs:
                        g0 = d.generators[0]
                        cond = g0.ifs[0]
                        if isinstance(cond, ast.Compare) and isinstance(cond.ops[0], ast.NotIn):
                            try:
                                s = ctx.eval_in(bq, cond.comparators[0])
                            except AnalysisError:
                                s = None
                            dec = (norm(g0.iter).split(".")[-1], frozenset(s) if isinstance(s, (set, frozenset)) else norm(cond.comparators[0]), d)
                    elif isinstance(d, ast.Attribute) and "attributes" in d.attr:
                        dec = (d.attr, "<property %s>" % d.attr, d)
                    elif isinstance(d, ast.Call) and isinstance(d.func, ast.Name) and (DOT + "." + d.func.id) in ctx.p.functions and dec is None:
                        hp = partition(DOT + "." + d.func.id, "helper")
                        if hp:
                            dec = hp
                    elif isinstance(d, (ast.List, ast.Call)) and dec is None:
                        lp = loop_partition(bq, nm)
                        if lp:
                            dec = lp
            for x in ast.walk(n.value):
                if dec is None and isinstance(x, ast.Attribute) and "attributes" in x.attr and isinstance(x.value, ast.Name):
                    dec = (x.attr, "<property %s>" % x.attr, x)
      if dec is not None:
        break
    if pa is None or dec is None:
        raise AnalysisError("cannot extract the attribute partitions of the DOT annotation logic")
    same = pa[0] == dec[0] and pa[1] == dec[1]
    res.ob("blank-node decision filters %s by %s; annotation filters %s by %s: same partition=%s" % (dec[0], "a set of %d names" % len(dec[1]) if isinstance(dec[1], frozenset) else dec[1], pa[0], "a set of %d names" % len(pa[1]) if isinstance(pa[1], frozenset) else pa[1], same))
    if not same:
        res.fail(rule.id, "annotation-partition-mismatch", ctx.loc(bq, dec[2]),
                 "whether a relation gets an annotation is decided on `%s` but the annotation shows `%s` filtered differently" % (dec[0], pa[0]),
                 "wasGeneratedBy(e, a, t) with show_relation_attributes=True: no annotation is drawn and the time vanishes")
    return res


# ------------------------------------------------------------------------------------------ C06.R3 / R4 / memo
@rule("C06", "C06.R3", "PROV-N string quoting is complete: backslash is escaped, then the double quote, unconditionally", 1,
      decides="strings with quotes, backslashes and newlines are recovered exactly")
def c06_r3(ctx: Ctx, rule):
    res = RuleResult()
    q = M + "._ensure_multiline_string_triple_quoted"
    if q not in ctx.p.functions:
        # discovered: the function encoding_provn_value calls for str
        cands = [c for c in calls_in(ctx.fn(M + ".encoding_provn_value").node) if isinstance(c.func, ast.Name)]
        cands = [M + "." + c.func.id for c in cands if (M + "." + c.func.id) in ctx.p.functions and escaper_summary(ctx, M + "." + c.func.id)[0]]
        if not cands:
            raise AnalysisError("cannot find the PROV-N string quoting function")
        q = cands[0]
    pairs, cond = escaper_summary(ctx, q)
    ok, why = covers_quoted_string(pairs)
    res.ob("%s replaces %s (unconditional: %s): adequate=%s" % (short(q) if q.count(".") > 2 else q, [a for a, b in pairs], not cond, ok))
    if not ok or cond:
        res.fail(rule.id, "provn-quoter", ctx.loc(q, ctx.fn(q).node), "the PROV-N string quoting function %s" % (why if not ok else "escapes only on some paths"),
                 "the string 'tail\\' is printed as \"tail\\\" and swallows the closing quote; a reader recovers another string or fails")
    # the users: Literal.provn_representation and encoding_provn_value route strings through it
    # (called directly, or referenced through a handler table the printer dispatches on: helper_closure follows both)
    users = [u for u in (M + ".Literal.provn_representation", M + ".encoding_provn_value") if q in ctx.helper_closure(u, 2)]
    res.ob("string values reach the quoter from: %s" % [short(u) if u.count(".") > 2 else u for u in users], nontrivial=False)
    if len(users) < 2:
        res.fail(rule.id, "provn-quoter-bypassed", ctx.loc(q, ctx.fn(q).node), "a PROV-N value printer no longer routes strings through the quoting function")
    return res


LOSSY_FMT = re.compile(r"%[-#0 +]*\d*(?:\.\d+)?[gGeEf]")


@rule("C06", "C06.R4", "numbers are printed losslessly: no precision-limited format on the float arm of the PROV-N value printer", 1,
      decides="0.1234567891 is recovered exactly")
def c06_r4(ctx: Ctx, rule):
    res = RuleResult()
    from .dispatch import arm_for, provn_value_chain, returned_exprs

    q, subject, arms = provn_value_chain(ctx)
    for k in ("float", "int"):
        arm = arm_for(arms, k, subject)
        if arm is None:
            continue
        lossy = []
        for e in returned_exprs(arm.body):
            for n in ast.walk(e):
                if isinstance(n, ast.Constant) and isinstance(n.value, str) and LOSSY_FMT.search(n.value):
                    lossy.append(LOSSY_FMT.search(n.value).group(0))
                if isinstance(n, ast.FormattedValue) and n.format_spec is not None:
                    lossy.append("f-string format spec %s" % norm(n.format_spec))
                if isinstance(n, ast.Call) and call_name(n) in ("round",):
                    lossy.append("round()")
                if isinstance(n, ast.Call) and call_name(n) == "format" and len(n.args) == 2 and isinstance(n.args[1], ast.Constant) and re.search(r"[gGeEf]$", str(n.args[1].value)):
                    lossy.append("format(.., %r)" % n.args[1].value)
        res.ob("%s arm of encoding_provn_value formats with precision-limited conversions: %s" % (k, lossy or "none"))
        for l in lossy:
            res.fail(rule.id, "lossy-number-format::%s::%s" % (k, l), ctx.loc(q, arm.test if arm.test is not None else ctx.fn(q).node),
                     "a %s is printed with %s, which keeps 6 significant digits" % (k, l), "0.1234567891 is printed as \"0.123457\"")
    # a Python bool is printed in the lexical space of xsd:boolean (true / false / 1 / 0): str(True) is "True", which is not
    arm = arm_for(arms, "bool", subject)
    if arm is not None:
        def lexical_ok(e):
            """does expression e, standing for the bool, print as 1/0 or true/false?"""
            if isinstance(e, ast.Call) and call_name(e) == "int":
                return True
            if isinstance(e, ast.Call) and call_name(e) == "lower":
                return True
            if isinstance(e, ast.IfExp) and all(isinstance(x, ast.Constant) and str(x.value) in ("true", "false", "1", "0") for x in (e.body, e.orelse)):
                return True
            return False
        for e in returned_exprs(arm.body):
            verdicts = []
            for n in ast.walk(e):
                if isinstance(n, ast.BinOp) and isinstance(n.op, ast.Mod) and isinstance(n.left, ast.Constant) and isinstance(n.left.value, str):
                    convs = re.findall(r"%[-#0 +]*\d*(?:\.\d+)?([sdrifgeEGxX])", n.left.value.replace("%%", ""))
                    args = list(n.right.elts) if isinstance(n.right, ast.Tuple) else [n.right]
                    for cv, a in zip(convs, args):
                        if any(isinstance(x, ast.Name) and x.id == (arm.subject or subject) for x in ast.walk(a)):
                            verdicts.append((cv in "di" or lexical_ok(a), "%%%s of %s" % (cv, norm(a)[:20])))
                elif isinstance(n, ast.FormattedValue) and any(isinstance(x, ast.Name) and x.id == (arm.subject or subject) for x in ast.walk(n.value)):
                    spec = norm(n.format_spec) if n.format_spec is not None else ""
                    verdicts.append(("d" in spec or lexical_ok(n.value), "{%s%s}" % (norm(n.value)[:20], (":" + spec) if spec else "")))
                elif isinstance(n, ast.Call) and call_name(n) == "format" and isinstance(n.func, ast.Attribute) and isinstance(n.func.value, ast.Constant):
                    for a in n.args:
                        if any(isinstance(x, ast.Name) and x.id == (arm.subject or subject) for x in ast.walk(a)):
                            verdicts.append((":d}" in str(n.func.value.value) or lexical_ok(a), "format(%s)" % norm(a)[:20]))
                elif isinstance(n, ast.Call) and call_name(n) in ("str", "repr") and n.args and isinstance(n.args[0], ast.Name) and n.args[0].id == (arm.subject or subject) and n is e:
                    verdicts.append((False, norm(n)))
            res.ob("bool arm of encoding_provn_value prints the value as %s: inside the lexical space of xsd:boolean: %s" % ([v[1] for v in verdicts] or norm(e)[:40], all(v[0] for v in verdicts)))
            for okv, what in verdicts:
                if not okv:
                    res.fail(rule.id, "bool-lexical-form::%s" % what, ctx.loc(q, e), "a Python bool is printed through %s, i.e. as \"True\" / \"False\", which is not in the lexical space of xsd:boolean" % what,
                             "ex:flag=True is printed \"True\" %% xsd:boolean: an independent PROV-N reader rejects the literal")
    return res


def kind_dispatchers(ctx: Ctx):
    """Functions whose result depends on the *kind* of their argument (isinstance / type() dispatch on a parameter)."""
    out = {}
    for q, fi in ctx.p.functions.items():
        if fi.module.startswith("scripts.") or isinstance(fi.node, ast.Lambda):
            continue
        params = set(fi.params)
        for n in walk_function(fi.node):
            if isinstance(n, ast.Call) and call_name(n) == "isinstance" and len(n.args) == 2 and isinstance(n.args[0], ast.Name) and n.args[0].id in params - {"self"}:
                cls = norm(n.args[1])
                if any(k in cls for k in ("bool", "float", "int", "str", "datetime", "Literal", "QualifiedName", "Identifier")):
                    out[q] = n.args[0].id
                elif isinstance(n.args[1], ast.Name):
                    # table-driven dispatch: `for value_type, encode in TABLE: if isinstance(value, value_type): ...`
                    for l in walk_function(fi.node):
                        if isinstance(l, ast.For) and any(isinstance(x, ast.Name) and x.id == n.args[1].id for x in ast.walk(l.target)):
                            out[q] = n.args[0].id
            if isinstance(n, ast.Call) and call_name(n) == "type" and n.args and isinstance(n.args[0], ast.Name) and n.args[0].id in params - {"self"}:
                out[q] = n.args[0].id
    return out


def memo_rule(ctx: Ctx, rule):
    res = RuleResult()
    kd = kind_dispatchers(ctx)
    names = {q.rsplit(".", 1)[1]: q for q in kd}
    for q in sorted(kd):
        fi = ctx.fn(q)
        decos = [d for d in fi.decorators]
        cached = [d for d in decos if d.rsplit(".", 1)[-1] in ("lru_cache", "cache", "memoize", "cached")]
        deco_nodes = [d for d in fi.node.decorator_list if any(k in norm(d) for k in ("lru_cache", "cache", "memoize"))]
        typed = any(isinstance(d, ast.Call) and any(k.arg == "typed" and isinstance(k.value, ast.Constant) and k.value.value is True for k in d.keywords) for d in deco_nodes)
        res.ob("%s dispatches on the kind of `%s`; memoised by value equality: %s" % (short(q) if q.count(".") > 2 else q, kd[q], bool(deco_nodes) and not typed))
        if deco_nodes and not typed:
            res.fail(rule.id, "value-keyed-memo::%s" % q, ctx.loc(q, fi.node),
                     "%s chooses its output by the kind of `%s` but is cached under value equality (%s): True, 1 and 1.0 share one entry" % (q.rsplit(".", 1)[1], kd[q], norm(deco_nodes[0])),
                     "export a document holding True, then one holding 1.0: the double is printed as a boolean; re-exporting an unchanged document gives different text")
    # hand-written caches: D[v] = f(v) / D.setdefault(v, f(v)) with f kind-dependent
    for q, fi in ctx.p.functions.items():
        if fi.module.startswith("scripts."):
            continue
        for n in walk_function(fi.node):
            key = val = None
            if isinstance(n, ast.Assign) and any(isinstance(t, ast.Subscript) for t in n.targets):
                key, val = next(t for t in n.targets if isinstance(t, ast.Subscript)).slice, n.value
            elif isinstance(n, ast.Call) and call_name(n) == "setdefault" and len(n.args) == 2:
                key, val = n.args
            if key is None or not isinstance(val, ast.Call):
                continue
            callee = call_name(val)
            if callee in names and val.args and norm(val.args[0]) == norm(key):
                res.ob("%s caches %s(%s) under the value itself" % (short(q) if q.count(".") > 2 else q, callee, norm(key)))
                res.fail(rule.id, "value-keyed-memo::%s::%s" % (q, callee), ctx.loc(q, n),
                         "%s stores %s(%s) in a dict keyed by the value: values that compare equal but differ in kind (1, 1.0, True) share the entry" % (fi.name, callee, norm(key)),
                         "a document holding ex:count=1 and ex:ratio=1.0: the float is written with the int's datatype")
    # the memo inside the dispatcher itself: D[value] = <what was computed for it>, D handed in or held on the object
    for q in sorted(kd):
        fi = ctx.fn(q)
        p = kd[q]
        if all_assignments(fi.node, p):
            continue
        for n in walk_function(fi.node):
            key = None
            if isinstance(n, ast.Assign):
                for t in n.targets:
                    if isinstance(t, ast.Subscript) and isinstance(t.slice, ast.Name) and t.slice.id == p:
                        key = t
            elif isinstance(n, ast.Call) and call_name(n) == "setdefault" and n.args and isinstance(n.args[0], ast.Name) and n.args[0].id == p:
                key = n
            if key is None:
                continue
            res.ob("%s keeps what it computed under the value itself: %s" % (short(q) if q.count(".") > 2 else q, norm(n)[:60]))
            res.fail(rule.id, "value-keyed-memo::%s::self" % q, ctx.loc(q, n),
                     "%s chooses its output by the kind of `%s` and stores it in a dict keyed by `%s`: values that compare equal but differ in kind (1, 1.0, True; two datetimes of one instant) share the entry" % (fi.name, p, p),
                     "a container holding ex:count=7 in one record and ex:ratio=7.0 in another: the float is written as the int")
    return res


for _prop, _rid in (("C06", "C06.R7"), ("C01", "C01.R9"), ("C10", "C10.R5"), ("C13", "C13.R6"), ("C07", "C07.R6"), ("C02", "C02.R7")):
    RULES.setdefault(_prop, []).append(Rule(_rid, "kind-dispatching encoders are never memoised by value equality", 5, memo_rule, "F-TAINT",
                                            "1, 1.0 and True keep their own encodings whatever was encoded before"))


# ------------------------------------------------------------------------------------------ C06.R8 escaping character classes
PN_CHARS_ESC = set("='(),-:;[].")


def _class_chars(pattern: str):
    """Character set of a pattern that is a single character class (optionally wrapped in one group); None for any other shape."""
    import re._parser as sre  # stdlib regex parser (sre_parse)

    try:
        tree = sre.parse(pattern)
    except Exception:
        return None
    items = list(tree)
    while len(items) == 1 and str(items[0][0]) == "SUBPATTERN":
        items = list(items[0][1][3])
    if len(items) != 1:
        return None
    op, arg = items[0]
    if str(op) == "LITERAL":
        return {chr(arg)}
    if str(op) != "IN":
        return None
    out = set()
    for o, a in arg:
        if str(o) == "LITERAL":
            out.add(chr(a))
        elif str(o) == "RANGE":
            out |= {chr(c) for c in range(a[0], a[1] + 1)}
        else:
            return None
    return out


def c06_r8(ctx: Ctx, rule):
    res = RuleResult()
    probe = _class_chars(r"[='(),-:;\[\].]")
    if probe is None or "5" not in probe or "/" not in probe or _class_chars(r"([='(),:;\[\]])") != set("='(),:;[]"):
        raise AnalysisError("regex character-class reader self-check failed")
    res.ob("character-class reader: the built-in example `[='(),-:;\\[\\].]` is read as %d characters (the `,-:` range included)" % len(probe))
    # functions on the PROV-N path of a qualified name: provn_representation of the identifier classes and what get_provn calls in its module
    funcs = [q for q, fi in ctx.p.functions.items() if fi.name == "provn_representation" or fi.name == "get_provn" or fi.name.startswith("encoding_provn")]
    closure = []
    for q in funcs:
        for q2 in ctx.helper_closure(q, 2):
            if q2 not in closure:
                closure.append(q2)
    n = 0
    for q in closure:
        fi = ctx.fn(q)
        for c in calls_in(fi.node):
            if call_name(c) not in ("sub", "subn"):
                continue
            # pattern: re.sub(P, R, s)  or  COMPILED.sub(R, s)
            if isinstance(c.func, ast.Attribute) and (dotted(c.func.value) or "") == "re":
                pat_e, rep_e = (c.args + [None, None])[:2]
            else:
                pat_e, rep_e = c.func.value if isinstance(c.func, ast.Attribute) else None, (c.args + [None])[0]
            pat = None
            if isinstance(pat_e, ast.Constant) and isinstance(pat_e.value, str):
                pat = pat_e.value
            elif pat_e is not None and dotted(pat_e):
                r = ctx.p.resolve_dotted(fi.module, pat_e)
                if r and r[0] == "var":
                    for a in ctx.p.units[r[1]].tree.body:
                        if isinstance(a, ast.Assign) and any(isinstance(t, ast.Name) and t.id == r[2] for t in a.targets) and isinstance(a.value, ast.Call) and call_name(a.value) == "compile" and a.value.args and isinstance(a.value.args[0], ast.Constant):
                            pat = a.value.args[0].value
            adds_backslash = isinstance(rep_e, ast.Constant) and isinstance(rep_e.value, str) and rep_e.value.startswith("\\")
            if pat is None or not adds_backslash:
                continue
            n += 1
            chars = _class_chars(pat)
            if chars is None:
                res.ob("%s: escaping substitution with pattern %r is not a single character class: not decided" % (short(q) if q.count(".") > 2 else q, pat))
                continue
            extra = sorted(chars - PN_CHARS_ESC)
            res.ob("%s: backslash-escapes %d characters; all of them PN_CHARS_ESC: %s" % (short(q) if q.count(".") > 2 else q, len(chars), not extra))
            if extra:
                res.fail(rule.id, "escapes-outside-PN_CHARS_ESC::%s" % q, ctx.loc(q, c),
                         "%s backslash-escapes %s, which PROV-N does not allow to be escaped (pattern %r; an unintended range?)" % (q.rsplit(".", 2)[-2] + "." + fi.name, "".join(extra)[:24], pat),
                         "a qualified-name value ex:Type1 is printed 'ex:Type\\1': not a PROV-N qualified name")
    res.ob("backslash-escaping regex substitutions on the PROV-N path of names: %d" % n, nontrivial=False)
    return res


RULES.setdefault("C06", []).append(Rule("C06.R8", "a backslash-escaping substitution on the PROV-N path escapes only PN_CHARS_ESC characters", 1, c06_r8, "F-TAINT",
                                        "every printed qualified name is a PROV-N qualified name"))


# ------------------------------------------------------------------------------------------ C15.R11 node ids are unique in one DOT graph
def c15_r11(ctx: Ctx, rule):
    """Graphviz identifies nodes by id.  prov_to_dot numbers its nodes, blank nodes, clusters and annotations ("n%d", "b%d", "c%d",
    "ann%d"); the counters must live for the whole call - be initialised in prov_to_dot itself - because the helper that draws a
    bundle is entered once per bundle: counters initialised inside it restart at 1 in every cluster and ids collide."""
    res = RuleResult()
    top = DOT + ".prov_to_dot"
    if top not in ctx.p.functions:
        raise AnalysisError("anchor vanished: function %s" % top)
    templates = []
    in_class = []
    for q, fi in ctx.p.functions.items():
        if fi.module == DOT and fi.cls and not isinstance(fi.node, ast.Lambda):
            # a small counter object: its methods hold the templates, what matters is where the object is created
            if any(isinstance(n, ast.BinOp) and isinstance(n.op, ast.Mod) and isinstance(n.left, ast.Constant) and isinstance(n.left.value, str) and re.fullmatch(r"[A-Za-z_]+%d", n.left.value) for n in walk_function(fi.node)) or \
               any(isinstance(n, ast.JoinedStr) and len(n.values) == 2 and isinstance(n.values[1], ast.FormattedValue) for n in walk_function(fi.node)):
                in_class.append(fi.cls)
    for cls in sorted(set(in_class)):
        ctors = [(q, c) for q, fi in ctx.p.functions.items() if fi.module == DOT and not isinstance(fi.node, ast.Lambda) for c in calls_in(fi.node)
                 if (ctx.p.resolve_dotted(fi.module, c.func) or (None, None))[1] == cls]
        for q, c in ctors:
            ok = q == top
            res.ob("id counters are kept in a %s object created in %s: once per prov_to_dot call: %s" % (cls.rsplit(".", 1)[1], q.rsplit(".", 1)[1], ok))
            if not ok:
                res.fail(rule.id, "id-counter-restarts::%s" % cls, ctx.loc(q, c), "the id counter object %s is created in %s, which runs once per bundle" % (cls.rsplit(".", 1)[1], q.rsplit(".", 1)[1]),
                         "ids restart in every cluster and collide")
        if not ctors:
            raise AnalysisError("id counter class %s is never instantiated" % cls)
    for q, fi in ctx.p.functions.items():
        if not (q == top or q.startswith(top + ".<locals>.")):
            continue
        for n in walk_function(fi.node):
            tmpl, arg = None, None
            if isinstance(n, ast.BinOp) and isinstance(n.op, ast.Mod) and isinstance(n.left, ast.Constant) and isinstance(n.left.value, str) and re.fullmatch(r"[A-Za-z_]+%d", n.left.value):
                tmpl, arg = n.left.value, n.right
            elif isinstance(n, ast.JoinedStr) and len(n.values) == 2 and isinstance(n.values[0], ast.Constant) and re.fullmatch(r"[A-Za-z_]+", str(n.values[0].value)) and isinstance(n.values[1], ast.FormattedValue):
                tmpl, arg = str(n.values[0].value) + "%d", n.values[1].value
            if tmpl:
                root = arg
                while isinstance(root, (ast.Subscript, ast.Attribute)):
                    root = root.value
                if isinstance(root, ast.Name):
                    templates.append((q, n, tmpl, root.id))
    # ids drawn from itertools.count (possibly wrapped: map("n%d".__mod__, count(1))): the iterator is the counter
    iter_sources = []
    for q, fi in ctx.p.functions.items():
        if not (q == top or q.startswith(top + ".<locals>.")):
            continue
        for c in calls_in(fi.node):
            r = ctx.p.resolve_dotted(fi.module, c.func) if dotted(c.func) else None
            if r and r[0] == "ext" and r[1] == "itertools.count":
                iter_sources.append((q, c))
    for q, c in iter_sources:
        ok = q == top
        res.ob("%s: an id sequence is drawn from %s, created in %s: once per prov_to_dot call: %s" % (q.rsplit(".", 1)[1], norm(c), q.rsplit(".", 1)[1], ok))
        if not ok:
            res.fail(rule.id, "id-counter-restarts::%s" % norm(c), ctx.loc(q, c), "the id sequence %s is created in %s, which runs once per bundle: ids restart in every cluster" % (norm(c), q.rsplit(".", 1)[1]),
                     "a document with top-level elements and a bundle: the top-level n1 and the bundle's n1 are one node for Graphviz; edges attach to the wrong elements")
    if len(templates) + len(iter_sources) < 3 and not in_class:
        raise AnalysisError("fewer than 3 numbered id templates found in prov_to_dot")
    for q, n, tmpl, root in templates:
        # where is the counter initialised?  the innermost enclosing function (up to prov_to_dot) that binds the name by plain assignment
        owner, cur = None, q
        while cur:
            f = ctx.fn(cur)
            binds = [a for a in walk_function(f.node) if isinstance(a, ast.Assign) and any(isinstance(x, ast.Name) and x.id == root for t in a.targets for x in ast.walk(t))]
            nonlocal_here = any(isinstance(a, ast.Nonlocal) and root in a.names for a in walk_function(f.node))
            if binds and not nonlocal_here:
                owner = cur
                break
            cur = f.parent
        ok = owner == top
        res.ob("%s: ids %r are numbered by `%s`, initialised in %s: once per prov_to_dot call: %s" % (q.rsplit(".", 1)[1], tmpl, root, (owner or "?").rsplit(".", 1)[-1], ok))
        if not ok:
            res.fail(rule.id, "id-counter-restarts::%s" % tmpl, ctx.loc(q, n), "the counter `%s` behind the ids %r is initialised in %s, which runs once per bundle: ids restart in every cluster" % (root, tmpl, (owner or "?").rsplit(".", 1)[-1]),
                     "a document with top-level elements and a bundle: the top-level n1 and the bundle's n1 are one node for Graphviz; edges attach to the wrong elements")
    return res


RULES.setdefault("C15", []).append(Rule("C15.R11", "the counters behind node / cluster / annotation ids live for the whole prov_to_dot call", 1, c15_r11, "F-PATH",
                                        "every element is exactly one node: ids never collide across clusters"))


# ------------------------------------------------------------------------------------------ C15.R12 what is drawn is the unified document; counters are bumped where they are read
def c15_r12(ctx: Ctx, rule):
    """(a) The top-level draw call of prov_to_dot is given the result of unified() (the un-unified argument only in the handler of a
    failed unification).  (b) In every helper that builds a numbered id from counter slot i ("ann%d" % count[3]), the increment in
    that helper is on the same slot i."""
    res = RuleResult()
    top = DOT + ".prov_to_dot"
    fi = ctx.fn(top)
    par = fi.params[0]
    draws = [c for c in calls_in(fi.node) if call_name(c) == "_bundle_to_dot" and isinstance(c.func, ast.Name)]
    if not draws:
        raise AnalysisError("prov_to_dot: the top-level call of the bundle drawer was not found")
    for c in draws:
        a = c.args[1] if len(c.args) > 1 else None
        ok = False
        if isinstance(a, ast.Name) and a.id != par:
            defs = [d for d in all_assignments(fi.node, a.id) if d is not None]
            uni = [d for d in defs if isinstance(d, ast.Call) and call_name(d) == "unified"]
            # other definitions are allowed only inside an except handler (the documented fallback)
            others = [d for d in defs if d not in uni]
            in_handler = all(any(isinstance(h, ast.ExceptHandler) and any(x is d for x in ast.walk(h)) for h in ast.walk(fi.node)) for d in others)
            ok = bool(uni) and in_handler
        elif isinstance(a, ast.Call) and call_name(a) == "unified":
            ok = True
        res.ob("prov_to_dot draws %s: the unified document (argument itself only after a failed unification): %s" % (norm(a) if a is not None else "?", ok))
        if not ok:
            res.fail(rule.id, "draws-un-unified", ctx.loc(top, c), "prov_to_dot draws `%s`, which is not the result of unified()" % (norm(a) if a is not None else "?"),
                     "an identifier stated twice is drawn as two nodes with the same URL and two partial annotations")
    n = 0
    for q, f in ctx.p.functions.items():
        if not q.startswith(top + ".<locals>."):
            continue
        reads = {}
        for x in walk_function(f.node):
            if isinstance(x, ast.BinOp) and isinstance(x.op, ast.Mod) and isinstance(x.left, ast.Constant) and isinstance(x.left.value, str) and re.fullmatch(r"[A-Za-z_]+%d", x.left.value) and isinstance(x.right, ast.Subscript) and isinstance(x.right.slice, ast.Constant):
                reads[(norm(x.right.value), x.right.slice.value)] = x
            if isinstance(x, ast.JoinedStr):
                for v in x.values:
                    if isinstance(v, ast.FormattedValue) and isinstance(v.value, ast.Subscript) and isinstance(v.value.slice, ast.Constant) and isinstance(v.value.value, ast.Name):
                        reads[(v.value.value.id, v.value.slice.value)] = x
        bumps = {(norm(x.target.value), x.target.slice.value) for x in walk_function(f.node) if isinstance(x, ast.AugAssign) and isinstance(x.target, ast.Subscript) and isinstance(x.target.slice, ast.Constant)}
        for key, node in reads.items():
            n += 1
            ok = key in bumps
            res.ob("%s: the id built from %s[%s] follows an increment of that same slot: %s" % (q.rsplit(".", 1)[1], key[0], key[1], ok))
            if not ok:
                res.fail(rule.id, "id-slot-not-bumped::%s::%s" % (q.rsplit(".", 1)[1], key[1]), ctx.loc(q, node), "%s numbers an id from %s[%s] but increments %s" % (q.rsplit(".", 1)[1], key[0], key[1], sorted(bumps) or "nothing"),
                         "every annotation node is called ann0: Graphviz merges them and shows only the last record's attributes, linked to all records")
    res.ob("numbered ids built from counter slots: %d" % n, nontrivial=False)
    return res


RULES.setdefault("C15", []).append(Rule("C15.R12", "prov_to_dot draws the unified document; each numbered id follows an increment of its own counter slot", 1, c15_r12, "F-PATH",
                                        "every element is one node; every annotated record has its own annotation"))
