"""Decoder / encoder path rules: per-iteration definite assignment (F-DEF), lxml Optionals (F-NULL),
relabel guard, namespace scope of the XML writer, shape discrimination, absence tests."""
from __future__ import annotations

import ast

from .. import cfg as cfgmod
from ..ctx import C, JS, M, RD, XM, Ctx, call_name, calls_in, walk_function
from ..fold import QN, is_unknown
from ..loader import AnalysisError, dotted, norm
from ..mutation import all_assignments, resolve_local
from ..report import Rule, RuleResult
from .paths import get_cfg, node_of, short
from .tables import is_kind_to_label, scope_reads, tables_used

RULES = {}


def rule(prop, rid, title, floor, family="F-PATH", decides=""):
    def deco(fn):
        RULES.setdefault(prop, []).append(Rule(rid, title, floor, fn, family, decides))
        return fn

    return deco


# ------------------------------------------------------------------------------------------ F-DEF
def stale_carries(ctx: Ctx, q):
    """For every loop of function q: (loop, var, use node, def node) where a definition made inside the loop body
    can reach a use in a *later* iteration (through the back edge) and the variable is not an accumulator."""
    fi = ctx.fn(q)
    g = get_cfg(ctx, q)
    out = []
    examined = []
    loops = [n for n in g.nodes if n.kind == "loop"]

    def body_nodes(loop):
        inside = set()
        for n in g.nodes:
            if n.stmt is not None and n is not loop and any(x is n.stmt for b in loop.stmt.body for x in ast.walk(b)):
                inside.add(n.id)
        return inside

    def defs_of(n):
        s = n.stmt
        names = set()
        if s is None or n.kind in ("test", "try", "handler"):
            return names
        tg = []
        if isinstance(s, ast.Assign):
            tg = s.targets
        elif isinstance(s, ast.AnnAssign) and s.value is not None:
            tg = [s.target]
        elif isinstance(s, (ast.For, ast.AsyncFor)) and n.kind == "loop":
            tg = [s.target]
        elif isinstance(s, ast.With) and n.kind == "with":
            tg = [i.optional_vars for i in s.items if i.optional_vars is not None]
        for t in tg:
            for x in ast.walk(t):
                if isinstance(x, ast.Name) and isinstance(x.ctx, ast.Store):
                    names.add(x.id)
        return names

    def uses_of(n):
        if n.stmt is None:
            return set()
        names = set()
        for e in cfgmod.header_exprs(n.stmt):
            if e is None:
                continue
            for x in ast.walk(e):
                if isinstance(x, ast.Name) and isinstance(x.ctx, ast.Load):
                    names.add(x.id)
        if isinstance(n.stmt, ast.AugAssign):
            names |= {x.id for x in ast.walk(n.stmt.target) if isinstance(x, ast.Name)}
        return names

    for loop in loops:
        inside = body_nodes(loop)
        body_defs = {}
        for i in inside:
            for v in defs_of(g.nodes[i]):
                body_defs.setdefault(v, []).append(i)
        for v, dnodes in body_defs.items():
            # accumulator: some definition in the body reads the variable itself, or it is only ever mutated
            acc = any(v in uses_of(g.nodes[i]) for i in dnodes)
            for i in inside:
                st = g.nodes[i].stmt
                if isinstance(st, ast.AugAssign) and any(isinstance(x, ast.Name) and x.id == v for x in ast.walk(st.target)):
                    acc = True
            if acc:
                continue
            # facts: (def node id, crossed back edge of this loop)
            IN = {n.id: set() for n in g.nodes}
            OUT = {n.id: set() for n in g.nodes}
            changed = True
            while changed:
                changed = False
                for n in g.nodes:
                    i = set()
                    for p, lab in n.pred:
                        for (d, crossed) in OUT[p.id]:
                            if n is loop and lab in ("back", "continue") and p.id in inside | {loop.id}:
                                crossed = True
                            i.add((d, crossed))
                    o = {(n.id, False)} if v in defs_of(n) else i
                    if i != IN[n.id] or o != OUT[n.id]:
                        IN[n.id], OUT[n.id] = i, o
                        changed = True
            for i in inside:
                n = g.nodes[i]
                if v in uses_of(n):
                    examined.append((loop, v, n))
                    stale = [(d, c) for (d, c) in IN[i] if c and d in inside]
                    if stale:
                        out.append((loop, v, n, g.nodes[stale[0][0]]))
    return out, examined


@rule("C11", "C11.R1", "per-iteration definite assignment in the decoders: no value is carried over from the previous element / record", 5, family="F-DEF",
      decides="loading never invents an attribute value or a member from the preceding sibling")
def c11_r1(ctx: Ctx, rule):
    res = RuleResult()
    targets = []
    for q0 in (XM + "._extract_attributes", XM + ".ProvXMLSerializer.deserialize_subtree", JS + ".decode_json_container", JS + ".decode_json_document"):
        targets += [x for x in ctx.helper_closure(q0) if x not in targets and (x.startswith(XM) or x.startswith(JS))]
    for q in targets:
        stale, examined = stale_carries(ctx, q)
        seen = set()
        for loop, v, n in examined:
            k = (loop.id, v)
            if k in seen:
                continue
            seen.add(k)
            bad = [s for s in stale if s[0] is loop and s[1] == v]
            res.ob("%s: loop `for %s`: variable %s is (re)assigned before every use of an iteration: %s" % (short(q), norm(loop.stmt.target)[:30], v, not bad))
        done = set()
        for loop, v, n, d in stale:
            if (loop.id, v) in done:
                continue
            done.add((loop.id, v))
            res.fail(rule.id, "stale-value::%s::%s" % (q, v), ctx.loc(q, n.stmt),
                     "%s: `%s` used at `%s` may still hold what `%s` assigned in a previous iteration of `for %s`" % (short(q), v, norm(n.stmt)[:50], norm(d.stmt)[:50], norm(loop.stmt.target)[:30]),
                     "an element/record that does not take the assigning branch silently inherits the value (or the extra members) of the one before it")
    return res


# ------------------------------------------------------------------------------------------ F-NULL
LXML_OPTIONAL = {"text", "prefix", "tail"}


def optional_uses(ctx: Ctx, q):
    """(attribute node, guarded?, how) for each read of an lxml Optional attribute in function q."""
    fi = ctx.fn(q)
    out = []
    parents = {}
    for n in ast.walk(fi.node):
        for ch in ast.iter_child_nodes(n):
            parents[id(ch)] = n
    for n in walk_function(fi.node):
        if not (isinstance(n, ast.Attribute) and n.attr in LXML_OPTIONAL and isinstance(n.ctx, ast.Load) and isinstance(n.value, ast.Name)):
            continue
        if n.value.id in ("self",):
            continue
        expr = norm(n)
        guarded, how = False, ""
        # climb: Compare with None / BoolOp or default / IfExp with None test / enclosing If with None test
        cur = n
        while id(cur) in parents:
            p = parents[id(cur)]
            if isinstance(p, ast.Compare) and isinstance(p.ops[0], (ast.Is, ast.IsNot)) and any(isinstance(c, ast.Constant) and c.value is None for c in p.comparators):
                guarded, how = True, "is the None test itself"
                break
            if isinstance(p, ast.BoolOp) and isinstance(p.op, ast.Or) and p.values[0] is cur and len(p.values) > 1:
                guarded, how = True, "`or` default"
                break
            if isinstance(p, ast.IfExp) and expr in norm(p.test) and "None" in norm(p.test) and (cur is p.body or cur is p.orelse):
                guarded, how = True, "conditional expression on %s" % norm(p.test)
                break
            if isinstance(p, ast.If) and expr in norm(p.test) and ("None" in norm(p.test) or norm(p.test) in (expr, "not " + expr)):
                in_body = any(x is n for b in p.body for x in ast.walk(b))
                t = norm(p.test)
                none_branch_is_body = t in ("%s is None" % expr, "not " + expr)
                if (in_body and not none_branch_is_body) or (not in_body and none_branch_is_body):
                    guarded, how = True, "branch where `%s` is false" % t if none_branch_is_body else "branch of `%s`" % t
                    break
            if isinstance(p, (ast.FunctionDef, ast.Lambda)):
                break
            cur = p
        if not guarded:
            # `v = x.text` immediately followed by `if v is None: v = <a constant that is not None>`: the local is normalised
            # before anything else can read it
            st = parents.get(id(n))
            if isinstance(st, ast.Assign) and st.value is n and len(st.targets) == 1 and isinstance(st.targets[0], ast.Name):
                v = st.targets[0].id
                blk = parents.get(id(st))
                for fld in ("body", "orelse", "finalbody"):
                    lst = getattr(blk, fld, None)
                    if isinstance(lst, list) and st in lst:
                        i = lst.index(st)
                        nxt = lst[i + 1] if i + 1 < len(lst) else None
                        if (isinstance(nxt, ast.If) and norm(nxt.test) == "%s is None" % v and not nxt.orelse and len(nxt.body) == 1 and isinstance(nxt.body[0], ast.Assign)
                                and norm(nxt.body[0].targets[0]) == v and isinstance(nxt.body[0].value, ast.Constant) and nxt.body[0].value.value is not None):
                            guarded, how = True, "local `%s` replaced by %s when None, in the next statement" % (v, norm(nxt.body[0].value))
        out.append((n, guarded, how))
    return out


@rule("C02", "C02.R4", "lxml Optionals (.text, .prefix) are None-tested before they are formatted, wrapped or stored", 3, family="F-NULL",
      decides="empty strings and default-namespace attribute names survive the PROV-XML reader")
def c02_r4(ctx: Ctx, rule):
    res = RuleResult()
    targets = []
    for q0 in (XM + "._extract_attributes", XM + ".ProvXMLSerializer.deserialize_subtree", XM + ".xml_qname_to_QualifiedName"):
        targets += [x for x in ctx.helper_closure(q0) if x not in targets and x.startswith(XM)]
    for q in targets:
        for n, guarded, how in optional_uses(ctx, q):
            res.ob("%s: read of %s: %s" % (short(q), norm(n), ("guarded (%s)" % how) if guarded else "UNGUARDED"))
            if not guarded:
                res.fail(rule.id, "optional-unguarded::%s::%s" % (q, norm(n)), ctx.loc(q, n),
                         "%s uses %s, which lxml returns as None for an empty element / an unprefixed tag, without a None test" % (short(q), norm(n)),
                         "prov:value=\"\" reloads as the string 'None' (or is dropped); an attribute element in the default namespace resolves as 'None:name'")
    # getparent() is an Optional too: a comment or processing instruction that stands before (or after) the root element has no
    # parent.  Everywhere in the XML codec, the result of getparent() is None-tested before it is used.
    for q, fi in ctx.p.functions.items():
        if fi.module != XM or isinstance(fi.node, ast.Lambda):
            continue
        parents = {}
        for a in ast.walk(fi.node):
            for ch in ast.iter_child_nodes(a):
                parents[id(ch)] = a
        for c in calls_in(fi.node):
            if not (isinstance(c.func, ast.Attribute) and c.func.attr == "getparent" and not c.args):
                continue
            uses = []
            p0 = parents.get(id(c))
            if isinstance(p0, ast.Attribute):
                uses.append((p0, None))  # x.getparent().remove(..)
            elif isinstance(p0, ast.Assign) and len(p0.targets) == 1 and isinstance(p0.targets[0], ast.Name):
                nm = p0.targets[0].id
                for x in walk_function(fi.node):
                    if isinstance(x, ast.Attribute) and isinstance(x.value, ast.Name) and x.value.id == nm and isinstance(x.ctx, ast.Load):
                        uses.append((x, nm))
            for u, nm in uses:
                guarded = False
                cur = u
                while nm and id(cur) in parents and not guarded:
                    p = parents[id(cur)]
                    if isinstance(p, (ast.If, ast.IfExp)) and nm in norm(p.test) and "None" in norm(p.test):
                        in_body = any(x is u for b in (p.body if isinstance(p, ast.If) else [p.body]) for x in ast.walk(b))
                        positive = "is not None" in norm(p.test)
                        guarded = in_body == positive
                    if isinstance(p, ast.BoolOp) and isinstance(p.op, ast.And) and any(norm(v) == "%s is not None" % nm for v in p.values):
                        guarded = True
                    for fld in ("body", "orelse"):
                        blk = getattr(p, fld, None)
                        if isinstance(blk, list) and cur in blk:
                            for st in blk[:blk.index(cur)]:
                                if isinstance(st, ast.If) and norm(st.test) == "%s is None" % nm and st.body and isinstance(st.body[-1], (ast.Continue, ast.Return, ast.Break, ast.Raise)):
                                    guarded = True
                    cur = p
                res.ob("%s: the result of %s is used (%s): %s" % (short(q) if q.count(".") > 2 else q, norm(c), norm(u)[:30], "guarded" if guarded else "UNGUARDED"))
                if not guarded:
                    res.fail(rule.id, "optional-unguarded::%s::%s" % (q, norm(c)), ctx.loc(q, u),
                             "%s uses the result of %s without a None test: a comment or processing instruction outside the root element has no parent" % (short(q) if q.count(".") > 2 else q, norm(c)),
                             "<?xml ..?><!-- generated by X --><prov:document ..>: loading raises AttributeError: 'NoneType' object has no attribute 'remove' (not a library error)")
    return res


RULES.setdefault("C11", []).append(Rule("C11.R2", "lxml Optionals are None-tested (shared with C02.R4)", 3, c02_r4, "F-NULL",
                                        "foreign PROV-XML with empty elements or a default namespace loads to the same content"))


# ------------------------------------------------------------------------------------------ C02.R2
@rule("C02", "C02.R2", "the subtype relabel is guarded by base-class agreement: the label is replaced only when PROV_BASE_CLS[type value] == record type", 1,
      decides="an entity typed prov:Person stays an entity; the reader derives the record kind from the element name")
def c02_r2(ctx: Ctx, rule):
    res = RuleResult()
    q0 = XM + ".ProvXMLSerializer._derive_record_label"
    base = ctx.const(C, "PROV_BASE_CLS")
    W, wt, wn = tables_used(ctx, q0, is_kind_to_label(ctx))[0]
    # the function that holds the label logic (the method itself or the helper it delegates to)
    q = q0
    for cand in ctx.helper_closure(q0):
        if any(isinstance(n, ast.Subscript) and norm(n.value) == wt for n in walk_function(ctx.fn(cand).node)):
            q = cand
            break
    fi = ctx.fn(q)
    rec_param = None
    for n in walk_function(fi.node):
        if isinstance(n, ast.Subscript) and norm(n.value) == wt and isinstance(n.slice, ast.Name) and n.slice.id in fi.params:
            rec_param = n.slice.id
    if rec_param is None:
        raise AnalysisError("_derive_record_label: the record-type parameter is not used to look up the default label")
    relabels = []
    for n in walk_function(fi.node):
        val = n.value if isinstance(n, (ast.Assign, ast.Return)) else None
        if isinstance(val, ast.Subscript) and norm(val.value) == wt and norm(val.slice) != rec_param:
            relabels.append(n)
    if not relabels:
        raise AnalysisError("_derive_record_label: no value-dependent relabel found")

    def is_agreement(t, want_eq=True):
        conj = t.values if isinstance(t, ast.BoolOp) and isinstance(t.op, ast.And) else [t]
        for c in conj:
            if isinstance(c, ast.Compare) and len(c.ops) == 1 and isinstance(c.ops[0], ast.Eq if want_eq else ast.NotEq):
                sides = [c.left, c.comparators[0]]
                for a, b in (sides, sides[::-1]):
                    if isinstance(a, ast.Subscript) and norm(b) == rec_param:
                        try:
                            tv = ctx.eval_in(q, a.value)
                        except AnalysisError:
                            tv = None
                        if isinstance(tv, dict) and tv == base:
                            return norm(a.slice)
        return None

    for r in relabels:
        key = norm(r.value.slice)
        ok = False
        why = ""
        for n in walk_function(fi.node):
            if isinstance(n, ast.If):
                in_body = any(x is r for b in n.body for x in ast.walk(b))
                k = is_agreement(n.test, True)
                if in_body and k == key:
                    ok, why = True, "inside `if %s`" % norm(n.test)[:90]
                # early exit form: if BASE[v] != rec_type: continue
                k2 = is_agreement(n.test, False)
                if k2 == key and not in_body and all(isinstance(s, (ast.Continue, ast.Return, ast.Break)) for s in n.body) and n.lineno < r.lineno:
                    ok, why = True, "after `if %s: continue`" % norm(n.test)[:80]
        res.ob("relabel `%s`: guarded by PROV_BASE_CLS[%s] == %s: %s %s" % (norm(r)[:50], key, rec_param, ok, why))
        if not ok:
            res.fail(rule.id, "relabel-unguarded::%s" % norm(r)[:50], ctx.loc(q, r),
                     "the element name is replaced by that of the prov:type value `%s` without checking that its base class is the record's own kind" % key,
                     "an entity typed prov:Person is written <prov:person> and reloads as an agent; an activity typed prov:Plan reloads as an entity")
    return res


# ------------------------------------------------------------------------------------------ C02.R5
@rule("C02", "C02.R5", "the XML bundle writer declares the registered and default namespaces of the container it writes, bundle bindings winning over the document's, in a map of its own", 4, family="F-SIB",
      decides="names inside <prov:bundleContent> resolve through declarations made for that bundle")
def c02_r5(ctx: Ctx, rule):
    res = RuleResult()
    q = XM + ".ProvXMLSerializer.serialize_bundle"
    fi = ctx.fn(q)
    bparam = fi.params[1]
    reads = scope_reads(ctx, q)
    have = {}
    for what, root, n in reads:
        have.setdefault(what, set()).add(root)
        res.ob("serialize_bundle reads %s namespace(s) of %s" % (what, root))
    for what in ("registered", "default"):
        if bparam not in have.get(what, set()):
            res.fail(rule.id, "xml-scope::%s::bundle-not-declared" % what, ctx.loc(q, fi.node),
                     "serialize_bundle never reads the %s namespace of the bundle it is writing (only of %s)" % (what, sorted(have.get(what, set()))),
                     "a bundle with its own default namespace: its bare names are written under the document's default (or none) and reload with another URI / raise")
    # the namespace map handed to lxml is built in this call (not shared between bundles)
    nsmaps = set()
    for c in calls_in(fi.node):
        for k in c.keywords:
            if k.arg == "nsmap":
                nsmaps.add(norm(k.value))
    from ..inline import inlined_function
    inl = inlined_function(ctx, q)

    def fresh_map(name, seen=()):
        if name in seen:
            return False
        defs = all_assignments(inl.node, name)
        if not defs:
            return False
        for d in defs:
            if d is None:
                return False
            if isinstance(d, (ast.Dict, ast.DictComp)) or (isinstance(d, ast.Call) and call_name(d) in ("dict", "copy", "deepcopy")):
                continue
            # built in a private helper (inlined: its local map is copied into this name)
            if isinstance(d, ast.Name) and fresh_map(d.id, seen + (name,)):
                continue
            return False
        return True

    for name in sorted(nsmaps):
        fresh = fresh_map(name)
        if name in fi.params:
            # a map handed in by the caller is shared unless every path rebinds it to a copy before it is written to
            fresh = False
        res.ob("namespace map `%s` is created inside serialize_bundle: %s" % (name, fresh))
        if not fresh:
            res.fail(rule.id, "xml-scope::shared-nsmap::%s" % name, ctx.loc(q, fi.node), "the namespace map `%s` is not created per call: declarations added for one bundle leak into the bundles written after it" % name,
                     "two bundles, the first re-declaring a document prefix: names in the second bundle are written under the first bundle's binding")
    # the bundle's own bindings override: the store for bundle namespaces is not skipped when the *prefix* is already present
    loops = []
    for q2 in [x for x in ctx.helper_closure(q) if x.startswith(XM + ".")]:
        f2 = ctx.fn(q2)
        for n in walk_function(f2.node):
            if isinstance(n, ast.For) and "namespaces" in norm(n.iter) and any(isinstance(x, ast.Name) and (x.id == bparam if q2 == q else x.id in f2.params and x.id != "self") for x in ast.walk(n.iter)):
                loops.append((q2, n))
    for q2, n in loops:
        if True:
            v = norm(n.target)
            for t in ast.walk(n):
                if isinstance(t, ast.If) and isinstance(t.test, ast.Compare) and isinstance(t.test.ops[0], ast.NotIn):
                    left = norm(t.test.left)
                    skipping = left == "%s.prefix" % v
                    res.ob("bundle namespaces loop: guard `%s` keeps the bundle's own binding of an already declared prefix: %s" % (norm(t.test), not skipping))
                    if skipping:
                        res.fail(rule.id, "xml-scope::bundle-binding-skipped", ctx.loc(q2, t),
                                 "a bundle's binding is dropped when the document already declares the same prefix (`%s`)" % norm(t.test),
                                 "document ex->A, bundle ex->B: every ex: name in the bundle is written under A and reloads with another URI")
            # the same thing said with dict.setdefault: the first binding (the document's) wins
            for c in ast.walk(n):
                if isinstance(c, ast.Call) and call_name(c) == "setdefault" and c.args and norm(c.args[0]) == "%s.prefix" % v:
                    res.ob("bundle namespaces loop: `%s` keeps the document's binding of an already declared prefix" % norm(c)[:60])
                    res.fail(rule.id, "xml-scope::bundle-binding-skipped", ctx.loc(q2, c),
                             "a bundle's binding is dropped when the document already declares the same prefix (`%s`)" % norm(c)[:60],
                             "document ex->A, bundle ex->B: every ex: name in the bundle is written under A and reloads with another URI")
    return res


# ------------------------------------------------------------------------------------------ C11.R4
@rule("C11", "C11.R4", "foreign shapes are discriminated: record object vs array, single value vs array, literal object vs scalar", 3,
      decides="PROV-JSON forms the library's own writer never produces are still read as the same content")
def c11_r4(ctx: Ctx, rule):
    res = RuleResult()
    q = JS + ".decode_json_container"
    fi = ctx.fn(q)
    cl = [x for x in ctx.helper_closure(q) if x.startswith(JS + ".")]
    rec_disc, formal_disc, other_disc = [], [], []
    for q2 in cl:
        f2 = ctx.fn(q2)
        for n in walk_function(f2.node):
            if isinstance(n, ast.Call) and ((call_name(n) == "hasattr" and len(n.args) == 2 and isinstance(n.args[1], ast.Constant) and n.args[1].value in ("items", "keys")) or (call_name(n) == "isinstance" and len(n.args) == 2 and norm(n.args[1]) in ("dict",))):
                if q2 != JS + ".decode_json_representation":
                    rec_disc.append(n)
            if isinstance(n, (ast.If, ast.IfExp)) and isinstance(n.test, ast.Call) and call_name(n.test) == "isinstance" and len(n.test.args) == 2 and "list" in norm(n.test.args[1]):
                subj = norm(n.test.args[0])
                body = n.body if isinstance(n.body, list) else [n.body]
                orelse = n.orelse if isinstance(n.orelse, list) else [n.orelse]
                body_txt = " ".join(norm(b) for b in body)
                else_txt = " ".join(norm(b) for b in orelse if b is not None)
                if "decode_json_representation" in body_txt and "decode_json_representation" in else_txt:
                    other_disc.append(n)
                elif ("len(%s)" % subj) in body_txt or ("%s[0]" % subj) in body_txt:
                    formal_disc.append(n)
        # guard-clause spelling: `if not isinstance(values, list): return values` followed by the unwrapping
        for n in walk_function(f2.node):
            if isinstance(n, ast.Call) and call_name(n) == "isinstance" and len(n.args) == 2 and "list" in norm(n.args[1]):
                subj = norm(n.args[0])
                ftxt = " ".join(norm(x) for x in f2.node.body)
                if (("len(%s)" % subj) in ftxt or ("%s[0]" % subj) in ftxt) and not formal_disc:
                    formal_disc.append(n)
                if ftxt.count("decode_json_representation") >= 2 and not other_disc:
                    other_disc.append(n)
    branches = {"formal": bool(formal_disc), "other": bool(other_disc)}
    res.ob("record entry: single object vs array of objects discriminated: %s" % bool(rec_disc))
    if not rec_disc:
        res.fail(rule.id, "shape::record-array", ctx.loc(q, fi.node), "decode_json_container no longer distinguishes a record object from an array of records", "repeated identifiers written as arrays fail to load")
    for arm in ("formal", "other"):
        res.ob("%s attribute values: scalar vs array discriminated: %s" % (arm, branches.get(arm, False)))
        if not branches.get(arm):
            res.fail(rule.id, "shape::value-array::%s" % arm, ctx.loc(q, fi.node), "%s attribute values wrapped in an array are not unwrapped" % arm,
                     "a single value written as [v] loads as a list object / raises")
    rq = JS + ".decode_json_representation"
    rf = ctx.fn(rq)
    lit = [n for n in walk_function(rf.node) if isinstance(n, ast.Call) and call_name(n) == "isinstance" and norm(n.args[1]) == "dict"]
    res.ob("literal object vs scalar discriminated: %s" % bool(lit))
    if not lit:
        res.fail(rule.id, "shape::literal-object", ctx.loc(rq, rf.node), "decode_json_representation no longer distinguishes {\"$\":...} objects from scalars")
    return res


# ------------------------------------------------------------------------------------------ absence tests
def value_vars_of_attribute_loops(fi):
    """Loop variables bound to the *value* of (name, value) pairs of a record's attribute lists."""
    out = {}
    for n in walk_function(fi.node):
        if isinstance(n, (ast.For, ast.comprehension)):
            it = norm(n.iter)
            import re as _re
            if _re.search(r"(all_attributes|extra_attributes|(?<![a-z_])attributes)\b", it.replace("formal_attributes", "")) and not (
                    "formal_attributes" in it and not _re.search(r"(all_attributes|extra_attributes|\.attributes)\b", it.replace("formal_attributes", ""))):
                tgt = n.target
                # enumerate(...) wraps: (idx, (attr, value))
                if isinstance(tgt, ast.Tuple) and len(tgt.elts) == 2 and isinstance(tgt.elts[1], ast.Tuple):
                    tgt = tgt.elts[1]
                if isinstance(tgt, ast.Tuple) and len(tgt.elts) == 2 and isinstance(tgt.elts[1], ast.Name):
                    out[tgt.elts[1].id] = n
    return out


def truthiness_tests(fi, names, scopes=None):
    out = []
    for n in walk_function(fi.node):
        if scopes is not None and not any(any(x is n for x in ast.walk(sc)) for sc in scopes):
            continue
        tests = []
        if isinstance(n, (ast.If, ast.IfExp, ast.While)):
            tests.append(n.test)
        elif isinstance(n, ast.comprehension):
            tests += n.ifs
        for t in tests:
            stack = [t]
            while stack:
                e = stack.pop()
                if isinstance(e, ast.BoolOp):
                    stack += e.values
                elif isinstance(e, ast.UnaryOp) and isinstance(e.op, ast.Not):
                    stack.append(e.operand)
                elif isinstance(e, ast.Name) and e.id in names:
                    out.append((e, t))
    return out


@rule("C07", "C07.R5", "absent attribute values are recognised with `is None`, never by truthiness", 2,
      decides="0, False and the empty string are attribute values like any other in the RDF encoder")
def c07_r5(ctx: Ctx, rule):
    res = RuleResult()
    q = RD + ".ProvRDFSerializer.encode_container"
    fi = ctx.fn(q)
    vv = value_vars_of_attribute_loops(fi)
    if not vv:
        raise AnalysisError("encode_container: attribute loops not found")
    bad = []
    for name, loop in vv.items():
        bad += truthiness_tests(fi, {name}, scopes=[loop])
    nones = [n for n in walk_function(fi.node) if isinstance(n, ast.Compare) and isinstance(n.left, ast.Name) and n.left.id in vv and isinstance(n.ops[0], (ast.Is, ast.IsNot))]
    for n in nones:
        res.ob("encode_container: `%s` tests absence of an attribute value by identity with None" % norm(n))
    for e, t in bad:
        res.ob("encode_container: `%s` tests the attribute value %s by truthiness" % (norm(t)[:60], e.id))
        res.fail(rule.id, "truthiness-absence::%s::%s" % (e.id, norm(t)[:50]), ctx.loc(q, t),
                 "the RDF encoder decides whether the attribute value `%s` is present with `%s`" % (e.id, norm(t)[:60]),
                 "a relation attribute whose value is 0, False or '' is not written: it comes back without that attribute")
    return res


@rule("C01", "C01.R8", "repeated identifiers: presence of an identifier in the JSON container is decided by key membership, never by the truthiness of what is stored", 1,
      decides="a record without attributes (an empty object) still counts as present; multiplicity is kept")
def c01_r8(ctx: Ctx, rule):
    res = RuleResult()
    q0 = JS + ".encode_json_container"
    q = q0
    for cand in ctx.helper_closure(q0):
        if any(isinstance(n, ast.Compare) and isinstance(n.ops[0], (ast.In, ast.NotIn)) and norm(n.left) == "identifier" for n in walk_function(ctx.fn(cand).node)) or any(
                isinstance(n, ast.Call) and call_name(n) == "get" and n.args and norm(n.args[0]) == "identifier" for n in walk_function(ctx.fn(cand).node)):
            q = cand
    fi = ctx.fn(q)
    # variables holding what the container stores under an identifier
    holders = {}
    for n in walk_function(fi.node):
        if isinstance(n, ast.Assign) and len(n.targets) == 1 and isinstance(n.targets[0], ast.Name):
            v = n.value
            if (isinstance(v, ast.Call) and call_name(v) == "get" and v.args and norm(v.args[0]) == "identifier") or (isinstance(v, ast.Subscript) and norm(v.slice) == "identifier"):
                holders[n.targets[0].id] = n
    member = [n for n in walk_function(fi.node) if isinstance(n, ast.Compare) and isinstance(n.ops[0], (ast.In, ast.NotIn)) and norm(n.left) == "identifier"]
    isnone = [n for n in walk_function(fi.node) if isinstance(n, ast.Compare) and isinstance(n.ops[0], (ast.Is, ast.IsNot)) and isinstance(n.left, ast.Name) and n.left.id in holders]
    bad = truthiness_tests(fi, set(holders))
    res.ob("presence of `identifier` decided by key membership / identity with None: %s" % bool(member or isnone))
    for e, t in bad:
        res.ob("`%s` tests the stored record object %s by truthiness" % (norm(t)[:50], e.id))
        res.fail(rule.id, "presence-by-truthiness::%s" % e.id, ctx.loc(q, t),
                 "whether the container already has a record under this identifier is decided by `%s`; an attribute-less record is stored as the falsy {}" % norm(t)[:50],
                 "entity(ex:e1) then entity(ex:e1, {ex:size: 3}): the first record vanishes from the JSON text")
    if not (member or isnone) and not bad:
        raise AnalysisError("encode_json_container: cannot find the repeated-identifier test")
    return res


RULES.setdefault("C10", []).append(Rule("C10.R6", "XML bundle writer declares the bundle's own bindings (shared with C02.R5)", 4, c02_r5, "F-SIB",
                                        "an independent reader resolves names inside <prov:bundleContent> to the URIs the document holds"))
RULES.setdefault("C11", []).append(Rule("C11.R6", "XML bundle writer declares the bundle's own bindings (shared with C02.R5)", 4, c02_r5, "F-SIB",
                                        "JSON -> document -> XML -> document keeps the URIs of names in bundles that rebind a prefix"))


@rule("C05", "C05.R7", "the literal converter applies the datatype's parser to every lexical form: absence is tested with `is None`, never by truthiness", 2,
      decides="Literal('', xsd:string) is stored as '' exactly like a direct assignment")
def c05_r7(ctx: Ctx, rule):
    res = RuleResult()
    for q, names in ((M + ".parse_xsd_types", None), (M + ".ProvRecord." + ctx.literal_converter(), {ctx.fn(M + ".ProvRecord." + ctx.literal_converter()).params[1]})):
        fi = ctx.fn(q)
        watch = set(names) if names else {fi.params[0]}
        bad = truthiness_tests(fi, watch)
        res.ob("%s: truthiness tests on the lexical value %s: %s" % (short(q) if q.count(".") > 2 else q, sorted(watch), [norm(t)[:40] for e, t in bad] or "none"))
        for e, t in bad:
            res.fail(rule.id, "lexical-truthiness::%s::%s" % (q, norm(t)[:40]), ctx.loc(q, t),
                     "%s decides on `%s` whether to convert: an empty (or falsy) lexical form is left as a Literal object" % (q.rsplit(".", 1)[1], norm(t)[:50]),
                     "Literal('', xsd:string) stays a Literal while a direct '' is a str: two spellings of one value on one record")
    return res


@rule("C11", "C11.R7", "a subtype element's type is recorded whether or not the element also carries xsi:type", 1,
      decides="<prov:person xsi:type='ex:Employee'> loads as an agent typed both prov:Person and ex:Employee")
def c11_r7(ctx: Ctx, rule):
    res = RuleResult()
    q0 = XM + ".ProvXMLSerializer.deserialize_subtree"
    from .tables import is_label_to_kind

    host = None
    for q in ctx.helper_closure(q0):
        f = ctx.fn(q)
        for kind, v, text, key, node in ctx.table_lookups(q):
            if kind in ("index", "get") and isinstance(v, dict) and is_label_to_kind(ctx)(v):
                host = (q, text)
    if host is None:
        raise AnalysisError("deserialize_subtree: element->type lookup not found")
    q, ttext = host
    fi = ctx.fn(q)
    g = get_cfg(ctx, q)
    svar = None
    for n in walk_function(fi.node):
        if isinstance(n, ast.Assign) and isinstance(n.value, ast.Subscript) and norm(n.value.value) == ttext and isinstance(n.targets[0], ast.Name):
            svar = n.targets[0].id
    if svar is None:
        raise AnalysisError("deserialize_subtree: the element's own type is not bound to a local")
    xsi_tests = [n for n in g.nodes if n.kind == "test" and "xsi" in norm(n.stmt.test) and "attrib" in norm(n.stmt.test)]
    uses = []
    for n in g.nodes:
        if n.stmt is None or n.kind == "test":
            continue
        st = n.stmt
        if isinstance(st, ast.Assign) and isinstance(st.value, ast.Subscript) and (norm(st.value.value) == ttext or norm(st.value.slice) == svar):
            continue  # the lookups themselves
        if any(isinstance(x, ast.Name) and x.id == svar for e in cfgmod.header_exprs(st) for x in ast.walk(e)):
            uses.append(n)
    if not uses:
        res.ob("the element's own type `%s` is never recorded" % svar)
        res.fail(rule.id, "subtype-not-recorded", ctx.loc(q, fi.node), "the (sub)type read from the element name is never added to the record", "<prov:person> loads as a plain agent")
        return res
    if not xsi_tests:
        res.ob("the reader has no xsi:type handling on record elements; subtype recorded at %d site(s)" % len(uses), nontrivial=False)
        return res
    for t in xsi_tests:
        starts = [m for m, lab in t.succ if lab == "true"]
        ok = any(any(u is s0 or g.exists_path(s0, u, labels_excluded=("back", "continue", "exc", "raise")) for u in uses) for s0 in starts)
        res.ob("after `%s` is taken, the element's own type `%s` is still recorded in the same iteration: %s" % (norm(t.stmt.test)[:50], svar, ok))
        if not ok:
            res.fail(rule.id, "subtype-dropped-with-xsi-type", ctx.loc(q, t.stmt),
                     "when the element carries xsi:type, the type implied by the element name (`%s`) is no longer recorded" % svar,
                     "foreign XML <prov:person prov:id='ex:bob' xsi:type='ex:Employee'/> loads as an agent typed ex:Employee only; prov:Person is silently dropped")
    return res


RULES.setdefault("C11", []).append(Rule("C11.R8", "repeated identifiers survive the re-serialisation step: presence in the JSON container is key membership (shared with C01.R8)", 1, c01_r8, "F-PATH",
                                        "a loaded document with an attribute-less record sharing an identifier with another writes both, so write-load gives d again"))

RULES.setdefault("C10", []).append(Rule("C10.R13", "repeated identifiers are all emitted: presence in the JSON container is key membership (shared with C01.R8)", 1, c01_r8, "F-PATH",
                                        "an independent reader finds as many records as the document holds"))


# ------------------------------------------------------------------------------------------ C02.R14 = C10.R15: inference never overrides an xsi:type already set
def _bool_leaves(e, out):
    if isinstance(e, ast.BoolOp):
        for v in e.values:
            _bool_leaves(v, out)
    elif isinstance(e, ast.UnaryOp) and isinstance(e.op, ast.Not):
        _bool_leaves(e.operand, out)
    else:
        out.setdefault(norm(e), e)


def _bool_eval(e, env):
    if isinstance(e, ast.BoolOp):
        vals = [_bool_eval(v, env) for v in e.values]
        return all(vals) if isinstance(e.op, ast.And) else any(vals)
    if isinstance(e, ast.UnaryOp) and isinstance(e.op, ast.Not):
        return not _bool_eval(e.operand, env)
    return env[norm(e)]


def xsi_type_not_overridden(ctx: Ctx, rule):
    """The XML writer sets xsi:type explicitly for some kinds (xsd:QName for qualified names, prov:InternationalizedString ...) and then
    *infers* one for the rest.  The inference block must be entered only when no xsi:type has been set: its condition, as a
    propositional formula over its atoms, implies `xsi:type not in subelem.attrib` (a dropped pair of parentheses breaks exactly
    this: `a or b or c and not-typed` no longer implies not-typed)."""
    res = RuleResult()
    q = XM + ".ProvXMLSerializer.serialize_bundle"
    n_blocks = 0
    for q2 in ctx.helper_closure(q):
        if not q2.startswith(XM + "."):
            continue
        f2 = ctx.fn(q2)
        for n in walk_function(f2.node):
            # a decision that mentions "no xsi:type yet": the test of an if / conditional expression, or the expression a
            # predicate helper returns
            if isinstance(n, (ast.If, ast.IfExp, ast.While)):
                test = n.test
            elif isinstance(n, ast.Return) and isinstance(n.value, (ast.BoolOp, ast.UnaryOp)):
                test = n.value
            else:
                continue
            leaves = {}
            _bool_leaves(test, leaves)
            guard = None
            for txt, e in leaves.items():
                if isinstance(e, ast.Compare) and len(e.ops) == 1 and isinstance(e.ops[0], ast.NotIn) and isinstance(e.comparators[0], ast.Attribute) and e.comparators[0].attr == "attrib":
                    try:
                        k = ctx.eval_in(q2, e.left)
                    except AnalysisError:
                        k = None
                    if isinstance(k, str) and k.endswith("}type"):
                        guard = txt
            if guard is None or len(leaves) < 2 or len(leaves) > 14:
                continue
            n_blocks += 1
            names = sorted(leaves)
            bad_pos = bad_neg = None
            for bits in range(1 << len(names)):
                env = {nm: bool(bits >> i & 1) for i, nm in enumerate(names)}
                val = _bool_eval(test, env)
                if val and not env[guard] and bad_pos is None:
                    bad_pos = env
                if not val and not env[guard] and bad_neg is None:
                    bad_neg = env
            # `if C: infer` needs C => guard; `if not C': continue` (then infer) needs not C' => guard: one of the two holds
            okf = bad_pos is None or bad_neg is None
            res.ob("%s: the decision `%s...` (%d atoms) or its negation implies `%s`: %s" % (short(q2), norm(test)[:40], len(names), guard[:50], okf))
            if not okf:
                on = [k[:30] for k, v in bad_pos.items() if v]
                res.fail(rule.id, "inference-overrides-explicit-type", ctx.loc(q2, test),
                         "the xsi:type inference block can be entered although an xsi:type is already set (e.g. when %s)" % " and ".join(on)[:120],
                         "force_types=True: a qualified-name value keeps its text ex:Report but its xsi:type xsd:QName is overwritten by xsd:anyURI: a reader recovers the URI 'ex:Report'")
    if not n_blocks:
        raise AnalysisError("the xsi:type inference block of serialize_bundle was not found")
    return res


RULES.setdefault("C02", []).append(Rule("C02.R14", "xsi:type inference is entered only when no xsi:type has been set (propositional implication of the guard)", 1, xsi_type_not_overridden, "F-BOOL",
                                        "explicitly typed values (xsd:QName, prov:InternationalizedString) keep their type with force_types on or off"))
RULES.setdefault("C10", []).append(Rule("C10.R15", "xsi:type inference never overrides an explicit xsi:type (shared with C02.R14)", 1, xsi_type_not_overridden, "F-BOOL",
                                        "the emitted xsi:type of a qualified-name value is xsd:QName"))


# ------------------------------------------------------------------------------------------ C11.R15 the order of XML attributes is not significant
def xml_attribute_order(ctx: Ctx, rule):
    """XML attributes are unordered.  The reader walks `subel.attrib.items()`; if more than one branch of that loop assigns the
    element's value, the last attribute in document order wins and the others' information is lost (xml:lang written before
    xsi:type: the language tag disappears).  Each branch may only record what it saw; the value is built after the loop - or at
    most one branch assigns it."""
    res = RuleResult()
    q0 = XM + "._extract_attributes"
    loops = []
    for q in ctx.helper_closure(q0):
        if not q.startswith(XM + "."):
            continue
        f = ctx.fn(q)
        for n in walk_function(f.node):
            if isinstance(n, ast.For) and "attrib" in norm(n.iter):
                loops.append((q, n))
    if not loops:
        raise AnalysisError("the loop over an element's XML attributes was not found")
    for q, loop in loops:
        f = ctx.fn(q)
        # variables assigned in the loop body that are read after the loop (the element's value)
        assigned = {}
        chain = loop.body
        branches = []
        if len(chain) == 1 and isinstance(chain[0], ast.If):
            node = chain[0]
            while True:
                branches.append(node.body)
                if len(node.orelse) == 1 and isinstance(node.orelse[0], ast.If):
                    node = node.orelse[0]
                else:
                    if node.orelse:
                        branches.append(node.orelse)
                    break
        else:
            branches = [[st] for st in chain]
        for i, br in enumerate(branches):
            for st in br:
                for a in ast.walk(st):
                    if isinstance(a, ast.Assign):
                        for t in a.targets:
                            if isinstance(t, ast.Name):
                                assigned.setdefault(t.id, set()).add(i)
        after = False
        used_after = set()
        for n in walk_function(f.node):
            pass
        # names read after the loop, in the statements following it in the same block
        for parent in ast.walk(f.node):
            for fld in ("body", "orelse"):
                lst = getattr(parent, fld, None)
                if isinstance(lst, list) and loop in lst:
                    for st in lst[lst.index(loop) + 1:]:
                        for x in ast.walk(st):
                            if isinstance(x, ast.Name) and isinstance(x.ctx, ast.Load):
                                used_after.add(x.id)
        multi = {v: bs for v, bs in assigned.items() if len(bs) > 1 and v in used_after}
        res.ob("%s: the attribute loop has %d branches; result variables assigned by more than one branch: %s" % (short(q), len(branches), sorted(multi) or "none"))
        for v, bs in sorted(multi.items()):
            res.fail(rule.id, "attribute-order-significant::%s" % v, ctx.loc(q, loop),
                     "%d branches of the loop over the XML attributes assign `%s`: whichever attribute comes last in the text decides the value" % (len(bs), v),
                     "<prov:label xml:lang='en' xsi:type='prov:InternationalizedString'>hello</prov:label> loads without its language tag; with the two attributes swapped it loads with it")
    return res


RULES.setdefault("C11", []).append(Rule("C11.R15", "the value read from an XML element does not depend on the order of its attributes", 1, xml_attribute_order, "F-DEF",
                                        "every spelling of a typed, language-tagged literal loads with all of its information"))


# ------------------------------------------------------------------------------------------ round-6 micro rules on the XML codec
def xml_micro(ctx: Ctx, rule):
    """(a) _derive_record_label turns ONE prov:type value into the element name: every removal of a type pair from the attribute
    list is followed, in the same statement list, by leaving the loop (break / return) - with `continue`, a second subtype is
    removed too but only the last one becomes the name, and the other is written nowhere.
    (b) the reader's stand-in for an element without text is a *string* ("" ), not None."""
    res = RuleResult()
    q0 = XM + ".ProvXMLSerializer._derive_record_label"
    n_rm = 0
    for q in ctx.helper_closure(q0):
        if not q.startswith(XM + "."):
            continue
        f = ctx.fn(q)
        for loop in walk_function(f.node):
            if not isinstance(loop, (ast.For, ast.While)):
                continue
            for lst in [x for y in ast.walk(loop) for x in (getattr(y, "body", None), getattr(y, "orelse", None)) if isinstance(x, list)]:
                for i, st in enumerate(lst):
                    if isinstance(st, ast.Expr) and isinstance(st.value, ast.Call) and call_name(st.value) in ("remove", "pop") or (isinstance(st, ast.Delete)):
                        n_rm += 1
                        leaves = any(isinstance(t, (ast.Break, ast.Return)) for t in lst[i:])
                        res.ob("%s: the removal `%s` is followed by leaving the loop: %s" % (short(q), norm(st)[:40], leaves))
                        if not leaves:
                            res.fail(rule.id, "relabel-consumes-several-types", ctx.loc(q, st), "%s removes a prov:type pair and keeps looping: a second subtype is removed as well, but only one becomes the element name" % short(q),
                                     "an agent typed prov:Person and prov:SoftwareAgent is written as one <prov:softwareAgent> element: the other type is lost on reload")
    if not n_rm:
        raise AnalysisError("_derive_record_label: the removal of the consumed prov:type pair was not found")
    rq = XM + "._extract_attributes"
    for q in ctx.helper_closure(rq):
        if not q.startswith(XM + "."):
            continue
        f = ctx.fn(q)
        for n in walk_function(f.node):
            if isinstance(n, ast.IfExp) and isinstance(n.body, ast.Attribute) and n.body.attr in ("text", "tail") and "None" in norm(n.test):
                okv = isinstance(n.orelse, ast.Constant) and isinstance(n.orelse.value, str)
                res.ob("%s: an absent %s is replaced by the string %s: %s" % (short(q), n.body.attr, norm(n.orelse), okv))
                if not okv:
                    res.fail(rule.id, "absent-text-not-a-string", ctx.loc(q, n), "%s replaces an absent element text by %s, not by a string" % (short(q), norm(n.orelse)),
                             "an attribute whose value is the empty string reloads as the string 'None' (or is dropped)")
    # (c) the text of a value element is the value: it is not stripped, split or otherwise rewritten on the way (white space is
    # significant in xsd:string; the writer emits xsi:type="xsd:string" for plain strings in prov:type / value / location)
    for q in ctx.helper_closure(rq):
        if not q.startswith(XM + "."):
            continue
        f = ctx.fn(q)
        text_names = set()
        for a in walk_function(f.node):
            if isinstance(a, ast.Assign) and len(a.targets) == 1 and isinstance(a.targets[0], ast.Name) and any(isinstance(x, ast.Attribute) and x.attr == "text" for x in ast.walk(a.value)):
                text_names.add(a.targets[0].id)
        for c in calls_in(f.node):
            if isinstance(c.func, ast.Attribute) and c.func.attr in ("strip", "lstrip", "rstrip", "split", "splitlines", "replace", "lower", "upper", "casefold", "expandtabs", "translate"):
                recv = c.func.value
                is_text = (isinstance(recv, ast.Name) and recv.id in text_names) or (isinstance(recv, ast.Attribute) and recv.attr == "text")
                if is_text:
                    res.ob("%s: the element text is rewritten: %s" % (short(q), norm(c)[:40]))
                    res.fail(rule.id, "element-text-rewritten::%s" % norm(c)[:30], ctx.loc(q, c),
                             "%s applies %s to the text of a value element: for a string value this changes the value" % (short(q), norm(c)[:40]),
                             "prov:value = ' padded value ' is written with xsi:type=xsd:string and reloads as 'padded value'")
    return res


RULES.setdefault("C02", []).append(Rule("C02.R16", "one prov:type value is consumed per relabel; an absent element text is the empty string", 1, xml_micro, "F-PATH",
                                        "records with several subtype types, and empty string values, survive the XML round trip"))
RULES.setdefault("C10", []).append(Rule("C10.R18", "one prov:type value is consumed per relabel (shared with C02.R16)", 1, xml_micro, "F-PATH", "every asserted type appears in the emitted text"))
RULES.setdefault("C11", []).append(Rule("C11.R16", "one prov:type value is consumed per relabel; absent text is '' (shared with C02.R16)", 1, xml_micro, "F-PATH", "writing a loaded document never drops a type or an empty value"))


# ------------------------------------------------------------------------------------------ C11.R17: JSON membership expansion and Literal(langtag, datatype)
def c11_r17(ctx: Ctx, rule):
    """(The membership clause that used to live here is decided by C11.R18, structurally.)
    Literal.__init__: a language-tagged literal is a prov:InternationalizedString: under `langtag is not None`, the branch that
    overrides a foreign datatype is guarded by `datatype != <InternationalizedString>`."""
    res = RuleResult()
    lq = ctx.p.lookup_method(M + ".Literal", "__init__")
    lf = ctx.fn(lq)
    istr = ctx.prov_ns()
    n_cmp = 0
    for n in walk_function(lf.node):
        if isinstance(n, ast.If):
            for c in ast.walk(n.test):
                if isinstance(c, ast.Compare) and len(c.ops) == 1 and isinstance(c.ops[0], (ast.Eq, ast.NotEq)):
                    sides = [c.left, c.comparators[0]]
                    try:
                        vals = [ctx.eval_in(lq, x) for x in sides]
                    except AnalysisError:
                        continue
                    if any(getattr(v, "local", None) == "InternationalizedString" for v in vals):
                        assigns = any(isinstance(a, ast.Assign) for b in n.body for a in ast.walk(b))
                        if assigns:
                            n_cmp += 1
                            okc = isinstance(c.ops[0], ast.NotEq)
                            res.ob("Literal.__init__: the datatype of a language-tagged literal is overridden when `%s`: guard is `!=`: %s" % (norm(c)[:60], okc))
                            if not okc:
                                res.fail(rule.id, "langtag-datatype-override-inverted", ctx.loc(lq, c), "Literal.__init__ overrides the datatype when it already IS prov:InternationalizedString and keeps a foreign one",
                                         "{'$': 'x', 'type': 'xsd:string', 'lang': 'fr'} loads with datatype xsd:string; the JSON writer emits only the language: write-load gives another document")
    if not n_cmp:
        raise AnalysisError("Literal.__init__: the datatype override for language-tagged literals was not found")
    return res


RULES.setdefault("C11", []).append(Rule("C11.R17", "a language-tagged literal's foreign datatype is overridden (guard `!=`)", 1, c11_r17, "F-PATH",
                                        "foreign JSON forms load completely and re-serialise to the same document"))


# ------------------------------------------------------------------------------------------ C02.R21: a bare name may contain a colon
def xml_bare_name_rule(ctx: Ctx, rule):
    """The XML writer prints a name of the default namespace as its bare local part, and a local part may contain ':'
    (`2024-05-01T12:00:00`).  In the reader's name resolver, the case "text before the colon is not a declared prefix" therefore
    still reaches the default-namespace resolution: on the CFG, from the undeclared side of the `prefix in nsmap` test there is a
    path to a return that resolves in `nsmap[None]`."""
    from ..inline import inlined_function
    res = RuleResult()
    q = XM + ".xml_qname_to_QualifiedName"
    if q not in ctx.p.functions:
        raise AnalysisError("anchor vanished: function %s" % q)
    f = inlined_function(ctx, q)
    g = cfgmod.build(f.node)
    tests = []
    for n in g.nodes:
        if n.kind != "test" or n.stmt is None:
            continue
        t = n.stmt.test
        neg = False
        while isinstance(t, ast.UnaryOp) and isinstance(t.op, ast.Not):
            t, neg = t.operand, not neg
        if isinstance(t, ast.Compare) and len(t.ops) == 1 and isinstance(t.ops[0], (ast.In, ast.NotIn)) and "nsmap" in norm(t.comparators[0]) and not (isinstance(t.left, ast.Constant) and t.left.value is None):
            declared_label = "true" if isinstance(t.ops[0], ast.In) != neg else "false"
            tests.append((n, "false" if declared_label == "true" else "true"))
    default_returns = [n for n in g.nodes if isinstance(n.stmt, ast.Return) and n.stmt.value is not None]
    def in_default(n):
        # a return under `None in ..nsmap`, or built from nsmap[None]
        if any(isinstance(x, ast.Subscript) and "nsmap" in norm(x.value) and isinstance(x.slice, ast.Constant) and x.slice.value is None for x in ast.walk(n.stmt)):
            return True
        for t in walk_function(f.node):
            if isinstance(t, ast.If) and "None in" in norm(t.test) and "nsmap" in norm(t.test) and any(x is n.stmt for b in t.body for x in ast.walk(b)):
                return True
            if isinstance(t, ast.If) and "None not in" in norm(t.test) and "nsmap" in norm(t.test) and t.body and isinstance(t.body[-1], ast.Raise):
                # guard clause: everything after it is the default-namespace case
                return any(x is n.stmt for x in ast.walk(f.node)) and n.stmt.lineno > t.lineno
        return False
    default_returns = [n for n in default_returns if in_default(n)]
    if not tests or not default_returns:
        raise AnalysisError("xml_qname_to_QualifiedName: prefix test (%d) / default-namespace return (%d) not found" % (len(tests), len(default_returns)))
    for tn, undeclared in tests:
        starts = [m for m, lab in tn.succ if lab == undeclared]
        ok = any(s0 is d or g.find_path(s0, d, labels_excluded=("exc", "raise")) is not None for s0 in starts for d in default_returns)
        res.ob("`%s`: an undeclared prefix still reaches the default-namespace resolution: %s" % (norm(tn.stmt.test)[:50], ok))
        if not ok:
            res.fail(rule.id, "colon-in-bare-name-rejected", ctx.loc(q, tn.stmt),
                     "when the text before ':' is not a declared prefix (`%s`), the resolver never tries the default namespace" % norm(tn.stmt.test)[:50],
                     "default namespace http://example.org/runs/ and the identifier '2024-05-01T12:00:00' in it: written prov:id=\"2024-05-01T12:00:00\", the reload raises (or resolves elsewhere)")
    return res


RULES.setdefault("C02", []).append(Rule("C02.R21", "a bare name containing ':' (text before the colon is no declared prefix) is resolved in the default namespace", 1, xml_bare_name_rule, "F-PATH",
                                        "names in a default namespace keep their URI whatever characters their local part holds"))
RULES.setdefault("C11", []).append(Rule("C11.R21", "a bare name containing ':' is resolved in the default namespace (shared with C02.R21)", 1, xml_bare_name_rule, "F-PATH",
                                        "foreign XML with such names loads and re-serialises to the same document"))


# ------------------------------------------------------------------------------------------ C02.R18: character substitution in the XML codec spares every XML character
XML_CHAR_RANGES = [(0x9, 0xA), (0xD, 0xD), (0x20, 0xD7FF), (0xE000, 0xFFFD), (0x10000, 0x10FFFF)]  # XML 1.0, production [2] Char


def _class_ranges(pattern: str):
    """(negated?, [(lo, hi)..]) of a pattern that is one character class (possibly repeated: `[..]+`); None for any other shape."""
    import re._parser as sre

    try:
        tree = sre.parse(pattern)
    except Exception:
        return None
    items = list(tree)
    while len(items) == 1 and str(items[0][0]) in ("SUBPATTERN", "MAX_REPEAT", "MIN_REPEAT"):
        items = list(items[0][1][3]) if str(items[0][0]) == "SUBPATTERN" else list(items[0][1][2])
    if len(items) != 1 or str(items[0][0]) not in ("IN", "LITERAL", "NOT_LITERAL"):
        return None
    op, arg = items[0]
    if str(op) == "LITERAL":
        return False, [(arg, arg)]
    if str(op) == "NOT_LITERAL":
        return True, [(arg, arg)]
    neg, ranges = False, []
    for o, a in arg:
        if str(o) == "NEGATE":
            neg = True
        elif str(o) == "LITERAL":
            ranges.append((a, a))
        elif str(o) == "RANGE":
            ranges.append((a[0], a[1]))
        else:
            return None
    return neg, ranges


def _substituted_xml_chars(neg, ranges):
    """XML characters a substitution with this class rewrites: first offending code point or None."""
    def inside(c):
        return any(lo <= c <= hi for lo, hi in ranges)
    for lo, hi in XML_CHAR_RANGES:
        # it is enough to look at range ends and at the borders of the class's own ranges
        probes = {lo, hi} | {b for a, z in ranges for b in (a - 1, a, z, z + 1) if lo <= b <= hi}
        for c in sorted(probes):
            hit = (not inside(c)) if neg else inside(c)
            if hit:
                return c
    return None


def xml_substitution_rule(ctx: Ctx, rule):
    """PROV-XML carries every XML 1.0 character of a value as it is (lxml escapes markup).  A regular-expression substitution in the
    XML codec may remove what XML cannot carry, but the characters it rewrites - read off its character class with the stdlib regex
    parser - must not include any XML Char: #x9 | #xA | #xD | [#x20-#xD7FF] | [#xE000-#xFFFD] | [#x10000-#x10FFFF]."""
    res = RuleResult()
    probe = _class_ranges("[^\\x09\\x0a\\x0d\\x20-\\ud7ff\\ue000-\\ufffd]")
    if probe is None or not probe[0] or _substituted_xml_chars(*probe) != 0x10000 or _substituted_xml_chars(True, XML_CHAR_RANGES) is not None:
        raise AnalysisError("regex character-class reader self-check failed")
    res.ob("character-class reader: the built-in example (the widely copied class that stops at U+FFFD) is read as rewriting U+10000; the full Char production as rewriting nothing")
    for q, fi in ctx.p.functions.items():
        if fi.module != XM or isinstance(fi.node, ast.Lambda):
            continue
        for c in calls_in(fi.node):
            if not (isinstance(c.func, ast.Attribute) and c.func.attr in ("sub", "subn")):
                continue
            pat = None
            recv = c.func.value
            r = ctx.p.resolve_dotted(fi.module, recv) if dotted(recv) else None
            if r and r[0] in ("ext", "module") and str(r[1]) == "re" and c.args:
                pat = c.args[0]
            elif isinstance(recv, ast.Name):
                rr = ctx.p.resolve_name(fi.module, recv.id)
                if rr and rr[0] == "var":
                    unit = ctx.p.units[rr[1]]
                    for st in unit.tree.body:
                        if isinstance(st, ast.Assign) and any(isinstance(t, ast.Name) and t.id == rr[2] for t in st.targets) and isinstance(st.value, ast.Call) and call_name(st.value) == "compile" and st.value.args:
                            pat = st.value.args[0]
            if pat is None:
                continue
            try:
                pv = ctx.eval_in(q, pat)
            except AnalysisError:
                pv = None
            if not isinstance(pv, str):
                res.ob("%s: substitution %s: pattern does not fold to a string" % (short(q) if q.count(".") > 2 else q, norm(c)[:50]), nontrivial=False)
                continue
            cr = _class_ranges(pv)
            if cr is None:
                res.ob("%s: substitution with pattern %r is not a single character class: not judged" % (short(q) if q.count(".") > 2 else q, pv[:40]), nontrivial=False)
                continue
            bad = _substituted_xml_chars(*cr)
            res.ob("%s: substitution with class %r rewrites no XML 1.0 character: %s" % (short(q) if q.count(".") > 2 else q, pv[:50], bad is None))
            if bad is not None:
                res.fail(rule.id, "xml-char-rewritten::U+%04X" % bad, ctx.loc(q, c),
                         "%s rewrites characters matched by %r, which include the legal XML character U+%04X" % (short(q) if q.count(".") > 2 else q, pv[:60], bad),
                         "a string value holding U+%04X is written as another character and reads back changed, silently" % bad)
    return res


RULES.setdefault("C02", []).append(Rule("C02.R18", "a character substitution in the XML codec spares every XML 1.0 character (class read with the regex parser)", 0, xml_substitution_rule, "F-TAINT",
                                        "strings of XML characters, astral ones included, survive the XML round trip unchanged"))
RULES.setdefault("C10", []).append(Rule("C10.R19", "a character substitution in the XML writer spares every XML 1.0 character (shared with C02.R18)", 0, xml_substitution_rule, "F-TAINT",
                                        "an independent reader recovers every character of a value"))


# ------------------------------------------------------------------------------------------ C11.R19: names of a child element resolve in the child's scope
def child_scope_rule(ctx: Ctx, rule):
    """XML namespace declarations are scoped per element: a child element may declare or re-declare a prefix (lxml itself writes
    `<ns0:size xmlns:ns0="..">` for a name whose namespace is not in the parent's map).  Inside a loop over the children of an
    element, the parent's `.nsmap` (read directly or through a local taken before the loop) is therefore never what a child's
    names are resolved against."""
    res = RuleResult()
    n_loops = 0
    for q, fi in ctx.p.functions.items():
        if fi.module != XM or isinstance(fi.node, ast.Lambda):
            continue
        for lp in walk_function(fi.node):
            if not (isinstance(lp, ast.For) and isinstance(lp.iter, ast.Name) and isinstance(lp.target, ast.Name)):
                continue
            parent = lp.iter.id
            # only loops over an lxml element: the body reads element attributes of the loop variable
            if not any(isinstance(x, ast.Attribute) and isinstance(x.value, ast.Name) and x.value.id == lp.target.id and x.attr in ("text", "attrib", "prefix", "tag", "nsmap") for b in lp.body for x in ast.walk(b)) and \
               not any(isinstance(x, ast.Call) and any(isinstance(a, ast.Name) and a.id == lp.target.id for a in x.args) for b in lp.body for x in ast.walk(b)):
                continue
            n_loops += 1
            aliases = {parent + ".nsmap"}
            for a in walk_function(fi.node):
                if isinstance(a, ast.Assign) and isinstance(a.value, ast.Attribute) and a.value.attr == "nsmap" and norm(a.value.value) == parent and not any(x is a for b in lp.body for x in ast.walk(b)):
                    aliases |= {t.id for t in a.targets if isinstance(t, ast.Name)}
            uses = []
            for b in lp.body:
                for x in ast.walk(b):
                    if isinstance(x, ast.Name) and x.id in aliases and isinstance(x.ctx, ast.Load):
                        uses.append(x)
                    elif isinstance(x, ast.Attribute) and x.attr == "nsmap" and norm(x.value) == parent:
                        uses.append(x)
            res.ob("%s: for %s in %s: the parent's namespace map (%s) is used inside the loop: %s" % (short(q) if q.count(".") > 2 else q, lp.target.id, parent, sorted(aliases), bool(uses)))
            for u in uses[:1]:
                res.fail(rule.id, "parent-scope-nsmap::%s" % q, ctx.loc(q, u),
                         "%s resolves names of the child elements of `%s` against %s, the declarations in scope at the parent" % (short(q) if q.count(".") > 2 else q, parent, norm(u)),
                         "<ex:size xmlns:ex=\"http://other/\"> inside a record (or the <ns0:size xmlns:ns0=..> lxml writes for a bundle's default namespace): the name resolves to the parent's ex (or raises)")
    if n_loops < 2:
        raise AnalysisError("the loops over child elements of the XML reader were not found (%d)" % n_loops)
    return res


RULES.setdefault("C11", []).append(Rule("C11.R19", "names found in a child element are resolved against the child's own in-scope declarations", 2, child_scope_rule, "F-PATH",
                                        "foreign XML that declares a prefix on the attribute element itself loads with the right URIs"))
RULES.setdefault("C02", []).append(Rule("C02.R17", "names found in a child element are resolved in the child's scope (shared with C11.R19)", 2, child_scope_rule, "F-PATH",
                                        "attribute names written under a generated prefix (a bundle's default namespace) read back with their URI"))


# ------------------------------------------------------------------------------------------ C11.R18: several entities in one membership
def _is_prov_entity(ctx, q, e):
    try:
        v = ctx.eval_in(q, e)
    except AnalysisError:
        return False
    return isinstance(v, QN) and v.local == "entity" and v.uri.endswith("prov#entity")


def _record_factories(ctx):
    """Names of the ProvBundle methods that make a record (they call self.new_record), plus new_record itself."""
    out = {"new_record"}
    for cq in (M + ".ProvBundle", M + ".ProvDocument"):
        ci = ctx.p.classes.get(cq)
        if ci is None:
            continue
        for name, mq in ci.methods.items():
            fi = ctx.p.functions.get(mq)
            if fi is not None and any(isinstance(c.func, ast.Attribute) and c.func.attr == "new_record" and norm(c.func.value) == "self" for c in calls_in(fi.node)):
                out.add(name)
    return out


def _single_value_guard_has_bypass(ctx, res):
    """ProvRecord.add_attributes refuses a second value for a PROV attribute.  True when that refusal is conditional on something
    other than the attribute itself (today: `not is_collection`, i.e. prov:collection among the incoming names)."""
    aq = ctx.p.lookup_method(M + ".ProvRecord", "add_attributes")
    from ..inline import inlined_function
    f = inlined_function(ctx, aq, exclude=frozenset({ctx.literal_converter()}))
    params = {a.arg for a in f.node.args.args}
    guards = []
    for n in walk_function(f.node):
        if isinstance(n, ast.If) and any(isinstance(x, ast.Raise) for b in n.body for x in ast.walk(b)):
            def big_table(e):
                try:
                    v = ctx.eval_in(aq, e)
                except AnalysisError:
                    return False
                return isinstance(v, (set, frozenset, list, tuple, dict)) and len(v) >= 20 and any(isinstance(x, QN) and x.local == "entity" for x in v)
            # `attr in <the table of all PROV attribute names>` (folded; 27 names today)
            if any(isinstance(c, ast.Compare) and len(c.ops) == 1 and isinstance(c.ops[0], ast.In) and big_table(c.comparators[0]) for c in ast.walk(n.test)):
                guards.append(n)
    if not guards:
        res.ob("ProvRecord.add_attributes: no refusal of a second value for a PROV attribute was found: several values are admitted")
        return True
    params = {a.arg for a in f.node.args.args} - {"self"}
    per_pair = set()
    for lp in walk_function(f.node):
        if isinstance(lp, ast.For) and any(isinstance(x, ast.Name) and x.id in params for x in ast.walk(lp.iter)):
            per_pair |= {x.id for x in ast.walk(lp.target) if isinstance(x, ast.Name)}
            per_pair |= {x.id for b0 in lp.body for st in ast.walk(b0) if isinstance(st, (ast.Assign, ast.AugAssign, ast.NamedExpr)) for tg in (st.targets if isinstance(st, ast.Assign) else [st.target]) for x in ast.walk(tg) if isinstance(x, ast.Name)}
    assigned = {x.id for st in walk_function(f.node) if isinstance(st, (ast.Assign, ast.AugAssign, ast.NamedExpr)) for tg in (st.targets if isinstance(st, ast.Assign) else [st.target]) for x in ast.walk(tg) if isinstance(x, ast.Name)}
    for g in guards:
        names = {x.id for x in ast.walk(g.test) if isinstance(x, ast.Name)}
        # what is computed per pair inside the loop over the incoming list is about the attribute at hand; a local computed once,
        # before that loop, from the list as a whole lifts the refusal for some records
        lifted = (names & assigned) - per_pair
        if lifted:
            res.ob("ProvRecord.add_attributes: the refusal of a second value (`%s`) is lifted by %s, computed once from the whole incoming list" % (norm(g.test)[:70], sorted(lifted)))
            return True
    res.ob("ProvRecord.add_attributes: a second value for a PROV attribute is always refused")
    return False


def c11_r18(ctx: Ctx, rule):
    """PROV-JSON and PROV-XML both let one hadMember list several entities.  The JSON, PROV-N and RDF writers print ONE value per
    PROV attribute (first() of the value set), so a reader must not build a membership holding several: it makes one membership
    per entity (or refuses the input).  Decided per reader, on the reader with its private helpers inlined: there is a loop over
    values selected by a comparison with prov:entity whose body makes a record, or a raise under a test of those values.  Vacuous
    when the model itself refuses a second value for every record kind."""
    from ..inline import inlined_function
    res = RuleResult()
    bypass = _single_value_guard_has_bypass(ctx, res)
    factories = _record_factories(ctx)
    readers = [JS + ".decode_json_container", XM + ".ProvXMLSerializer.deserialize_subtree"]
    for rq in readers:
        if rq not in ctx.p.functions:
            raise AnalysisError("anchor vanished: function %s" % rq)
        f = inlined_function(ctx, rq)
        # names holding values selected by a comparison with prov:entity
        tainted = set()
        def entity_test(t):
            return any(isinstance(c, ast.Compare) and len(c.ops) == 1 and isinstance(c.ops[0], (ast.Eq, ast.NotEq, ast.Is, ast.In)) and any(_is_prov_entity(ctx, rq, sd) for sd in [c.left] + c.comparators) for c in ast.walk(t))
        for n in walk_function(f.node):
            if isinstance(n, ast.If) and entity_test(n.test):
                for b in n.body:
                    for a in ast.walk(b):
                        if isinstance(a, ast.Assign):
                            tainted |= {x.id for tg in a.targets for x in ast.walk(tg) if isinstance(x, ast.Name)}
                        elif isinstance(a, ast.Expr) and isinstance(a.value, ast.Call) and isinstance(a.value.func, ast.Attribute) and a.value.func.attr in ("append", "extend", "add") and isinstance(a.value.func.value, ast.Name):
                            tainted.add(a.value.func.value.id)
            if isinstance(n, ast.Assign) and isinstance(n.value, (ast.ListComp, ast.SetComp, ast.GeneratorExp)) and any(entity_test(i) for g in n.value.generators for i in g.ifs):
                tainted |= {x.id for tg in n.targets for x in ast.walk(tg) if isinstance(x, ast.Name)}
        changed = True
        while changed:
            changed = False
            for a in walk_function(f.node):
                if isinstance(a, ast.Assign) and any(isinstance(x, ast.Name) and x.id in tainted for x in ast.walk(a.value)):
                    new = {x.id for tg in a.targets for x in ast.walk(tg) if isinstance(x, ast.Name)} - tainted
                    # only whole-value flows: copies, slices, list()/tuple() of a selected list
                    v = a.value
                    while isinstance(v, ast.Subscript) and isinstance(v.slice, ast.Slice):
                        v = v.value
                    if isinstance(v, ast.Call) and call_name(v) in ("list", "tuple", "sorted", "iter") and v.args:
                        v = v.args[0]
                    if new and isinstance(v, ast.Name) and v.id in tainted:
                        tainted |= new
                        changed = True
        expands, refuses, slices = [], [], []
        for n in walk_function(f.node):
            if isinstance(n, ast.For):
                its = [n.iter.body, n.iter.orelse] if isinstance(n.iter, ast.IfExp) else [n.iter]
                for it in its:
                    while isinstance(it, ast.Subscript) and isinstance(it.slice, ast.Slice):
                        slices.append((n, it))
                        it = it.value
                    if isinstance(it, ast.Call) and call_name(it) in ("list", "tuple", "iter", "reversed") and it.args:
                        it = it.args[0]
                    if isinstance(it, ast.Name) and it.id in tainted:
                        made = [c for b in n.body for c in ast.walk(b) if isinstance(c, ast.Call) and isinstance(c.func, ast.Attribute) and c.func.attr in factories]
                        if made:
                            expands.append((n, made, it.id))
            if isinstance(n, ast.If) and any(isinstance(x, ast.Name) and x.id in tainted for x in ast.walk(n.test)) and any(isinstance(x, ast.Raise) for b in n.body for x in b and [b] or []):
                refuses.append(n)
        # the rest-of-the-members slices feeding an expansion start right after the first member
        for n, made, root_id in expands:
            for a in walk_function(f.node):
                if isinstance(a, ast.Assign) and any(isinstance(tg, ast.Name) and tg.id == root_id for tg in a.targets) and isinstance(a.value, ast.Subscript) and isinstance(a.value.slice, ast.Slice):
                    slices.append((a, a.value))
        for where, sl in slices:
            if where in [e[0] for e in expands] or isinstance(where, ast.Assign):
                lo = sl.slice.lower.value if isinstance(sl.slice.lower, ast.Constant) else ("?" if sl.slice.lower is not None else 0)
                oks = lo == 1 and sl.slice.upper is None and sl.slice.step is None
                res.ob("%s: the members beyond the first are %s: everything after the first: %s" % (short(rq), norm(sl), oks))
                if not oks:
                    res.fail(rule.id, "membership-extra-members::%s" % norm(sl), ctx.loc(rq, where), "the members beyond the first are taken as %s" % norm(sl),
                             "hadMember listing e1, e2, e3 loads without one of them")
        res.ob("%s: names holding the prov:entity values of one record: %s; expansion loops making records: %d; refusals: %d" % (short(rq), sorted(tainted), len(expands), len(refuses)))
        if not expands and not refuses:
            if bypass:
                res.fail(rule.id, "multi-entity-membership-not-expanded::%s" % rq, ctx.loc(rq, f.node),
                         "%s hands a membership listing several entities to the model as ONE record (add_attributes lifts its single-value refusal when prov:collection is among the names); the JSON, PROV-N and RDF writers print first() of the value set" % short(rq),
                         "<prov:hadMember> with a collection and entities e1, e2, e3: loads as one record; serialize(format='json') writes one member, which one depends on set order; reload gives another document")
            else:
                res.ob("%s: no expansion, but the model refuses a second value: the input is rejected" % short(rq))
    return res


RULES.setdefault("C11", []).append(Rule("C11.R18", "a membership listing several entities becomes one membership per entity in every reader (or is refused)", 2, c11_r18, "F-PATH",
                                        "text -> d -> another format -> d' keeps every member; no writer meets a PROV attribute with several values"))


# ------------------------------------------------------------------------------------------ C07.R14: RDF container scoping and wildcard removal
def c07_r14(ctx: Ctx, rule):
    """(a) decode_container builds the records of ONE container: every record-creating call is made on its `bundle` parameter - the
    document (self.document) is only used to register namespaces.  (b) rdflib's Graph.remove((s, p, o)) treats None as a wildcard:
    a removal whose subject is a variable is guarded by `<that variable> is not None`."""
    res = RuleResult()
    dq = RD + ".ProvRDFSerializer.decode_container"
    if dq not in ctx.p.functions:
        raise AnalysisError("anchor vanished: function %s" % dq)
    n_doc = 0
    for q in ctx.helper_closure(dq, 1):
        f = ctx.fn(q)
        if not q.startswith(RD + ".ProvRDFSerializer.decode_container"):
            continue
        for c in calls_in(f.node):
            recv = None
            if isinstance(c.func, ast.Attribute):
                recv = c.func.value
            elif isinstance(c.func, ast.Call) and call_name(c.func) == "getattr" and c.func.args:
                recv = c.func.args[0]
            if recv is not None and norm(recv) == "self.document":
                n_doc += 1
                name = call_name(c) if isinstance(c.func, ast.Attribute) else "getattr(..)"
                okc = name in ("add_namespace", "set_default_namespace", "get_registered_namespaces", "valid_qualified_name", "get_default_namespace")
                res.ob("decode_container uses self.document for %s: namespace bookkeeping only: %s" % (norm(c)[:50], okc))
                if not okc:
                    res.fail(rule.id, "record-created-on-document::%s" % norm(c)[:40], ctx.loc(q, c), "decode_container creates a record on self.document (%s) instead of the container it is decoding" % norm(c)[:50],
                             "an alternateOf inside a bundle is read back into the document: 'in the same bundles' fails")
    res.ob("uses of self.document inside decode_container: %d" % n_doc, nontrivial=False)
    eq_ = RD + ".ProvRDFSerializer.encode_container"
    ef = ctx.fn(eq_)
    g = get_cfg(ctx, eq_)
    n_rm = 0
    for c in calls_in(ef.node):
        if call_name(c) == "remove" and c.args and isinstance(c.args[0], ast.Tuple) and c.args[0].elts and isinstance(c.args[0].elts[0], ast.Name):
            n_rm += 1
            v = c.args[0].elts[0].id
            nd = node_of(g, c)
            dom = g.dominators(labels_excluded=("exc",))
            okg = False
            for i in dom.get(nd.id, set()):
                t = g.nodes[i]
                if t.kind == "test" and norm(t.stmt.test) in ("%s is not None" % v, v):
                    others = [m for m, lab in t.succ if lab == "false"]
                    if not any(m is nd or g.exists_path(m, nd, avoid=lambda x, t=t: x is t) for m in others):
                        okg = True
            res.ob("encode_container: %s is reached only when %s is not None (None would be a wildcard): %s" % (norm(c)[:50], v, okg))
            if not okg:
                res.fail(rule.id, "wildcard-removal::%s" % v, ctx.loc(eq_, c), "container.remove((%s, ...)) can run with %s = None: rdflib removes every matching triple" % (v, v),
                         "an identified derivation followed by an un-identified wasRevisionOf: the earlier derivation loses its rdf:type triple and is not read back")
    if not n_rm:
        res.ob("no triple removal in encode_container", nontrivial=False)
    return res


RULES.setdefault("C07", []).append(Rule("C07.R14", "decode_container creates records on its container only; triple removals never run with a None (wildcard) subject", 1, c07_r14, "F-PATH",
                                        "relations come back in the bundle they were written in; writing a revision never deletes other relations' triples"))


# ------------------------------------------------------------------------------------------ C01.R20: the "$" member is a value, not a flag
def json_value_truthiness(ctx: Ctx, rule):
    """In PROV-JSON a typed value is {"$": v, "type"|"lang": ..}; v may be 0, 0.0, false or "" (the writer emits exactly that for
    an int 0 or an empty language-tagged string).  In the JSON reader, a name bound to the "$" member is therefore never used as a
    truth value (if / and / or / not): presence is decided with `in` / `is None`."""
    res = RuleResult()
    rq = JS + ".decode_json_representation"
    if rq not in ctx.p.functions:
        raise AnalysisError("anchor vanished: function %s" % rq)
    n_names = 0
    for q in ctx.helper_closure(JS + ".decode_json_container", 2) + [rq]:
        fi = ctx.p.functions.get(q)
        if fi is None or fi.module != JS or isinstance(fi.node, ast.Lambda):
            continue
        names = set()
        for a in walk_function(fi.node):
            if isinstance(a, ast.Assign) and len(a.targets) == 1 and isinstance(a.targets[0], ast.Name):
                v = a.value
                key = None
                if isinstance(v, ast.Subscript) and isinstance(v.slice, ast.Constant):
                    key = v.slice.value
                elif isinstance(v, ast.Call) and call_name(v) in ("get", "pop") and v.args and isinstance(v.args[0], ast.Constant):
                    key = v.args[0].value
                if key == "$":
                    names.add(a.targets[0].id)
        if not names:
            continue
        n_names += len(names)
        bad = truthiness_tests(fi, names)
        res.ob("%s: names bound to the \"$\" member %s are used as truth values: %s" % (short(q) if q.count(".") > 2 else q, sorted(names), [norm(t)[:40] for e, t in bad] or "never"))
        for e, t in bad[:1]:
            res.fail(rule.id, "json-value-truth-tested::%s" % q, ctx.loc(q, e),
                     "%s decides on the truth of `%s`, the \"$\" member of a typed value (`%s`): 0, 0.0 and the empty string are values" % (short(q) if q.count(".") > 2 else q, e.id, norm(t)[:50]),
                     "an attribute holding the int 0 (written {\"$\": 0, \"type\": \"xsd:int\"}) or Literal('', langtag='en') is written and cannot be read back")
    if not n_names:
        res.ob("the JSON reader binds the \"$\" member to no name: it cannot be truth-tested by name", nontrivial=False)
    return res


RULES.setdefault("C01", []).append(Rule("C01.R20", "the \"$\" member of a typed JSON value is never used as a truth value", 0, json_value_truthiness, "F-BOOL",
                                        "0, 0.0 and empty typed strings survive the round trip"))
RULES.setdefault("C11", []).append(Rule("C11.R20", "the \"$\" member of a typed JSON value is never used as a truth value (shared with C01.R20)", 0, json_value_truthiness, "F-BOOL",
                                        "foreign JSON holding {\"$\": 0, ..} or {\"$\": \"\", \"lang\": ..} loads with that value"))


# ------------------------------------------------------------------------------------------ C10.R20: the structure being written is not consumed
def json_structure_not_consumed(ctx: Ctx, rule):
    """The JSON reader takes its input apart (`del content["bundle"]`, `del jc["prefix"]`).  On the write path, the structure the
    encoder hands to json.dump (what `default()` returns, what `serialize()` dumps) is never passed to a function that deletes,
    pops or overwrites entries of that parameter - directly or by handing it on."""
    res = RuleResult()
    # parameters a JS function consumes
    destructive = {}
    changed = True
    funcs = {q: fi for q, fi in ctx.p.functions.items() if fi.module == JS and not isinstance(fi.node, ast.Lambda)}
    while changed:
        changed = False
        for q, fi in funcs.items():
            for i, pn in enumerate(fi.params):
                if (q, i) in destructive or pn == "self":
                    continue
                hit = None
                for n in walk_function(fi.node):
                    if isinstance(n, ast.Delete) and any(isinstance(t, ast.Subscript) and isinstance(t.value, ast.Name) and t.value.id == pn for t in n.targets):
                        hit = n
                    elif isinstance(n, ast.Call) and isinstance(n.func, ast.Attribute) and isinstance(n.func.value, ast.Name) and n.func.value.id == pn and n.func.attr in ("pop", "popitem", "clear", "update", "setdefault"):
                        hit = n
                    elif isinstance(n, ast.Assign) and any(isinstance(t, ast.Subscript) and isinstance(t.value, ast.Name) and t.value.id == pn for t in n.targets):
                        hit = n
                    elif isinstance(n, ast.Call) and isinstance(n.func, ast.Name):
                        r = ctx.p.resolve_name(fi.module, n.func.id)
                        if r and r[0] == "func":
                            for j, a in enumerate(n.args):
                                if isinstance(a, ast.Name) and a.id == pn and (r[1], j) in destructive:
                                    hit = n
                if hit is not None:
                    destructive[(q, i)] = hit
                    changed = True
    res.ob("parameters the JSON module's functions take apart: %s" % sorted("%s(%s)" % (q.rsplit(".", 1)[1], funcs[q].params[i]) for q, i in destructive))
    roots = [JS + ".ProvJSONSerializer.serialize", JS + ".ProvJSONEncoder.default"]
    n_sites = 0
    for rq in roots:
        if rq not in ctx.p.functions:
            raise AnalysisError("anchor vanished: function %s" % rq)
        for q in ctx.helper_closure(rq, 2):
            fi = funcs.get(q)
            if fi is None:
                continue
            written = {r.value.id for r in walk_function(fi.node) if isinstance(r, ast.Return) and isinstance(r.value, ast.Name)}
            for c in calls_in(fi.node):
                if call_name(c) in ("dump", "dumps") and c.args and isinstance(c.args[0], ast.Name):
                    written.add(c.args[0].id)
            for c in calls_in(fi.node):
                if not isinstance(c.func, ast.Name):
                    continue
                r = ctx.p.resolve_name(fi.module, c.func.id)
                if not (r and r[0] == "func"):
                    continue
                for j, a in enumerate(c.args):
                    if isinstance(a, ast.Name) and a.id in written:
                        n_sites += 1
                        bad = (r[1], j) in destructive
                        res.ob("%s: the structure `%s` it writes is passed to %s: which takes it apart: %s" % (short(q) if q.count(".") > 2 else q, a.id, c.func.id, bad))
                        if bad:
                            res.fail(rule.id, "written-structure-consumed::%s::%s" % (q, c.func.id), ctx.loc(q, c),
                                     "%s hands `%s`, the structure about to be written, to %s, which deletes entries from that parameter (%s)" % (short(q) if q.count(".") > 2 else q, a.id, c.func.id, norm(destructive[(r[1], j)])[:40]),
                                     'with DEBUG logging on, the emitted PROV-JSON has no "prefix" block and no "bundle" block: an independent reader cannot resolve a single name')
    res.ob("calls on the write path that hand the written structure to another function of the module: %d" % n_sites, nontrivial=False)
    return res


RULES.setdefault("C10", []).append(Rule("C10.R20", "the structure handed to json.dump is never passed to a function that takes its argument apart", 1, json_structure_not_consumed, "F-OWN",
                                        "the emitted PROV-JSON carries its prefix and bundle blocks whatever the logging configuration"))
RULES.setdefault("C01", []).append(Rule("C01.R22", "the structure handed to json.dump is never consumed on the way (shared with C10.R20)", 1, json_structure_not_consumed, "F-OWN",
                                        "what is written is what was encoded"))


# ------------------------------------------------------------------------------------------ C11.R23: children of an element are not all elements
def xml_child_nodes_rule(ctx: Ctx, rule):
    """Iterating an lxml element yields its comments and processing instructions too; their `.tag` is a function, and
    `etree.QName(node)` raises a built-in ValueError for them.  Comments are stripped before the tree is read, processing
    instructions are not.  In the XML reader, a loop over the children of an element that takes `etree.QName(child)` (or reads
    `child.tag` as a name) first leaves non-element nodes aside: `isinstance(child.tag, str)` (guard clause or enclosing test), or
    the loop walks `iterchildren(tag=etree.Element)` / `iterchildren("*")`."""
    res = RuleResult()
    n_loops = 0
    for q, fi in ctx.p.functions.items():
        if fi.module != XM or isinstance(fi.node, ast.Lambda):
            continue
        for lp in walk_function(fi.node):
            if not (isinstance(lp, ast.For) and isinstance(lp.target, ast.Name)):
                continue
            v = lp.target.id
            qn = [c for b in lp.body for c in ast.walk(b) if isinstance(c, ast.Call) and isinstance(c.func, ast.Attribute) and c.func.attr == "QName" and c.args and isinstance(c.args[0], ast.Name) and c.args[0].id == v]
            if not qn:
                continue
            n_loops += 1
            it = lp.iter
            filtered_iter = isinstance(it, ast.Call) and call_name(it) in ("iterchildren", "iter", "findall", "iterfind", "xpath") and (
                any(isinstance(a, ast.Constant) and a.value in ("*", "./*", "{*}*") for a in it.args) or any(k.arg == "tag" for k in it.keywords) or any("Element" in norm(a) for a in it.args))
            guard = None
            for st in lp.body:
                if any(c is x for c in qn for x in ast.walk(st)) and guard is None and not isinstance(st, ast.If):
                    break
                if isinstance(st, ast.If):
                    t = norm(st.test)
                    if ("%s.tag" % v) in t and ("isinstance" in t or "Comment" in t or "ProcessingInstruction" in t or "PI" in t or "callable" in t):
                        leaves = st.body and isinstance(st.body[-1], (ast.Continue, ast.Return, ast.Break, ast.Raise))
                        encloses = all(any(c is x for b in st.body for x in ast.walk(b)) for c in qn)
                        if leaves or encloses:
                            guard = st
                            break
            ok = filtered_iter or guard is not None
            res.ob("%s: for %s in %s: etree.QName(%s) is taken only for element nodes: %s" % (short(q) if q.count(".") > 2 else q, v, norm(it)[:30], v, ok))
            if not ok:
                res.fail(rule.id, "non-element-child-named::%s::%s" % (q, v), ctx.loc(q, qn[0]),
                         "%s takes etree.QName(%s) of every child of `%s`: a processing instruction among them makes lxml raise a built-in ValueError" % (short(q) if q.count(".") > 2 else q, v, norm(it)[:30]),
                         '<prov:document ..><?generator tool="X"?><prov:entity prov:id="ex:e1"/></prov:document>: loading raises a built-in ValueError (Invalid input tag of type ...), not a library error')
    if n_loops < 2:
        raise AnalysisError("the loops over child elements of the XML reader were not found (%d)" % n_loops)
    return res


RULES.setdefault("C11", []).append(Rule("C11.R23", "the XML reader names only element nodes: processing instructions (and comments) among the children are left aside", 2, xml_child_nodes_rule, "F-NULL",
                                        "well-formed PROV-XML carrying processing instructions loads (they carry no PROV content), or is refused with a library error"))
