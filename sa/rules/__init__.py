"""Rule registry: property id -> {"rules": [Rule...], "explanation": str, "thorough": fn|None}."""
import importlib

MODULES = ["tables", "dispatch", "paths", "names", "purity", "io", "boolean", "codecs", "taint", "misc"]

EXPLANATIONS = {}


def all_rules():
    reg = {}
    for m in MODULES:
        mod = importlib.import_module("sa.rules." + m)
        for prop, rules in mod.RULES.items():
            reg.setdefault(prop, {"rules": [], "explanation": "", "thorough": None})["rules"].extend(rules)
    from . import explain

    for prop, d in reg.items():
        d["rules"].sort(key=lambda r: (int(r.id.split(".R")[1].split("-")[0].rstrip("abcdefgh")) if ".R" in r.id else 0, r.id))
        d["explanation"] = explain.EXPLANATIONS.get(prop, "")
        d["thorough"] = explain.THOROUGH.get(prop)
    return reg
